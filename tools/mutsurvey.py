#!/usr/bin/env python3
"""Mutation survey (development tool, not a registered check): mechanical single-site mutants of /repo/src are
run against the inputs of every family of the quick checks (logged with VERIF_DUMP_CORPUS); a mutant whose outputs
on all of them equal the baseline's, and which the crate's own test suite does not kill either, is a SURVIVOR: either
an equivalent mutant or a gap in the families.  Every family compares the crate with the model on these very
outputs, so "some output differs" means "some check reports it".

  mutsurvey.py <n> [seed]      results -> .work/mutsurvey.jsonl
Works on /repo's working tree (restores it after each mutant); nothing else may use /repo meanwhile."""
import concurrent.futures as cf
import hashlib
import json
import os
import random
import re
import subprocess
import sys
import time

HERE = os.path.dirname(os.path.abspath(__file__))
sys.path.insert(0, HERE)
import vlib  # noqa: E402

DUMP = os.path.join(vlib.WORK, "corpus_dump.jsonl")
OUT = os.path.join(vlib.WORK, "mutsurvey.jsonl")
FILES = ["src/parser.rs", "src/scanner.rs", "src/token.rs", "src/lib.rs", "src/error.rs"]


def load_invocations():
    seen, inv = set(), []
    for ln in open(DUMP):
        o = json.loads(ln)
        k = hashlib.sha1((json.dumps(o["args"]) + "\0" + (o["stdin"] or "")).encode("utf8", "replace")).hexdigest()
        if k in seen:
            continue
        seen.add(k)
        inv.append(o)
    # cheap and general first (kills most mutants early)
    inv.sort(key=lambda o: (o["args"][0] in ("enum", "threads"), len(o["stdin"] or "")))
    return inv


def run_inv(gv, o):
    rc, out, err = vlib.sh([gv] + o["args"], input=o["stdin"], timeout=40)
    return hashlib.sha1(("%d\n%s" % (rc, out)).encode("utf8", "replace")).hexdigest()


def run_all(gv, inv, baseline=None):
    """hashes of all invocations; with a baseline: index of the first differing invocation or None"""
    res = [None] * len(inv)
    with cf.ThreadPoolExecutor(max_workers=vlib.NPROC) as ex:
        futs = {}
        it = iter(range(len(inv)))
        pending = set()
        diff = None
        for i in it:
            f = ex.submit(run_inv, gv, inv[i])
            futs[f] = i
            pending.add(f)
            if len(pending) >= vlib.NPROC * 2:
                done, pending = cf.wait(pending, return_when=cf.FIRST_COMPLETED)
                for d in done:
                    j = futs[d]
                    res[j] = d.result()
                    if baseline is not None and res[j] != baseline[j]:
                        diff = j
                if diff is not None:
                    break
        for d in cf.as_completed(pending):
            j = futs[d]
            res[j] = d.result()
            if baseline is not None and res[j] != baseline[j] and diff is None:
                diff = j
    return diff if baseline is not None else res


OPS = [
    ("rel", r"==", "!="), ("rel", r"!=", "=="), ("rel", r"<=", "<"), ("rel", r">=", ">"), ("rel", r" < ", " <= "), ("rel", r" > ", " >= "),
    ("logic", r"&&", "||"), ("logic", r"\|\|", "&&"),
    ("arith", r" \+ 1\b", " + 2"), ("arith", r" \+ 1\b", ""), ("arith", r" - 1\b", ""), ("arith", r"\+= 1\b", "+= 2"), ("arith", r" - 1\b", " - 2"),
    ("bool", r"\btrue\b", "false"), ("bool", r"\bfalse\b", "true"),
    ("neg", r"\bif !", "if "), ("neg", r"\bwhile !", "while "), ("neg", r"\(!", "("),
    ("const", r"\b(\d+)\b", None),
]


def code_lines(path):
    """indices of mutable lines: non-test, non-hook, non-comment, non-attribute code"""
    lines = open(path).read().split("\n")
    ok = []
    depth_skip = None
    in_test = False
    i = 0
    skip_next_item = False
    brace = 0
    while i < len(lines):
        ln = lines[i]
        st = ln.strip()
        if st.startswith("#[cfg(test)]"):
            break
        if "cfg(gosyn_verif)" in st or "cfg(not(gosyn_verif))" in st:
            # skip the attribute and the item / block / statement it guards
            j = i + 1
            bal = 0
            started = False
            while j < len(lines):
                bal += lines[j].count("{") - lines[j].count("}")
                if "{" in lines[j]:
                    started = True
                if (started and bal <= 0) or (not started and lines[j].rstrip().endswith((";", ","))):
                    break
                j += 1
            i = j + 1
            continue
        if st and not st.startswith(("//", "#[", "use ", "///", "pub use", "mod ", "pub mod")) and "unreachable!" not in st and "panic!" not in st:
            ok.append(i)
        i += 1
    return lines, ok


def make_mutant(rng):
    for _ in range(200):
        f = rng.choice(FILES + ["src/parser.rs", "src/parser.rs", "src/scanner.rs"])
        path = os.path.join(vlib.REPO, f)
        lines, ok = code_lines(path)
        if not ok:
            continue
        i = rng.choice(ok)
        ln = lines[i]
        kind = rng.choice(["op", "op", "op", "delete", "enum"])
        if kind == "delete":
            if re.match(r"^\s*(self\.\w+\(.*\)\??|\w+(\.\w+)* [+\-|&]?= .*|\w+\.push\(.*\)|return .*|break|continue);\s*$", ln) and "let " not in ln:
                new = re.match(r"^\s*", ln).group(0) + "/* deleted */"
                if ln.strip().startswith("return "):
                    continue
                return f, i, ln, new, "delete-statement"
            continue
        if kind == "enum":
            m = list(re.finditer(r"\b(Operator|Keyword|LitKind)::(\w+)\b", ln))
            if not m:
                continue
            mm = rng.choice(m)
            src = open(path).read()
            names = sorted(set(re.findall(r"\b%s::(\w+)\b" % mm.group(1), src)) - {mm.group(2), "from_str", "from"})
            if not names:
                continue
            nn = rng.choice(names)
            new = ln[:mm.start(2)] + nn + ln[mm.end(2):]
            return f, i, ln, new, "enum %s->%s" % (mm.group(2), nn)
        cands = []
        for name, pat, rep in OPS:
            for m in re.finditer(pat, ln):
                # keep out of string literals and generics / arrows
                pre = ln[:m.start()]
                if pre.count('"') % 2 == 1:
                    continue
                if name == "rel" and (ln[m.start() - 1:m.start() + 1] in ("->", "=>") or ln[m.start():m.end() + 1] in ("=>", ) or "<" in pat and re.search(r"(Vec|Option|Result|Box|Rc|fn\s+\w+|impl|struct|enum|::)\s*<", ln)):
                    continue
                if name == "const":
                    v = int(m.group(1))
                    if v > 10000:
                        continue
                    cands.append((m, str(v + 1), "const %d->%d" % (v, v + 1)))
                    if v > 0:
                        cands.append((m, str(v - 1), "const %d->%d" % (v, v - 1)))
                else:
                    cands.append((m, rep, "%s %s->%s" % (name, m.group(0).strip(), rep.strip())))
        if not cands:
            continue
        m, rep, what = rng.choice(cands)
        new = ln[:m.start()] + rep + ln[m.end():]
        if new != ln:
            return f, i, ln, new, what
    return None


def suite_passes():
    rc, out, err = vlib.sh("cargo test --offline 2>&1 | grep -c 'test result: FAILED\\|error\\[\\|error:\\|panicked'", cwd=vlib.REPO, timeout=1200)
    return out.strip() == "0"


def main():
    n = int(sys.argv[1])
    seed = int(sys.argv[2]) if len(sys.argv) > 2 else 1
    rng = random.Random(seed)
    st = subprocess.run(["git", "-C", vlib.REPO, "status", "--short"], capture_output=True, text=True).stdout
    if any(not l.startswith("??") for l in st.splitlines()):
        print("/repo is not clean")
        return 2
    inv = load_invocations()
    gv = vlib.build_harness("release")
    t0 = time.time()
    base = run_all(gv, inv)
    print("baseline: %d invocations in %.1f s" % (len(inv), time.time() - t0), flush=True)
    seen = set()
    counts = {}
    for k in range(n):
        mu = make_mutant(rng)
        if mu is None:
            continue
        f, i, old, new, what = mu
        key = (f, i, new)
        if key in seen:
            continue
        seen.add(key)
        path = os.path.join(vlib.REPO, f)
        lock = vlib.Lock()
        lock.__enter__()        # the registered checks take the same lock: none of them sees a mutated tree
        lines = open(path).read().split("\n")
        lines[i] = new
        open(path, "w").write("\n".join(lines))
        verdict, where = None, None
        try:
            try:
                gvm = vlib.build_harness("release")
            except vlib.TieBroken:
                verdict = "stillborn"
                gvm = None
            if gvm:
                d = run_all(gvm, inv, base)
                if d is not None:
                    verdict, where = "killed-by-families", " ".join(inv[d]["args"])[:60]
                elif not suite_passes():
                    verdict = "killed-by-suite-only"
                else:
                    verdict = "SURVIVOR"
        finally:
            subprocess.run(["git", "-C", vlib.REPO, "checkout", "--", "."], check=True)
            lock.__exit__(None, None, None)
        counts[verdict] = counts.get(verdict, 0) + 1
        rec = {"file": f, "line": i + 1, "what": what, "old": old.strip(), "new": new.strip(), "verdict": verdict, "where": where}
        open(OUT, "a").write(json.dumps(rec) + "\n")
        print("%3d %-22s %s:%d %s | %s  =>  %s" % (k, verdict, f, i + 1, what, old.strip()[:60], new.strip()[:60]), flush=True)
    vlib.build_harness("release")
    print(counts)


if __name__ == "__main__":
    sys.exit(main() or 0)
