#!/bin/bash
# developer loop: rebuild harness (from /repo working tree) and extracted model, compare them
cd /verif
python3 - <<'PY'
import sys
sys.path.insert(0,'tools')
import vlib
print(vlib.build_harness("release")); print(vlib.build_model())
PY
python3 tools/cmp_parse.py ${1:-300}
