"""Tiny S-expression reader for the tree format of /verif/harness/src/walk.rs and
the *shape* projection used to compare a parser tree with a generator derivation.

Format of a node:  (Tag @pos.. attr.. #[docs] kid..)
  * @N          positions                        -> dropped by shape()
  * s: o: k: l: b: d:   attributes (escaped, never contain blanks or parentheses)
  * #[p:text p:text]    doc comments             -> dropped by shape()
  * kids are nodes; `(Empty)` statement nodes are dropped from every kid list.

shape(x) accepts a `gv parse` output line ("OK <tree> | <comments>"), a bare tree
text, or an already parsed tree, and returns the canonical text
"(Tag attr.. kid..)".  For "ERR ..." lines it returns None.
"""
import re

_TOK = re.compile(r"\(|\)|[^\s()]+")


class Node(object):
    __slots__ = ("tag", "pos", "attrs", "docs", "kids")

    def __init__(self, tag, pos, attrs, docs, kids):
        self.tag, self.pos, self.attrs, self.docs, self.kids = tag, pos, attrs, docs, kids

    def __repr__(self):
        return "Node(%s)" % dump(self)


def parse_prefix(text, start=0):
    """parse one node starting at text[start] == '('; returns (Node, end_index)"""
    m = _TOK.match(text, _skip_ws(text, start))
    if not m or m.group() != "(":
        raise ValueError("expected '(' at %d" % start)
    stack = []
    cur = None
    pos = m.end()
    # iterative to be safe on deep trees
    stack.append(["", [], [], [], []])  # tag,pos,attrs,docs,kids
    state_tag = True
    in_docs = False
    while True:
        m = _TOK.match(text, _skip_ws(text, pos))
        if not m:
            raise ValueError("unterminated S-expression")
        t = m.group()
        pos = m.end()
        top = stack[-1]
        if t == "(":
            if state_tag:
                raise ValueError("missing tag at %d" % pos)
            stack.append(["", [], [], [], []])
            state_tag = True
            in_docs = False
        elif t == ")":
            if state_tag:
                raise ValueError("missing tag at %d" % pos)
            node = Node(top[0], top[1], top[2], top[3], top[4])
            stack.pop()
            in_docs = False
            if not stack:
                return node, pos
            stack[-1][4].append(node)
        elif state_tag:
            top[0] = t
            state_tag = False
            in_docs = False
        elif top[4]:
            raise ValueError("atom %r after a child node at %d" % (t, pos))
        elif in_docs or t.startswith("#["):
            in_docs = True
            top[3].append(t)
        elif t.startswith("@"):
            top[1].append(t)
        else:
            top[2].append(t)


def _skip_ws(text, i):
    n = len(text)
    while i < n and text[i] in " \t\r\n":
        i += 1
    return i


def parse(text):
    """parse a whole tree text (or a gv line) into a Node"""
    text = _strip_ok(text)
    node, _ = parse_prefix(text, 0)
    return node


def _strip_ok(text):
    if text.startswith("OK "):
        return text[3:]
    return text


def dump(node, keep_pos=False, keep_docs=False, keep_empty=False):
    out = []
    _dump(node, out, keep_pos, keep_docs, keep_empty)
    return "".join(out)


def _dump(node, out, keep_pos, keep_docs, keep_empty):
    # iterative pre-order with explicit close markers
    work = [node]
    first = True
    while work:
        n = work.pop()
        if n is None:
            out.append(")")
            continue
        if not first:
            out.append(" ")
        first = False
        out.append("(")
        out.append(n.tag)
        if keep_pos:
            for p in n.pos:
                out.append(" " + p)
        for a in n.attrs:
            out.append(" " + a)
        if keep_docs and n.docs:
            out.append(" " + " ".join(n.docs))
        work.append(None)
        kids = n.kids
        if not keep_empty:
            kids = [k for k in kids if not (k.tag == "Empty" and not k.kids and not k.attrs)]
        for k in reversed(kids):
            work.append(k)


def shape(x):
    """canonical shape text of a gv line / tree text / Node; None for ERR/other lines"""
    if isinstance(x, Node):
        return dump(x)
    if x is None:
        return None
    if x.startswith("OK "):
        x = x[3:]
    elif not x.startswith("("):
        return None
    node, _ = parse_prefix(x, 0)
    return dump(node)


def first_diff(a, b):
    """human-oriented location of the first difference of two shape texts"""
    if a is None or b is None:
        return "one side has no tree"
    n = min(len(a), len(b))
    i = 0
    while i < n and a[i] == b[i]:
        i += 1
    lo = max(0, i - 60)
    return "at %d: ...%s <<<>>> %s... | ...%s <<<>>> %s..." % (i, a[lo:i], a[i:i + 60], b[lo:i], b[i:i + 60])


if __name__ == "__main__":
    import sys
    for line in sys.stdin:
        s = shape(line.rstrip("\n"))
        print(s if s is not None else line.rstrip("\n"))
