#!/usr/bin/env python3
"""gogen: generator of syntactically valid Go source files *by construction*
(Go spec grammar incl. type parameters), each paired with the derivation tree the
generator built, in gosyn's AST vocabulary and in *shape* form (the S-expressions of
/verif/harness/src/walk.rs without @positions, #[docs] and (Empty) statements; see
sexpr.shape).

API
    gen_program(rng, budget, max_depth=12, want=None) -> Program
        Program.tokens          list[Tok]
        Program.expected_shape  str   compare with sexpr.shape(<gv parse line>)
        Program.features        set[str]  production@context labels hit
        budget ~ number of tokens aimed at; bracket nesting stays < max_depth;
        want: set of labels to prefer (labels not yet hit in this program are boosted, and
        productions leading to their contexts too)
    render(tokens, rng, style) -> str        style in STYLES
    coverage_labels() -> list[str]           every label the generator can produce
    check_render(tokens, src) -> None | msg  independent Go scanner + semicolon insertion
    nesting_depth(tokens) -> int
    AVOID                                    switches for known gosyn defects (FINDINGS.md)

Tok
    kind   'ident','int','float','imag','rune','string','op','kw'
    text   exact source text of the token
    semi_optional   an explicit ';' that may be realised otherwise:
        nl_ok    by a newline / line comment / comment containing a newline (the previous
                 token triggers automatic semicolon insertion)
        omit_ok  by nothing when the next token is ')' or '}'
        eof_ok   by nothing at the end of the file (last token only)
    comma_optional  a trailing ',' before ')' ']' '}' that may be dropped (then no newline
                    is put before the closer unless the previous token does not trigger insertion)

All randomness comes from the rng passed in.
"""
import bisect
import random

# Known defects of gosyn that the generator avoids by default.  Set a switch to
# False to generate the construct again (see FINDINGS.md for every entry).
AVOID = {
    'kf_defer_last': False,        # `{ defer f() }`   ';' after defer may not be omitted before '}'
    'kf_else_close': False,        # `if x {} else {} }`   ';' after an else-block may not be omitted
    'kf_stmt_amp': False,          # statement starting with '&'
    'kf_const_type': False,        # `const x *T = 1`   const type not starting with an identifier
    'kf_tparam_bracket': True,    # `type T[P []int] struct{}`, `type T[P [10]int] struct{}`
    'kf_embedded_star': False,     # embedded `*T` field loses the star (KF-29)
    'kf_amp_paren': False,         # `&(x)` drops one paren level
    'kf_package_nl': True,        # newline directly after `package` (KF-5)
    'kf_inst_trailing_comma': True,   # `f[int,](x)` trailing comma in expression-context type args
    'kf_first_typearg_expr': True,    # embedded `T[*int]`, unnamed param `T[*int]`: first type arg parsed as expression
    'kf_tparam_decl_bracket_union': True,  # `type T[A any, B []int | string] struct{}`: union starting with '[' in a type decl
    'kf_blank_typearg': True,         # `func (r T[_]) m()`: blank identifier as receiver type parameter rejected
}

STYLES = ('canonical', 'newlines', 'semicolons', 'random', 'comments', 'crlf', 'dense')


# ---------------------------------------------------------------- tokens

class Tok(object):
    __slots__ = ('kind', 'text', 'semi_optional', 'comma_optional', 'nl_ok', 'omit_ok', 'eof_ok')

    def __init__(self, kind, text):
        self.kind = kind
        self.text = text
        self.semi_optional = False   # explicit ';' that may be realised differently (see nl_ok/omit_ok/eof_ok)
        self.comma_optional = False  # trailing ',' before ')' ']' '}' that may be omitted
        self.nl_ok = False           # ';' may be a newline (previous token triggers semicolon insertion)
        self.omit_ok = False         # ';' may be omitted when the next token is ')' or '}'
        self.eof_ok = False          # final ';' of the file: may be left to the end-of-file rule

    def __repr__(self):
        f = ''
        if self.semi_optional:
            f = '?' + ('n' if self.nl_ok else '') + ('o' if self.omit_ok else '') + ('e' if self.eof_ok else '')
        if self.comma_optional:
            f = '?'
        return '%s:%s%s' % (self.kind, self.text, f)


class Program(object):
    __slots__ = ('tokens', 'expected_shape', 'features')

    def __init__(self, tokens, expected_shape, features):
        self.tokens = tokens
        self.expected_shape = expected_shape
        self.features = features


_LIT_KINDS = ('ident', 'int', 'float', 'imag', 'rune', 'string')
_ASI_KW = ('break', 'continue', 'fallthrough', 'return')
_ASI_OP = ('++', '--', ')', ']', '}')


def triggers_asi(tok):
    """does a newline after this token insert a ';' (Go spec, Semicolons rule 1)"""
    k = tok.kind
    if k in _LIT_KINDS:
        return True
    if k == 'kw':
        return tok.text in _ASI_KW
    return tok.text in _ASI_OP


def esc(s):
    out = []
    for c in s:
        u = ord(c)
        if 33 <= u <= 126 and c not in '\\()':
            out.append(c)
        else:
            out.append('\\u{%x}' % u)
    return ''.join(out)


# ---------------------------------------------------------------- rendering

OPERATORS = ['+', '-', '*', '/', '%', '&', '|', '^', '<<', '>>', '&^', '+=', '-=', '*=', '/=', '%=', '&=', '|=',
             '^=', '<<=', '>>=', '&^=', '&&', '||', '<-', '++', '--', '==', '<', '>', '=', '!', '~', '!=', '<=',
             '>=', ':=', '...', '(', ')', '[', ']', '{', '}', ',', ':', '.', ';']
_MERGE = OPERATORS + ['//', '/*']


def _wordy_char(c):
    return c == '_' or c.isalnum()


def need_space(a, b):
    """must a blank separate tokens a and b so that they are scanned as a and b"""
    at, bt = a.text, b.text
    fb = bt[0]
    if a.kind in ('ident', 'kw', 'int', 'float', 'imag'):
        if _wordy_char(fb):
            return True
        if fb == '.':
            # 1 .5   1 ...   x .5
            if a.kind in ('int', 'float', 'imag'):
                return True
            if len(bt) > 1 and bt[1].isdigit():
                return True
        return False
    if a.kind in ('rune', 'string'):
        return False
    # operator on the left
    if at == '.' and fb.isdigit():
        return True
    ab = at + bt
    for s in _MERGE:
        if len(s) > len(at) and s.startswith(at) and (ab.startswith(s) or s.startswith(ab)):
            return True
    return False


_COMMENTS_INLINE = ['/*c*/', '/**/', '/* x */', '/***/', '/*/*/', '/* é日 */', '/* // */', '/* " \' ` */',
                    '/* ; */', '/* { ( */', '/*\t*/']
_COMMENTS_LINE = ['// c', '//', '// é日本', '// /* x', '// "', '//;', '//\t}']
_COMMENTS_NL = ['/* a\n b */', '/*\n*/', '/* é\n//x\n */']


def render(tokens, rng, style):
    """source text whose token sequence after automatic semicolon insertion is `tokens`
    (optional semicolons explicit / newline / omitted, optional commas present / omitted)"""
    if style not in STYLES:
        raise ValueError('unknown style %r' % style)
    NL = '\r\n' if style == 'crlf' else '\n'
    out = []
    n = len(tokens)
    prev = None          # last printed token
    need_nl = False      # a virtual ';' has to be realised by a newline in the next gap
    after_omit = False
    rnd = rng.random

    def blank():
        if style in ('random', 'comments'):
            x = rnd()
            if x < 0.7:
                return ' '
            if x < 0.8:
                return '\t'
            if x < 0.9:
                return '  '
            if x < 0.93:
                return '\r'
            return ' \t '
        return ' '

    def newline_text(can_comment):
        s = ''
        if style == 'comments' and can_comment and rnd() < 0.4:
            if rnd() < 0.25:
                s = blank() + rng.choice(_COMMENTS_NL) + (NL if rnd() < 0.5 else '')
                if rnd() < 0.5:
                    s += blank()
                return s
            s = (blank() if rnd() < 0.8 or (prev is not None and prev.text[-1] == '/') else '') + rng.choice(_COMMENTS_LINE)
        elif style in ('random', 'comments', 'crlf') and rnd() < 0.2:
            s = blank()
        s += NL
        if style in ('random', 'comments', 'newlines', 'crlf'):
            x = rnd()
            if x < 0.15:
                s += NL
            if x < 0.5:
                s += blank() * rng.randint(1, 3)
        return s

    def gap(nxt):
        """separator between prev and nxt (nxt None: end of file)"""
        nl_allowed = need_nl or prev is None or not triggers_asi(prev)
        if prev is not None and prev.kind == 'kw' and prev.text == 'package' and AVOID['kf_package_nl']:
            nl_allowed = False
        if need_nl:
            return newline_text(True)
        if prev is None:
            # start of file
            if style in ('random', 'comments', 'newlines', 'crlf') and rnd() < 0.3:
                return newline_text(True)
            return ''
        if nxt is None:
            # end of file
            if style in ('semicolons', 'dense'):
                return ''
            if style == 'canonical':
                return NL if nl_allowed else ''
            x = rnd()
            if nl_allowed and x < 0.5:
                return newline_text(True)
            if style == 'comments' and nl_allowed and x < 0.7:
                return ' // eof'
            if x < 0.85:
                return ''
            return blank()
        ns = need_space(prev, nxt)
        if style == 'dense':
            return ' ' if ns else ''
        if style in ('canonical', 'semicolons'):
            return ' '
        if style in ('newlines', 'crlf'):
            if nl_allowed and rnd() < (0.5 if style == 'newlines' else 0.3):
                return newline_text(False)
            return ' '
        # random / comments
        x = rnd()
        if nl_allowed and x < 0.15:
            return newline_text(True)
        if style == 'comments' and x < 0.4:
            c = rng.choice(_COMMENTS_INLINE)
            pre = '' if (rnd() < 0.3 and prev.text[-1] != '/') else blank()
            post = '' if rnd() < 0.3 else blank()
            return pre + c + post
        if x < 0.55 and not ns:
            return ''
        return blank()

    i = 0
    while i < n:
        t = tokens[i]
        nxt = tokens[i + 1] if i + 1 < n else None
        if t.semi_optional:
            closer = nxt is not None and nxt.kind == 'op' and nxt.text in (')', '}')
            modes = ['explicit']
            if t.nl_ok and not need_nl:
                modes.append('nl')
            if t.omit_ok and closer:
                modes.append('omit')
            if t.eof_ok and nxt is None:
                modes.append('omit')
            if style == 'semicolons':
                mode = 'explicit'
            elif style == 'canonical':
                mode = 'nl' if 'nl' in modes else 'explicit'
            elif style in ('newlines', 'crlf'):
                mode = 'nl' if 'nl' in modes else ('omit' if 'omit' in modes and rnd() < 0.5 else 'explicit')
            elif style == 'dense':
                mode = 'omit' if 'omit' in modes else 'explicit'
            else:
                mode = rng.choice(modes)
            if mode == 'nl':
                need_nl = True
                i += 1
                continue
            if mode == 'omit':
                i += 1
                continue
        elif t.comma_optional:
            closer = nxt is not None and nxt.kind == 'op' and nxt.text in (')', ']', '}')
            if closer:
                if style == 'dense':
                    drop = True
                elif style in ('canonical', 'semicolons', 'newlines', 'crlf'):
                    drop = False
                else:
                    drop = rnd() < 0.5
                if drop:
                    i += 1
                    continue
        out.append(gap(t))
        need_nl = False
        out.append(t.text)
        prev = t
        i += 1
    out.append(gap(None))
    return ''.join(out)


# ---------------------------------------------------------------- shape helpers

NONE = '(None)'


def N(tag, *kids):
    if kids:
        return '(' + tag + ' ' + ' '.join(kids) + ')'
    return '(' + tag + ')'


def NL_(tag, kids):
    if kids:
        return '(' + tag + ' ' + ' '.join(kids) + ')'
    return '(' + tag + ')'


def LST(items):
    return NL_('List', items)


def ID(name):
    return '(Ident s:' + esc(name) + ')'


def FIELD(names, typ, tag=NONE):
    return N('Field', LST([ID(x) for x in names]), typ, tag)


_LK = {'int': 'N', 'float': 'F', 'imag': 'M', 'rune': 'R', 'string': 'S'}


def BASIC(kind, text):
    return '(BasicLit l:%s s:%s)' % (_LK[kind], esc(text))


# ---------------------------------------------------------------- contexts

# expression contexts
HDR = frozenset(['if_cond', 'for_cond', 'switch_tag', 'hdr_init', 'for_post', 'range_expr', 'range_lhs',
                 'tswitch_guard'])
EXPR_CTX = ['top_init', 'local_init', 'expr_stmt', 'assign_lhs', 'assign_rhs', 'incdec', 'send_chan', 'send_val',
            'return', 'go_call', 'defer_call', 'if_cond', 'for_cond', 'switch_tag', 'hdr_init', 'for_post',
            'range_expr', 'range_lhs', 'tswitch_guard', 'call_arg', 'index', 'slice_bound', 'array_len',
            'case_list', 'comm_clause', 'lit_elem', 'lit_key', 'paren']
# type contexts
TYPE_CTX = ['var_type', 'const_type', 'type_rhs', 'alias_rhs', 'param', 'variadic', 'result', 'tparam',
            'tparam_decl', 'tparam_decl_first', 'union_term', 'struct_field', 'struct_embedded', 'iface_embedded',
            'ptr_base', 'slice_elem', 'array_elem', 'map_key', 'map_val', 'chan_elem', 'paren_type', 'conv',
            'complit_elem', 'typeassert', 'tswitch_case', 'type_arg', 'type_arg_expr', 'call_arg_type']
# statement contexts
STMT_CTX = ['func_body', 'block', 'case_body', 'comm_body', 'funclit_body', 'label']
SIMPLE_CTX = ['if_init', 'for_init', 'for_post', 'switch_init', 'tswitch_init']
DECL_CTX = ['toplevel', 'func_body', 'block', 'case_body', 'comm_body', 'funclit_body', 'label']

# flags for expressions
F_STMT = 1          # first token of a statement: no leading '&' (kf_stmt_amp)
F_NOCHAN = 2        # directly after unary '<-': may not start with 'chan'
F_NOBAREPAREN = 4   # directly after unary '&': may not be exactly a parenthesised expression (kf_amp_paren)
# flags for types
T_EXPR = 1          # the type stands where gosyn parses an expression (`*T` is Operation, `T[A,B]` IndexList)
T_NOARROW = 2       # may not start with '<-' (element of a bidirectional chan)
T_NOOPEN = 4        # rightmost component may not be a result-less func type (a '(' follows)
T_EXPRSAFE = 8      # must have the same shape whether parsed as type or as expression
T_NOBRACKET = 16    # may not start with '[' (kf_tparam_decl_bracket_union)
# statement result flags
S_NOOMIT = 1

BINOPS = {1: ['||'], 2: ['&&'], 3: ['==', '!=', '<', '<=', '>', '>='], 4: ['+', '-', '|', '^'],
          5: ['*', '/', '%', '<<', '>>', '&', '&^']}
UNOPS = ['+', '-', '!', '^']
ASSIGN_OPS = ['+=', '-=', '*=', '/=', '%=', '&=', '|=', '^=', '<<=', '>>=', '&^=']

VARS = ['a', 'b', 'c', 'x', 'y', 'z', 'i', 'j', 'n', 'f', 'g', 'h', 's', 'p', 'ch', 'm', 'v', 'ok', 'err', 'foo',
        'bar', 'x1', '_x', 'xs', 'nil', 'true', 'iota', 'len', 'cap', 'A', 'B']
VARS_U = ['é', '日本', 'αβ', 'naïve', 'ü2', 'x_é', 'Ж', '_日']
TYPES = ['int', 'string', 'T', 'S', 'U', 'E', 'error', 'any', 'byte', 'bool', 'float64', 'comparable', 'T2']
TYPES_U = ['Ü', '型', 'Té']
PKGS = ['pkg', 'fmt', 'os', 'q', 'π']
FIELDS = ['a', 'b', 'x', 'y', 'Name', 'id', 'next', 'é', 'F1']
METHODS = ['m', 'M', 'String', 'Len', 'do', 'Ü', 'm2']
LABELS = ['L', 'L1', 'outer', 'done', 'é']
TPARAMS = ['P', 'Q', 'K', 'V', 'E', 'T1', 'Ñ']
FUNCS = ['f', 'g', 'main', 'init', 'F', 'run', 'é1', '_']

BOOST = 30.0
LEAD_BOOST = 5.0
# productions that open contexts: boosted when labels of those contexts are still wanted
LEADS = {
    'switch': ('case_body', 'case_list', 'switch_tag', 'switch_init', 'switch'),
    'tswitch': ('case_body', 'tswitch_case', 'tswitch_guard', 'tswitch_init', 'tswitch'),
    'select': ('comm_body', 'comm_clause'),
    'label': ('label',),
    'for': ('for', 'for_init', 'for_post', 'for_cond'),
    'range': ('for', 'range_lhs', 'range_expr'),
    'if': ('if', 'if_init', 'if_cond'),
    'block': ('block',),
    'funclit': ('funclit_body',),
    'go': ('go_call',),
    'defer': ('defer_call',),
    'send': ('send_chan', 'send_val'),
    'incdec': ('incdec',),
    'return_vals': ('return',),
    'decl_func': ('receiver', 'func_body', 'tparam'),
    'decl_type': ('tparam_decl', 'tparam_decl_first', 'type_rhs', 'alias_rhs'),
    'struct': ('struct_field', 'struct_embedded'),
    'iface': ('iface_elem', 'iface_embedded', 'union_term'),
    'typeassert': ('typeassert',),
    'call_type': ('call_arg_type',),
    'conv_paren': ('conv',),
}


class _Gen(object):
    def __init__(self, rng, budget, max_depth, want):
        self.r = rng
        self.toks = []
        self.budget = budget
        self.maxd = max_depth
        self.want = want if want else None
        self.want_ctx = frozenset(x.split('@', 1)[1] for x in want) if want else frozenset()
        self.feat = set()

    # ------------------------------------------------------------ emission
    def left(self):
        return self.budget - len(self.toks)

    def op(self, s):
        self.toks.append(Tok('op', s))

    def kw(self, s):
        self.toks.append(Tok('kw', s))

    def ident(self, s):
        self.toks.append(Tok('ident', s))
        return ID(s)

    def lit(self, kind, text):
        self.toks.append(Tok(kind, text))
        return BASIC(kind, text)

    def semi(self, omit=False):
        t = Tok('op', ';')
        t.nl_ok = triggers_asi(self.toks[-1])
        t.omit_ok = omit
        t.semi_optional = t.nl_ok or t.omit_ok
        self.toks.append(t)
        return t

    def comma(self, optional=False):
        t = Tok('op', ',')
        t.comma_optional = optional
        self.toks.append(t)

    def capped(self, frac, fn, *a):
        """run fn with the remaining budget scaled by frac (keeps one construct from eating everything)"""
        save = self.budget
        left = save - len(self.toks)
        if left > 0:
            self.budget = len(self.toks) + int(left * frac)
        try:
            return fn(*a)
        finally:
            self.budget = save

    # ------------------------------------------------------------ choice
    def p(self, x):
        return self.r.random() < x

    def mark(self, name, ctx='any'):
        self.feat.add(name + '@' + ctx)

    def pick(self, ctx, alts):
        """weighted choice among (name, weight); labels wanted and not yet hit are boosted"""
        want = self.want
        acc = []
        tot = 0.0
        for nm, w in alts:
            if w > 0 and want is not None:
                lab = nm + '@' + ctx
                if lab in want and lab not in self.feat:
                    w *= BOOST
                elif nm in LEADS:
                    for c in LEADS[nm]:
                        if c in self.want_ctx:
                            w *= LEAD_BOOST
                            break
            tot += w
            acc.append(tot)
        x = self.r.random() * tot
        k = bisect.bisect_right(acc, x)
        if k >= len(alts):
            k = len(alts) - 1
        while alts[k][1] <= 0:       # numeric edge: never return a zero-weight alternative
            k -= 1
        nm = alts[k][0]
        self.feat.add(nm + '@' + ctx)
        return nm

    def count(self, lo, hi):
        """a small list length; minimal when the budget is used up"""
        if self.left() <= 0:
            return lo
        n = lo
        while n < hi and self.r.random() < 0.5:
            n += 1
        return n

    # ------------------------------------------------------------ names
    def var_name(self, blank_ok=False):
        r = self.r.random()
        if blank_ok and r < 0.12:
            return '_'
        if r < 0.22:
            return self.r.choice(VARS_U)
        return self.r.choice(VARS)

    def type_name(self):
        if self.r.random() < 0.12:
            return self.r.choice(TYPES_U)
        return self.r.choice(TYPES)

    # ------------------------------------------------------------ literals
    def _digits(self, chars, lo=1, hi=4, us=True):
        n = self.r.randint(lo, hi)
        s = self.r.choice(chars)
        for _ in range(n - 1):
            if us and self.r.random() < 0.15:
                s += '_'
            s += self.r.choice(chars)
        return s

    def gen_int(self):
        r = self.r
        k = r.random()
        if k < 0.45:
            if r.random() < 0.2:
                return '0'
            s = r.choice('123456789')
            if r.random() < 0.6:
                s += ('_' if r.random() < 0.15 else '') + self._digits('0123456789', 1, 5)
            if r.random() < 0.05:
                s += self._digits('0123456789', 20, 30, False)
            return s
        if k < 0.65:
            return r.choice(['0x', '0X']) + ('_' if r.random() < 0.1 else '') + self._digits('0123456789abcdefABCDEF')
        if k < 0.78:
            return r.choice(['0o', '0O']) + ('_' if r.random() < 0.1 else '') + self._digits('01234567')
        if k < 0.88:
            return '0' + ('_' if r.random() < 0.2 else '') + self._digits('01234567')
        return r.choice(['0b', '0B']) + ('_' if r.random() < 0.1 else '') + self._digits('01')

    def _exp(self, ch):
        r = self.r
        return r.choice(ch) + r.choice(['', '+', '-']) + self._digits('0123456789', 1, 2)

    def gen_float(self):
        r = self.r
        k = r.random()
        dec = '0123456789'
        if k < 0.3:
            return self._digits(dec, 1, 3) + '.' + self._digits(dec, 1, 3) + (self._exp('eE') if r.random() < 0.3 else '')
        if k < 0.42:
            return self._digits(dec, 1, 3) + '.' + (self._exp('eE') if r.random() < 0.3 else '')
        if k < 0.57:
            return '.' + self._digits(dec, 1, 3) + (self._exp('eE') if r.random() < 0.3 else '')
        if k < 0.75:
            return self._digits(dec, 1, 3) + self._exp('eE')
        hexd = '0123456789abcdefABCDEF'
        pre = r.choice(['0x', '0X'])
        if k < 0.85:
            return pre + self._digits(hexd, 1, 3) + self._exp('pP')
        if k < 0.93:
            return pre + self._digits(hexd, 1, 2) + '.' + (self._digits(hexd, 1, 2) if r.random() < 0.7 else '') + self._exp('pP')
        return pre + '.' + self._digits(hexd, 1, 2) + self._exp('pP')

    def gen_imag(self):
        r = self.r
        k = r.random()
        if k < 0.4:
            x = self.gen_int()
            return x + 'i'
        if k < 0.5:
            return '0' + self._digits('0123456789', 1, 3, False) + 'i'    # legacy: 089i is decimal
        return self.gen_float() + 'i'

    _RUNES = ['a', 'Z', '0', ' ', '"', '`', '(', ')', ';', '/', 'é', '日', 'ж', '\U0001F600', '{', '~']
    _ESC_SIMPLE = ['\\a', '\\b', '\\f', '\\n', '\\r', '\\t', '\\v', '\\\\']

    def _esc_num(self):
        r = self.r
        k = r.random()
        if k < 0.25:
            return '\\%03o' % r.randint(0, 255)
        if k < 0.5:
            return '\\x%02x' % r.randint(0, 255) if r.random() < 0.5 else '\\x%02X' % r.randint(0, 255)
        if k < 0.8:
            v = r.choice([0, 0x41, 0xe9, 0x65e5, 0xd7ff, 0xe000, 0xffff, r.randint(0, 0xd7ff)])
            return '\\u%04x' % v
        v = r.choice([0, 0x41, 0x1f600, 0x10ffff, 0xe000, r.randint(0x10000, 0x10ffff)])
        return '\\U%08x' % v

    def gen_rune(self):
        r = self.r
        k = r.random()
        if k < 0.45:
            return "'" + r.choice(self._RUNES) + "'"
        if k < 0.65:
            return "'" + r.choice(self._ESC_SIMPLE + ["\\'"]) + "'"
        return "'" + self._esc_num() + "'"

    _SCH = ['a', 'b', 'Z', ' ', ' ', "'", '`', '(', ')', ';', '//', '/*', '*/', 'é', '日本', '{', '}', '%d', '\t',
            ',', '.', '<-', 'x y']
    _RCH = ['a', 'b', ' ', '"', '\\', '\\n', '\n', '//', '/*', '*/', 'é', '日', "'", ';', '{', '}', '(', ')', '\t',
            '\\"']

    def gen_string(self):
        r = self.r
        if r.random() < 0.25:
            return '`' + ''.join(r.choice(self._RCH) for _ in range(r.randint(0, 5))) + '`'
        parts = []
        for _ in range(r.randint(0, 5)):
            k = r.random()
            if k < 0.6:
                parts.append(r.choice(self._SCH))
            elif k < 0.8:
                parts.append(r.choice(self._ESC_SIMPLE + ['\\"']))
            else:
                parts.append(self._esc_num())
        return '"' + ''.join(parts) + '"'

    def gen_path(self):
        r = self.r
        k = r.random()
        if k < 0.7:
            return '"' + r.choice(['fmt', 'os', 'a/b', 'example.com/x/y', 'é/日', 'unsafe', 'C']) + '"'
        if k < 0.85:
            return '`' + r.choice(['fmt', 'a/b', 'x y']) + '`'
        return self.gen_string()

    # ------------------------------------------------------------ types
    NAME_ONLY = frozenset(['struct_embedded'])

    def type_alts(self, ctx, d, rich, fl):
        A = [('name', 10.0), ('qualified', 2.0)]
        if d < 1:
            return A
        exprsafe = fl & T_EXPRSAFE
        A.append(('inst1', 1.5))
        if not exprsafe:
            A.append(('instn', 1.0))
        if ctx in self.NAME_ONLY or (ctx == 'const_type' and AVOID['kf_const_type']):
            return A
        if not rich:
            return A
        first = ctx == 'tparam_decl_first'
        if ctx in self.NESTED_TYPE_CTX:
            B = []
            self._compound(B, ctx, fl, first, exprsafe)
            return A + [(nm, w * 0.25) for nm, w in B]
        self._compound(A, ctx, fl, first, exprsafe)
        return A

    NESTED_TYPE_CTX = frozenset(['ptr_base', 'slice_elem', 'array_elem', 'map_key', 'map_val', 'chan_elem',
                                 'paren_type', 'type_arg', 'type_arg_expr', 'union_term', 'param', 'result',
                                 'variadic', 'struct_field', 'complit_elem'])

    def _compound(self, A, ctx, fl, first, exprsafe):
        if not exprsafe and not first:
            A.append(('pointer', 4.0))
        if not (first and AVOID['kf_tparam_bracket']) and not (fl & T_NOBRACKET):
            A.append(('slice', 4.0))
            A.append(('array', 2.0))
        A.append(('map', 2.5))
        A.append(('chan', 1.5))
        A.append(('chan_send', 1.0))
        if not (fl & T_NOARROW):
            A.append(('chan_recv', 1.0))
        A.append(('func', 2.5))
        A.append(('struct', 1.5))
        A.append(('iface', 1.5))
        if not first:
            A.append(('paren', 0.7))
        return A

    def typ(self, ctx, d, fl=0):
        k = self.pick(ctx, self.type_alts(ctx, d, self.left() > 0, fl))
        return getattr(self, 't_' + k)(ctx, d, fl)

    def t_name(self, ctx, d, fl):
        return self.ident(self.type_name())

    def t_qualified(self, ctx, d, fl):
        a = self.ident(self.r.choice(PKGS))
        self.op('.')
        b = self.ident(self.type_name())
        return N('Selector', a, b)

    def _type_args(self, ctx, d, fl, n):
        """'[' n type arguments ']' ; returns the list of shapes"""
        as_expr = fl & T_EXPR
        first_safe = AVOID['kf_first_typearg_expr'] and (ctx in ('struct_embedded', 'param_unnamed') or fl & T_EXPRSAFE)
        self.op('[')
        args = []
        for i in range(n):
            if i:
                self.comma()
            if as_expr:
                args.append(self.typ('type_arg_expr', d - 1, T_EXPR))
            else:
                args.append(self.typ('type_arg', d - 1, T_EXPRSAFE if (first_safe and i == 0) else 0))
        if self.p(0.15) and not ((as_expr or fl & T_EXPRSAFE) and AVOID['kf_inst_trailing_comma']):
            self.comma(optional=True)
            self.mark('typeargs_trailing_comma', 'expr' if as_expr else 'type')
        self.op(']')
        return args

    def _inst_base(self):
        if self.p(0.25):
            return self.t_qualified(None, 0, 0)
        return self.ident(self.type_name())

    def t_inst1(self, ctx, d, fl):
        b = self._inst_base()
        args = self._type_args(ctx, d, fl, 1)
        return N('Index', b, args[0])

    def t_instn(self, ctx, d, fl):
        b = self._inst_base()
        args = self._type_args(ctx, d, fl, self.r.randint(2, 3))
        if fl & T_EXPR:
            return N('IndexList', b, LST(args))
        return N('Index', b, LST(args))

    def t_pointer(self, ctx, d, fl):
        self.op('*')
        x = self.typ('ptr_base', d - 1, fl & (T_EXPR | T_NOOPEN))
        if fl & T_EXPR:
            return N('Operation o:*', x, NONE)
        return N('TypePointer', x)

    def t_slice(self, ctx, d, fl):
        self.op('[')
        self.op(']')
        return N('TypeSlice', self.typ('slice_elem', d - 1, fl & T_NOOPEN))

    def t_array(self, ctx, d, fl):
        self.op('[')
        if ctx == 'type_rhs':
            ln = self.typedecl_array_len(d - 1)
        else:
            ln = self.expr('array_len', d - 1)
        self.op(']')
        return N('TypeArray', ln, self.typ('array_elem', d - 1, fl & T_NOOPEN))

    def typedecl_array_len(self, d):
        """`type A [len]T`: gosyn (like Go) has to tell `[N]T` from type parameters; keep to unambiguous lengths"""
        k = self.r.random()
        if k < 0.4:
            return self.lit('int', self.gen_int())
        if k < 0.6:
            return self.ident(self.r.choice(['N', 'n', 'size']))
        if k < 0.7:
            a = self.ident(self.r.choice(PKGS))
            self.op('.')
            return N('Selector', a, self.ident('N'))
        if k < 0.76 and d >= 1:
            f = self.ident('len')
            if self.p(0.4):
                self.op('.')
                f = N('Selector', f, self.ident('Of'))
            self.op('(')
            x = self.ident('x') if self.p(0.8) else None
            self.op(')')
            return N('Call', f, LST([x] if x else []), NONE)
        if k < 0.85:
            a = self.lit('int', self.gen_int())
            o = self.r.choice(['+', '*', '<<', '-'])
            self.op(o)
            b = self.ident('N') if self.p(0.5) else self.lit('int', self.gen_int())
            return N('Operation o:' + o, a, b)
        a = self.ident('N')
        o = self.r.choice(['+', '-', '<<', '/'])
        self.op(o)
        return N('Operation o:' + o, a, self.lit('int', self.gen_int()))

    def t_map(self, ctx, d, fl):
        self.kw('map')
        self.op('[')
        k = self.typ('map_key', d - 1)
        self.op(']')
        v = self.typ('map_val', d - 1, fl & T_NOOPEN)
        return N('TypeMap', k, v)

    def t_chan(self, ctx, d, fl):
        self.kw('chan')
        return N('TypeChannel d:0', self.typ('chan_elem', d - 1, (fl & T_NOOPEN) | T_NOARROW))

    def t_chan_send(self, ctx, d, fl):
        self.kw('chan')
        self.op('<-')
        return N('TypeChannel d:1', self.typ('chan_elem', d - 1, fl & T_NOOPEN))

    def t_chan_recv(self, ctx, d, fl):
        self.op('<-')
        self.kw('chan')
        return N('TypeChannel d:2', self.typ('chan_elem', d - 1, fl & T_NOOPEN))

    def t_func(self, ctx, d, fl):
        self.kw('func')
        return self.signature(d, fl & T_NOOPEN)

    def signature(self, d, noopen=0):
        """parameters and result after 'func' [name]; returns the FuncType shape (no type parameters)"""
        ps = self.capped(0.3, self.params, 'param', d, True)
        rs = self.capped(0.25, self.results, d, noopen)
        return N('FuncType', '(FieldList)', ps, rs)

    def results(self, d, noopen=0):
        alts = [('result_none', 4.0), ('result_single', 4.0 if d >= 0 else 0), ('result_paren', 3.0 if d >= 1 else 0)]
        if noopen:
            alts = [('result_single', 1.0)]
        if self.left() <= 0 and not noopen:
            alts = [('result_none', 3.0), ('result_single', 1.0)]
        k = self.pick('result', alts)
        if k == 'result_none':
            return '(FieldList)'
        if k == 'result_single':
            # an unparenthesised result: never a parenthesised type (it would be a result list)
            t = self.typ_nonparen('result', d, T_NOOPEN if noopen else 0)
            return N('FieldList', FIELD([], t))
        return self.params('result', d, False)

    def typ_nonparen(self, ctx, d, fl=0):
        alts = [a for a in self.type_alts(ctx, d, self.left() > 0, fl) if a[0] != 'paren']
        k = self.pick(ctx, alts)
        return getattr(self, 't_' + k)(ctx, d, fl)

    def params(self, ctx, d, variadic_ok):
        """'(' parameter list ')' ; ctx is 'param' or 'result'; returns FieldList shape"""
        self.op('(')
        alts = [('list_empty', 3.0)]
        if d >= 1:
            alts += [('list_unnamed', 4.0), ('list_named', 5.0)]
        if self.left() <= 0:
            alts = [('list_empty', 6.0)] + alts[1:]
        k = self.pick(ctx, alts)
        fields = []
        if k == 'list_unnamed':
            n = self.count(1, 3)
            for i in range(n):
                if i:
                    self.comma()
                if variadic_ok and i == n - 1 and self.p(0.2):
                    self.mark('variadic_unnamed', ctx)
                    self.op('...')
                    fields.append(FIELD([], N('Ellipsis', self.typ('variadic', d - 1))))
                else:
                    fields.append(FIELD([], self.typ_unnamed_param(ctx, d - 1)))
        elif k == 'list_named':
            n = self.count(1, 3)
            for i in range(n):
                if i:
                    self.comma()
                if variadic_ok and i == n - 1 and self.p(0.2):
                    self.mark('variadic_named', ctx)
                    nm = self.var_name(True)
                    self.ident(nm)
                    self.op('...')
                    fields.append(FIELD([nm], N('Ellipsis', self.typ('variadic', d - 1))))
                else:
                    names = [self.var_name(True) for _ in range(self.count(1, 3))]
                    if len(names) > 1:
                        self.mark('grouped_names', ctx)
                    for j, nm in enumerate(names):
                        if j:
                            self.comma()
                        self.ident(nm)
                    fields.append(FIELD(names, self.typ(ctx, d - 1)))
        if fields and self.p(0.15):
            self.mark('list_trailing_comma', ctx)
            self.comma(optional=True)
        self.op(')')
        return NL_('FieldList', fields)

    def typ_unnamed_param(self, ctx, d):
        """type of an unnamed parameter/result: T[...] goes through gosyn's array_or_typeargs"""
        alts = self.type_alts(ctx, d, self.left() > 0, 0)
        k = self.pick(ctx, alts)
        if k in ('inst1', 'instn'):
            return getattr(self, 't_' + k)('param_unnamed', d, 0)
        return getattr(self, 't_' + k)(ctx, d, 0)

    def t_paren(self, ctx, d, fl):
        self.op('(')
        x = self.typ('paren_type', d - 1, fl & (T_EXPR | T_EXPRSAFE))
        self.op(')')
        return N('Paren', x)

    def t_struct(self, ctx, d, fl):
        self.kw('struct')
        self.op('{')
        n = self.count(0, 3)
        fields = []
        for i in range(n):
            alts = [('field_named', 6.0), ('field_embedded', 2.0), ('field_embedded_tag', 0.7)]
            if not AVOID['kf_embedded_star']:
                alts.append(('field_embedded_ptr', 1.0))
            k = self.pick('struct_field', alts)
            if k == 'field_named':
                names = [self.r.choice(FIELDS + ['_']) for _ in range(self.count(1, 3))]
                for j, nm in enumerate(names):
                    if j:
                        self.comma()
                    self.ident(nm)
                t = self.typ('struct_field', d - 1)
                tag = NONE
                if self.p(0.25):
                    self.mark('field_tag', 'struct_field')
                    s = self.gen_string()
                    self.toks.append(Tok('string', s))
                    tag = '(StringLit s:' + esc(s) + ')'
                fields.append(FIELD(names, t, tag))
            else:
                if k == 'field_embedded_ptr':
                    self.op('*')
                    t = N('TypePointer', self.typ('struct_embedded', min(d - 1, 0)))
                else:
                    t = self.typ('struct_embedded', d - 1)
                tag = NONE
                if k == 'field_embedded_tag':
                    s = self.gen_string()
                    self.toks.append(Tok('string', s))
                    tag = '(StringLit s:' + esc(s) + ')'
                fields.append(FIELD([], t, tag))
            self.semi(omit=(i == n - 1))
        self.op('}')
        return NL_('TypeStruct', fields)

    def t_iface(self, ctx, d, fl):
        self.kw('interface')
        self.op('{')
        n = self.count(0, 3)
        fields = []
        for i in range(n):
            k = self.pick('iface_elem', [('iface_method', 5.0 if d >= 2 else 0), ('iface_embedded', 2.0), ('iface_union', 1.5),
                                         ('iface_tilde', 1.0)])
            if k == 'iface_method':
                nm = self.r.choice(METHODS)
                self.ident(nm)
                sig = self.signature(d - 1)
                fields.append(FIELD([nm], sig))
            elif k == 'iface_embedded':
                fields.append(FIELD([], self.typ('iface_embedded', d - 1)))
            else:
                fields.append(FIELD([], self.type_elem(d - 1, union=(k == 'iface_union'), tilde=(k == 'iface_tilde'))))
            self.semi(omit=(i == n - 1))
        self.op('}')
        return N('TypeInterface', NL_('FieldList', fields))

    def type_term(self, d, tilde, fl=0):
        if tilde:
            self.op('~')
            return N('Operation o:~', self.typ('union_term', d), NONE)
        return self.typ('union_term', d, fl)

    def type_elem(self, d, union, tilde, first_fl=0):
        """TypeElem = TypeTerm { '|' TypeTerm } ; left-deep Operation o:| chain"""
        x = self.type_term(d, tilde or (union and self.p(0.5)), first_fl)
        if union:
            for _ in range(self.r.randint(1, 2)):
                self.op('|')
                y = self.type_term(d, self.p(0.5))
                x = N('Operation o:|', x, y)
        return x

    def constraint(self, ctx, d):
        """constraint of a type parameter group: a type element"""
        alts = [('constraint_type', 6.0), ('constraint_union', 2.0), ('constraint_tilde', 1.5)]
        k = self.pick(ctx, alts)
        if k == 'constraint_type':
            return self.typ(ctx, d)
        if ctx == 'tparam_decl_first' and k == 'constraint_union':
            # first term decides how gosyn/Go read `type T[P ...`: keep it identifier- or '~'-led
            tl = self.p(0.5)
            if tl:
                self.op('~')
            x = self.typ(ctx, d, 0)
            if tl:
                x = N('Operation o:~', x, NONE)
            for _ in range(self.r.randint(1, 2)):
                self.op('|')
                x = N('Operation o:|', x, self.type_term(d, self.p(0.5)))
            return x
        nb = T_NOBRACKET if (ctx == 'tparam_decl' and k == 'constraint_union'
                             and AVOID['kf_tparam_decl_bracket_union']) else 0
        return self.type_elem(d, union=(k == 'constraint_union'), tilde=(k == 'constraint_tilde'), first_fl=nb)

    def constraint_resolved(self, d, single):
        """first constraint of a generic type declaration that starts like an expression but is recognisable
        as a type element (Go: cmd/compile/internal/syntax extract; gosyn: parser.rs extract)"""
        k = self.pick('tparam_decl_first', [('resolved_ptr_lit', 2.0), ('resolved_paren_lit', 1.0),
                                            ('resolved_ptr_tilde_union', 1.0), ('resolved_paren_comma', 1.0)])
        if k == 'resolved_ptr_lit':
            self.op('*')
            if self.p(0.5):
                return N('TypePointer', self.t_slice('ptr_base', d, 0)), False
            return N('TypePointer', self.t_struct('ptr_base', d, 0)), False
        if k == 'resolved_paren_lit':
            self.op('(')
            t = self.t_slice('paren_type', d - 1, 0) if self.p(0.5) else self.t_map('paren_type', d - 1, 0)
            self.op(')')
            return N('Paren', t), False
        if k == 'resolved_ptr_tilde_union':
            self.op('*')
            a = N('TypePointer', self.ident(self.type_name()))
            self.op('|')
            self.op('~')
            b = N('Operation o:~', self.ident(self.type_name()), NONE)
            return N('Operation o:|', a, b), False
        self.op('(')
        t = self.ident(self.type_name())
        self.op(')')
        return N('Paren', t), single

    def tparams(self, kind, d):
        """'[' type parameter declarations ']' ; kind 'func' (parse_type_parameters) or 'typedecl' (params_list)"""
        self.op('[')
        n = self.count(1, 3)
        fields = []
        must_comma = False
        for i in range(n):
            if i:
                self.comma()
            names = [self.r.choice(TPARAMS) for _ in range(self.count(1, 2))]
            for j, nm in enumerate(names):
                if j:
                    self.comma()
                self.ident(nm)
            if kind == 'typedecl':
                if i == 0 and len(names) == 1:
                    if d >= 3 and self.p(0.06):
                        c, must_comma = self.constraint_resolved(d - 1, n == 1)
                    elif self.p(0.08):
                        # `type T[P *C,]`: only unambiguous with a comma
                        self.mark('constraint_pointer_comma', 'tparam_decl_first')
                        self.op('*')
                        c = N('TypePointer', self.ident(self.type_name()))
                        must_comma = n == 1
                    else:
                        c = self.constraint('tparam_decl_first', d - 1)
                else:
                    c = self.constraint('tparam_decl', d - 1)
            else:
                c = self.constraint('tparam', d - 1)
            fields.append(FIELD(names, c))
        if must_comma:
            self.comma()
        elif self.p(0.12):
            self.mark('list_trailing_comma', 'tparam')
            self.comma(optional=True)
        self.op(']')
        return NL_('FieldList', fields)

    # ------------------------------------------------------------ expressions
    def expr(self, ctx, d, fl=0, prec=1):
        left = self.left()
        if prec <= 5 and left > 0 and self.r.random() < (0.28 if left > 8 else 0.15):
            q = self.r.randint(prec, 5)
            o = self.r.choice(BINOPS[q])
            self.mark('binary', ctx)
            self.mark('binop:' + o)
            l = self.expr(ctx, d, fl, q)
            self.op(o)
            r = self.expr(ctx, d, 0, q + 1)
            return N('Operation o:' + o, l, r)
        return self.unary(ctx, d, fl)

    def unary(self, ctx, d, fl=0):
        if self.left() > 0 and self.r.random() < 0.16:
            alts = [('unary', 4.0), ('unary_deref', 1.5), ('unary_recv', 1.5)]
            if not (fl & F_STMT and AVOID['kf_stmt_amp']):
                alts.append(('unary_addr', 1.5))
            k = self.pick(ctx, alts)
            if k == 'unary':
                o = self.r.choice(UNOPS)
            else:
                o = {'unary_deref': '*', 'unary_recv': '<-', 'unary_addr': '&'}[k]
            self.mark('unop:' + o)
            self.op(o)
            nfl = 0
            if o == '<-':
                nfl = F_NOCHAN
            elif o == '&' and AVOID['kf_amp_paren']:
                nfl = F_NOBAREPAREN
            x = self.unary(ctx, d, nfl)
            return N('Operation o:' + o, x, NONE)
        return self.primary(ctx, d, fl)

    def base_alts(self, ctx, d, rich, fl):
        A = [('ident', 30.0), ('lit_int', 9.0), ('lit_float', 2.5), ('lit_imag', 1.2), ('lit_rune', 2.5),
             ('lit_string', 4.0), ('method_expr', 0.8)]
        if not rich or d < 1:
            return A
        hdr = ctx in HDR
        A.append(('paren', 5.0))
        if not hdr:
            A += [('complit_named', 2.5), ('complit_qualified', 0.8)]
        A.append(('method_expr_ptr', 0.6))
        if d >= 2:
            if not hdr:
                A.append(('complit_generic', 0.8))
            A += [('funclit', 2.5), ('complit_slice', 2.5), ('complit_array', 1.5), ('complit_ellipsis', 0.8),
                  ('complit_map', 1.8), ('complit_struct', 0.8),
                  ('conv_paren', 1.2), ('conv_slice', 1.0), ('conv_array', 0.4), ('conv_map', 0.5), ('conv_func', 0.5),
                  ('conv_chan_send', 0.3), ('conv_iface', 0.5), ('conv_struct', 0.3), ('call_type', 1.5)]
            if not (fl & F_NOCHAN):
                A.append(('conv_chan', 0.4))
        return A

    def suffix_alts(self, ctx, d, base):
        if base in ('lit_int', 'lit_float', 'lit_imag', 'lit_rune'):
            return []
        if base == 'lit_string':
            return [('index', 2.0), ('slice2', 2.0)] if d >= 1 else []
        A = [('selector', 6.0)]
        if d >= 1:
            A += [('index', 4.0), ('slice2', 2.0), ('slice3', 0.8), ('typeassert', 1.5), ('call', 7.0),
                  ('call_dots', 1.0), ('inst1', 0.8), ('instn', 0.6)]
        return A

    def primary(self, ctx, d, fl=0):
        rich = self.left() > 0
        base = self.pick(ctx, self.base_alts(ctx, d, rich, fl))
        x = getattr(self, 'b_' + base)(ctx, d)
        n = 0
        sal = self.suffix_alts(ctx, d, base) if rich else []
        force = bool(fl & F_NOBAREPAREN) and base == 'paren'
        if force and not sal:
            sal = [('selector', 1.0)]
        while sal and (force or (self.left() > 0 and n < 4 and self.r.random() < (0.42 if n == 0 else 0.3))):
            k = self.pick(ctx, sal)
            x = self.suffix(k, x, ctx, d)
            n += 1
            force = False
            if base == 'lit_string':
                sal = self.suffix_alts(ctx, d, 'x')
        return x

    def suffix(self, k, x, ctx, d):
        if k == 'selector':
            self.op('.')
            return N('Selector', x, self.ident(self.r.choice(FIELDS + METHODS)))
        if k == 'index':
            self.op('[')
            i = self.expr('index', d - 1)
            self.op(']')
            return N('Index', x, i)
        if k in ('slice2', 'slice3'):
            self.op('[')
            if k == 'slice2':
                lo = self.expr('slice_bound', d - 1) if self.p(0.6) else NONE
                self.op(':')
                hi = self.expr('slice_bound', d - 1) if self.p(0.6) else NONE
                self.op(']')
                self.mark('slice_%s_%s' % ('lo' if lo != NONE else 'x', 'hi' if hi != NONE else 'x'))
                # gosyn packs the present indices to the front unless a leading ':' was seen
                if lo == NONE:
                    return N('Slice', x, NONE, hi, NONE) if hi != NONE else N('Slice', x, NONE, NONE, NONE)
                return N('Slice', x, lo, hi, NONE) if hi != NONE else N('Slice', x, lo, NONE, NONE)
            lo = self.expr('slice_bound', d - 1) if self.p(0.6) else NONE
            self.op(':')
            hi = self.expr('slice_bound', d - 1)
            self.op(':')
            mx = self.expr('slice_bound', d - 1)
            self.op(']')
            return N('Slice', x, lo, hi, mx)
        if k == 'typeassert':
            self.op('.')
            self.op('(')
            t = self.typ('typeassert', d - 1)
            self.op(')')
            return N('TypeAssert', x, t)
        if k in ('call', 'call_dots'):
            return self.call_args(x, d, k == 'call_dots')
        if k == 'inst1':
            a = self._type_args(None, d, T_EXPR, 1)
            return N('Index', x, a[0])
        if k == 'instn':
            a = self._type_args(None, d, T_EXPR, self.r.randint(2, 3))
            return N('IndexList', x, LST(a))
        raise AssertionError(k)

    def call_args(self, fn, d, dots, first=None):
        """'(' args ')' after fn; `first` is an already chosen generator for a leading type argument"""
        self.op('(')
        args = []
        if first is not None:
            args.append(first())
        n = self.count(1 if (dots and first is None) else 0, 3)
        for i in range(n):
            if args:
                self.comma()
            args.append(self.expr('call_arg', d - 1))
        dd = NONE
        if dots and args:
            self.op('...')
            dd = '(Pos)'
        if args and self.p(0.15):
            self.mark('call_trailing_comma')
            self.comma(optional=True)
        self.op(')')
        return N('Call', fn, LST(args), dd)

    # --- operand productions
    def b_ident(self, ctx, d):
        return self.ident(self.var_name())

    def b_lit_int(self, ctx, d):
        return self.lit('int', self.gen_int())

    def b_lit_float(self, ctx, d):
        return self.lit('float', self.gen_float())

    def b_lit_imag(self, ctx, d):
        return self.lit('imag', self.gen_imag())

    def b_lit_rune(self, ctx, d):
        return self.lit('rune', self.gen_rune())

    def b_lit_string(self, ctx, d):
        return self.lit('string', self.gen_string())

    def b_method_expr(self, ctx, d):
        if self.p(0.3):
            a = self.t_qualified(None, 0, 0)
        else:
            a = self.ident(self.type_name())
        self.op('.')
        return N('Selector', a, self.ident(self.r.choice(METHODS)))

    def b_method_expr_ptr(self, ctx, d):
        self.op('(')
        self.op('*')
        t = self.t_qualified(None, 0, 0) if self.p(0.3) else self.ident(self.type_name())
        self.op(')')
        self.op('.')
        return N('Selector', N('Paren', N('Operation o:*', t, NONE)), self.ident(self.r.choice(METHODS)))

    def b_paren(self, ctx, d):
        self.op('(')
        x = self.expr('paren', d - 1)
        self.op(')')
        return N('Paren', x)

    def b_funclit(self, ctx, d):
        self.kw('func')
        sig = self.signature(d - 1)
        body = self.block('funclit_body', d - 1)
        return N('FuncLit', sig, body)

    # composite literals
    def lit_value(self, d):
        """'{' elements '}' -> LiteralValue shape"""
        self.op('{')
        n = self.count(0, 3) if d >= 1 else 0
        els = []
        for i in range(n):
            if i:
                self.comma()
            k = self.pick('lit_elem', [('elem_plain', 6.0), ('elem_keyed', 3.0),
                                       ('elem_nested', 1.5 if d >= 2 else 0), ('elem_keyed_nested', 0.8 if d >= 2 else 0),
                                       ('elem_litkey', 0.4 if d >= 2 else 0)])
            key = NONE
            if k in ('elem_keyed', 'elem_keyed_nested'):
                key = self.expr('lit_key', d - 1)
                self.op(':')
            elif k == 'elem_litkey':
                key = self.lit_value(d - 1)
                self.op(':')
            if k in ('elem_nested', 'elem_keyed_nested'):
                val = self.lit_value(d - 1)
            else:
                val = self.expr('lit_elem', d - 1)
            els.append(N('KeyedElement', key, val))
        if els and self.p(0.2):
            self.mark('lit_trailing_comma')
            self.comma(optional=True)
        self.op('}')
        return NL_('LiteralValue', els)

    def b_complit_named(self, ctx, d):
        t = self.ident(self.type_name())
        return N('CompositeLit', t, self.lit_value(d - 1))

    def b_complit_qualified(self, ctx, d):
        t = self.t_qualified(None, 0, 0)
        return N('CompositeLit', t, self.lit_value(d - 1))

    def b_complit_generic(self, ctx, d):
        b = self._inst_base()
        n = self.r.choice([1, 1, 2])
        a = self._type_args(None, d - 1, T_EXPR, n)
        t = N('Index', b, a[0]) if n == 1 else N('IndexList', b, LST(a))
        return N('CompositeLit', t, self.lit_value(d - 1))

    def b_complit_slice(self, ctx, d):
        self.op('[')
        self.op(']')
        t = N('TypeSlice', self.typ('complit_elem', d - 1))
        return N('CompositeLit', t, self.lit_value(d - 1))

    def b_complit_array(self, ctx, d):
        self.op('[')
        ln = self.expr('array_len', d - 1)
        self.op(']')
        t = N('TypeArray', ln, self.typ('complit_elem', d - 1))
        return N('CompositeLit', t, self.lit_value(d - 1))

    def b_complit_ellipsis(self, ctx, d):
        self.op('[')
        self.op('...')
        self.op(']')
        t = N('TypeArray', '(Ellipsis (None))', self.typ('complit_elem', d - 1))
        return N('CompositeLit', t, self.lit_value(d - 1))

    def b_complit_map(self, ctx, d):
        t = self.t_map('complit_elem', d, 0)
        return N('CompositeLit', t, self.lit_value(d - 1))

    def b_complit_struct(self, ctx, d):
        t = self.t_struct('complit_elem', d, 0)
        return N('CompositeLit', t, self.lit_value(d - 1))

    # conversions
    def _conv(self, t, d):
        self.op('(')
        x = self.expr('call_arg', d - 1)
        if self.p(0.1):
            self.comma(optional=True)
        self.op(')')
        return N('Call', t, LST([x]), NONE)

    def b_conv_paren(self, ctx, d):
        # (*T)(x)  (<-chan T)(x)  (func())(x)  ([]T)(x) ...
        self.op('(')
        k = self.r.random()
        if k < 0.5:
            t = self.t_pointer('conv', d - 1, T_EXPR)
        elif k < 0.65:
            t = self.t_chan_recv('conv', d - 1, T_EXPR)
        elif k < 0.8:
            t = self.t_func('conv', d - 1, T_EXPR)
        else:
            t = self.typ('conv', d - 1, T_EXPR)
        self.op(')')
        return self._conv(N('Paren', t), d)

    def b_conv_slice(self, ctx, d):
        return self._conv(self.t_slice('conv', d, T_NOOPEN), d)

    def b_conv_array(self, ctx, d):
        return self._conv(self.t_array('conv', d, T_NOOPEN), d)

    def b_conv_map(self, ctx, d):
        return self._conv(self.t_map('conv', d, T_NOOPEN), d)

    def b_conv_func(self, ctx, d):
        return self._conv(self.t_func('conv', d, T_NOOPEN), d)

    def b_conv_chan(self, ctx, d):
        return self._conv(self.t_chan('conv', d, T_NOOPEN), d)

    def b_conv_chan_send(self, ctx, d):
        return self._conv(self.t_chan_send('conv', d, T_NOOPEN), d)

    def b_conv_iface(self, ctx, d):
        return self._conv(self.t_iface('conv', d, 0), d)

    def b_conv_struct(self, ctx, d):
        return self._conv(self.t_struct('conv', d, 0), d)

    def b_call_type(self, ctx, d):
        # make(T, n)  new(T)  f(T) : a type as first call argument
        fn = self.ident(self.r.choice(['make', 'new', 'f']))
        return self.call_args(fn, d, False, first=lambda: self.typ('call_arg_type', d - 1, T_EXPR))

    # ------------------------------------------------------------ statements
    def call_expr(self, ctx, d):
        """an expression that is a call (go/defer)"""
        k = self.pick(ctx, [('call_ident', 5.0), ('call_selector', 3.0), ('call_funclit', 2.0 if d >= 2 else 0),
                            ('call_paren', 0.7 if d >= 1 else 0), ('call_inst', 0.7 if d >= 1 else 0)])
        if k == 'call_ident':
            fn = self.ident(self.var_name())
        elif k == 'call_selector':
            fn = self.ident(self.var_name())
            for _ in range(self.r.randint(1, 2)):
                self.op('.')
                fn = N('Selector', fn, self.ident(self.r.choice(METHODS)))
        elif k == 'call_funclit':
            fn = self.b_funclit(ctx, d)
        elif k == 'call_paren':
            fn = self.b_paren(ctx, d)
        else:
            fn = self.ident(self.var_name())
            fn = self.suffix('inst1' if self.p(0.6) else 'instn', fn, ctx, d)
        if d < 1:
            self.op('(')
            self.op(')')
            return N('Call', fn, LST([]), NONE)
        return self.call_args(fn, d, self.p(0.1))

    def expr_list(self, ctx, d, n, fl=0):
        out = []
        for i in range(n):
            if i:
                self.comma()
            out.append(self.expr(ctx, d, fl if i == 0 else 0))
        return out

    def simple_alts(self, sctx):
        A = [('expr_stmt', 6.0), ('send', 1.5), ('incdec', 2.5), ('assign', 7.0), ('assign_op', 2.5)]
        if sctx != 'for_post':
            A.append(('define', 5.0))
        return A

    def simple(self, sctx, d, k=None):
        """simple statement; sctx a statement context or a header slot; returns shape"""
        hdr = sctx in SIMPLE_CTX
        if k is None:
            k = self.pick(sctx, self.simple_alts(sctx))
        fl = 0 if hdr else F_STMT

        def ec(c):
            if not hdr:
                return c
            return 'for_post' if sctx == 'for_post' else 'hdr_init'
        if k == 'expr_stmt':
            return N('ExprStmt', self.expr(ec('expr_stmt'), d, fl))
        if k == 'send':
            c = self.expr(ec('send_chan'), d, fl)
            self.op('<-')
            v = self.expr(ec('send_val'), d)
            return N('Send', c, v)
        if k == 'incdec':
            x = self.expr(ec('incdec'), d, fl)
            o = self.r.choice(['++', '--'])
            self.op(o)
            return N('IncDec o:' + o, x)
        if k == 'assign':
            n = self.count(1, 3)
            l = self.expr_list(ec('assign_lhs'), d, n, fl)
            self.op('=')
            r = self.expr_list(ec('assign_rhs'), d, n if self.p(0.7) else 1)
            return N('Assign o:=', LST(l), LST(r))
        if k == 'assign_op':
            l = self.expr(ec('assign_lhs'), d, fl)
            o = self.r.choice(ASSIGN_OPS)
            self.mark('assignop:' + o)
            self.op(o)
            r = self.expr(ec('assign_rhs'), d)
            return N('Assign o:' + o, LST([l]), LST([r]))
        if k == 'define':
            n = self.count(1, 3)
            names = [self.var_name(True) for _ in range(n)]
            for i, nm in enumerate(names):
                if i:
                    self.comma()
                self.ident(nm)
            self.op(':=')
            r = self.expr_list(ec('assign_rhs'), d, n if self.p(0.7) else 1)
            return N('Assign o::=', LST([ID(x) for x in names]), LST(r))
        raise AssertionError(k)

    def block(self, sctx, d):
        self.op('{')
        stmts = self.stmt_list(sctx, d, '}')
        self.op('}')
        return NL_('Block', stmts)

    def stmt_list(self, sctx, d, closer, lo=0, fallthrough_ok=False):
        if sctx in ('func_body', 'funclit_body') and self.left() > 0:
            n = self.r.randint(1, 6)
        else:
            n = self.count(lo, 4)
            if n < 2 and sctx in self.want_ctx:
                n = 2
        out = []
        for i in range(n):
            last = i == n - 1
            if last and fallthrough_ok and self.p(0.25):
                self.mark('fallthrough', sctx)
                self.kw('fallthrough')
                s, fl = '(Branch k:fallthrough (None))', 0
            else:
                s, fl = self.capped(1.0 if last else self.r.uniform(0.35, 0.9), self.stmt, sctx, d)
            if s is not None:
                out.append(s)
            self.semi(omit=(last and closer == '}' and not (fl & S_NOOMIT)))
        return out

    def stmt_alts(self, sctx, d, rich):
        A = [('expr_stmt', 6.0), ('send', 1.5), ('incdec', 2.5), ('assign', 7.0), ('assign_op', 2.5), ('define', 5.0),
             ('return_none', 1.0), ('return_vals', 2.0), ('break', 0.8), ('break_label', 0.4), ('continue', 0.8),
             ('continue_label', 0.4), ('goto', 0.6), ('empty', 0.8), ('label_empty', 0.2)]
        if d >= 1:
            A += [('go', 1.2), ('defer', 1.2)]
        if d >= 1 and rich:
            A += [('block', 1.2), ('if', 5.0), ('switch', 2.5), ('tswitch', 1.8), ('select', 1.5), ('for', 3.5),
                  ('range', 2.5), ('label', 1.2), ('decl_var', 1.8), ('decl_const', 0.9), ('decl_type', 0.9)]
        return A

    SIMPLE_KINDS = frozenset(['expr_stmt', 'send', 'incdec', 'assign', 'assign_op', 'define'])

    def stmt(self, sctx, d):
        """one statement (without its terminating ';'); returns (shape or None, flags)"""
        k = self.pick(sctx, self.stmt_alts(sctx, d, self.left() > 0))
        if k in self.SIMPLE_KINDS:
            return self.simple(sctx, d, k), 0
        if k == 'empty':
            return None, 0
        if k == 'return_none':
            self.kw('return')
            return '(Return)', 0
        if k == 'return_vals':
            self.kw('return')
            return NL_('Return', self.expr_list('return', d, self.count(1, 3))), 0
        if k in ('break', 'continue'):
            self.kw(k)
            return '(Branch k:%s (None))' % k, 0
        if k in ('break_label', 'continue_label', 'goto'):
            w = k.split('_')[0]
            self.kw(w)
            return N('Branch k:' + w, self.ident(self.r.choice(LABELS))), 0
        if k == 'go':
            self.kw('go')
            return N('Go', self.call_expr('go_call', d)), 0
        if k == 'defer':
            self.kw('defer')
            return N('Defer', self.call_expr('defer_call', d)), (S_NOOMIT if AVOID['kf_defer_last'] else 0)
        if k == 'label_empty':
            lab = self.ident(self.r.choice(LABELS))
            self.op(':')
            return N('Label', lab), 0
        if k == 'label':
            lab = self.ident(self.r.choice(LABELS))
            self.op(':')
            s, fl = self.stmt('label', d)
            return (N('Label', lab, s) if s is not None else N('Label', lab)), fl
        if k == 'block':
            return self.block('block', d - 1), 0
        if k == 'if':
            return self.if_stmt(d)
        if k == 'switch':
            return self.switch_stmt(d), 0
        if k == 'tswitch':
            return self.tswitch_stmt(d), 0
        if k == 'select':
            return self.select_stmt(d), 0
        if k == 'for':
            return self.for_stmt(d), 0
        if k == 'range':
            return self.range_stmt(d), 0
        if k == 'decl_var':
            return N('DeclStmt', self.decl_var(sctx, d)), 0
        if k == 'decl_const':
            return N('DeclStmt', self.decl_const(sctx, d)), 0
        if k == 'decl_type':
            return N('DeclStmt', self.decl_type(sctx, d)), 0
        raise AssertionError(k)

    def if_stmt(self, d):
        self.kw('if')
        k = self.pick('if', [('if_plain', 6.0), ('if_init', 3.0), ('if_emptyinit', 0.3)])
        init = NONE
        if k == 'if_init':
            init = self.simple('if_init', d)
            self.semi()
        elif k == 'if_emptyinit':
            self.semi()
        cond = self.expr('if_cond', d)
        body = self.block('block', d - 1)
        e = self.pick('if', [('else_none', 6.0), ('else_block', 2.5), ('else_if', 1.5 if self.left() > 0 else 0.2)])
        if e == 'else_none':
            return N('If', init, cond, body, NONE), 0
        self.kw('else')
        if e == 'else_block':
            eb = self.block('block', d - 1)
            return N('If', init, cond, body, eb), (S_NOOMIT if AVOID['kf_else_close'] else 0)
        s, fl = self.if_stmt(d)
        return N('If', init, cond, body, s), fl

    def case_block(self, d, type_switch):
        self.op('{')
        n = self.r.randint(1, 3) if self.p(0.85) else 0
        clauses = []
        have_default = False
        for i in range(n):
            last = i == n - 1
            if not have_default and self.p(0.25):
                have_default = True
                self.mark('case_default', 'tswitch' if type_switch else 'switch')
                self.kw('default')
                lst = []
                tag = 'CaseClause k:default'
            else:
                self.kw('case')
                m = self.count(1, 3)
                lst = []
                for j in range(m):
                    if j:
                        self.comma()
                    if type_switch:
                        if self.p(0.12):
                            self.mark('case_nil', 'tswitch')
                            lst.append(self.ident('nil'))
                        else:
                            lst.append(self.typ('tswitch_case', d - 1))
                    else:
                        lst.append(self.expr('case_list', d - 1))
                tag = 'CaseClause k:case'
            self.op(':')
            body = self.stmt_list('case_body', d - 1, '}' if last else 'case',
                                  fallthrough_ok=(not type_switch and not last))
            clauses.append(N(tag, LST(lst), LST(body)))
        self.op('}')
        return NL_('CaseBlock', clauses)

    def switch_stmt(self, d):
        self.kw('switch')
        k = self.pick('switch', [('switch_bare', 2.0), ('switch_tag', 5.0), ('switch_init', 1.0),
                                 ('switch_init_tag', 2.0), ('switch_emptyinit', 0.15), ('switch_emptyinit_tag', 0.15)])
        init = tag = NONE
        if k in ('switch_init', 'switch_init_tag'):
            init = self.simple('switch_init', d)
            self.semi()
        elif k.startswith('switch_emptyinit'):
            self.semi()
        if k in ('switch_tag', 'switch_init_tag', 'switch_emptyinit_tag'):
            tag = self.expr('switch_tag', d)
        return N('Switch', init, tag, self.case_block(d, False))

    def tswitch_stmt(self, d):
        self.kw('switch')
        k = self.pick('tswitch', [('tswitch_plain', 3.0), ('tswitch_bind', 4.0), ('tswitch_init', 1.0),
                                  ('tswitch_init_bind', 1.5), ('tswitch_emptyinit_bind', 0.2)])
        init = NONE
        if k in ('tswitch_init', 'tswitch_init_bind'):
            init = self.simple('tswitch_init', d)
            self.semi()
        elif k == 'tswitch_emptyinit_bind':
            self.semi()
        bind = None
        if k in ('tswitch_bind', 'tswitch_init_bind', 'tswitch_emptyinit_bind'):
            bind = self.var_name()
            self.ident(bind)
            self.op(':=')
        x = self.primary('tswitch_guard', d)
        self.op('.')
        self.op('(')
        self.kw('type')
        self.op(')')
        ta = N('TypeAssert', x, NONE)
        if bind is None:
            guard = N('ExprStmt', ta)
        else:
            guard = N('Assign o::=', LST([ID(bind)]), LST([ta]))
        return N('TypeSwitch', init, guard, self.case_block(d, True))

    def select_stmt(self, d):
        self.kw('select')
        self.op('{')
        n = self.r.randint(1, 3) if self.p(0.85) else 0
        clauses = []
        have_default = False
        for i in range(n):
            last = i == n - 1
            alts = [('comm_recv', 2.0), ('comm_recv_define1', 2.0), ('comm_recv_define2', 1.5),
                    ('comm_recv_assign1', 1.0), ('comm_recv_assign2', 1.0), ('comm_send', 2.5),
                    ('comm_recv_paren', 0.3 if d >= 2 else 0)]
            if not have_default:
                alts.append(('comm_default', 2.0))
            k = self.pick('comm_clause', alts)
            tag = 'CommClause k:case'
            if k == 'comm_default':
                have_default = True
                self.kw('default')
                comm = NONE
                tag = 'CommClause k:default'
            else:
                self.kw('case')
                if k == 'comm_recv_paren':
                    self.op('(')
                    self.op('<-')
                    rx = N('Operation o:<-', self.unary('paren', d - 2, F_NOCHAN), NONE)
                    self.op(')')
                    comm = N('ExprStmt', N('Paren', rx))
                elif k == 'comm_send':
                    c = self.expr('comm_clause', d - 1)
                    self.op('<-')
                    v = self.expr('comm_clause', d - 1)
                    comm = N('Send', c, v)
                else:
                    lhs = None
                    o = None
                    if k in ('comm_recv_define1', 'comm_recv_define2'):
                        m = 1 if k.endswith('1') else 2
                        names = [self.var_name(True) for _ in range(m)]
                        for j, nm in enumerate(names):
                            if j:
                                self.comma()
                            self.ident(nm)
                        lhs = [ID(x) for x in names]
                        o = ':='
                    elif k in ('comm_recv_assign1', 'comm_recv_assign2'):
                        lhs = self.expr_list('comm_clause', d - 1, 1 if k.endswith('1') else 2)
                        o = '='
                    if o:
                        self.op(o)
                    self.op('<-')
                    rx = N('Operation o:<-', self.unary('comm_clause', d - 1, F_NOCHAN), NONE)
                    comm = N('ExprStmt', rx) if o is None else N('Assign o:' + o, LST(lhs), LST([rx]))
            self.op(':')
            body = self.stmt_list('comm_body', d - 1, '}' if last else 'case')
            clauses.append(N(tag, comm, LST(body)))
        self.op('}')
        return N('Select', NL_('CommBlock', clauses))

    def for_stmt(self, d):
        self.kw('for')
        k = self.pick('for', [('for_ever', 1.5), ('for_cond', 3.0), ('for_clause', 5.0)])
        init = cond = post = NONE
        if k == 'for_cond':
            cond = N('ExprStmt', self.expr('for_cond', d))
        elif k == 'for_clause':
            if self.p(0.7):
                self.mark('for_clause_init', 'for')
                init = self.simple('for_init', d)
            self.semi()
            if self.p(0.7):
                self.mark('for_clause_cond', 'for')
                cond = N('ExprStmt', self.expr('for_cond', d))
            self.semi()
            if self.p(0.7):
                self.mark('for_clause_post', 'for')
                post = self.simple('for_post', d)
        return N('For', init, cond, post, self.block('block', d - 1))

    def range_stmt(self, d):
        self.kw('for')
        k = self.pick('for', [('range_bare', 1.5), ('range_define_k', 2.0), ('range_define_kv', 3.0),
                              ('range_assign_k', 1.0), ('range_assign_kv', 1.0)])
        key = val = opn = NONE
        if k.startswith('range_define'):
            names = [self.var_name(True) for _ in range(1 if k.endswith('_k') else 2)]
            for j, nm in enumerate(names):
                if j:
                    self.comma()
                self.ident(nm)
            self.op(':=')
            opn = '(Pos o::=)'
            key = ID(names[0])
            if len(names) > 1:
                val = ID(names[1])
        elif k.startswith('range_assign'):
            l = self.expr_list('range_lhs', d, 1 if k.endswith('_k') else 2)
            self.op('=')
            opn = '(Pos o:=)'
            key = l[0]
            if len(l) > 1:
                val = l[1]
        self.kw('range')
        x = self.expr('range_expr', d)
        return N('RangeStmt', key, val, opn, x, self.block('block', d - 1))

    # ------------------------------------------------------------ declarations
    def _group(self, ctx, kw, tag, spec_fn, d):
        """`kw spec` or `kw ( spec; spec )`"""
        self.kw(kw)
        k = self.pick(ctx, [(tag + '_single', 6.0), (tag + '_group', 2.5 if d >= 1 else 0),
                            (tag + '_group_empty', 0.3 if d >= 1 else 0)])
        if k.endswith('_single'):
            return [spec_fn(0, d)]
        self.op('(')
        specs = []
        if k.endswith('_group'):
            n = self.count(1, 3)
            for i in range(n):
                specs.append(spec_fn(i, d - 1))
                self.semi(omit=(i == n - 1))
        self.op(')')
        return specs

    def _names(self, pool=None):
        n = self.count(1, 3)
        names = [self.var_name(True) for _ in range(n)]
        for i, nm in enumerate(names):
            if i:
                self.comma()
            self.ident(nm)
        return names

    def decl_var(self, ctx, d):
        ectx = 'top_init' if ctx == 'toplevel' else 'local_init'

        def spec(i, d):
            names = self._names()
            k = self.pick(ctx, [('var_type', 3.0), ('var_type_values', 3.0), ('var_values', 4.0)])
            t = NONE
            vals = []
            if k != 'var_values':
                t = self.typ('var_type', d)
            if k != 'var_type':
                self.op('=')
                vals = self.expr_list(ectx, d, len(names) if self.p(0.7) else 1)
            return N('VarSpec', LST([ID(x) for x in names]), t, LST(vals))
        return NL_('DeclVar', self._group(ctx, 'var', 'var', spec, d))

    def decl_const(self, ctx, d):
        ectx = 'top_init' if ctx == 'toplevel' else 'local_init'

        def spec(i, d):
            names = self._names()
            alts = [('const_values', 5.0), ('const_type_values', 2.5)]
            if i > 0:
                alts.append(('const_iota', 4.0))
            k = self.pick(ctx, alts)
            t = NONE
            vals = []
            if k == 'const_type_values':
                t = self.typ('const_type', d)
            if k != 'const_iota':
                self.op('=')
                vals = self.expr_list(ectx, d, len(names))
            return N('ConstSpec', LST([ID(x) for x in names]), t, LST(vals))
        return NL_('DeclConst', self._group(ctx, 'const', 'const', spec, d))

    def decl_type(self, ctx, d):
        def spec(i, d):
            nm = self.type_name() if self.p(0.9) else '_'
            self.ident(nm)
            alts = [('type_def', 6.0), ('type_alias', 2.0)]
            if d >= 1:
                alts += [('type_generic', 2.5), ('type_generic_alias', 0.3), ('type_array_ambiguous', 0.3)]
            k = self.pick(ctx, alts)
            tp = '(FieldList)'
            if k == 'type_array_ambiguous':
                # `type T[P *C] E`, `type T[P (C)] E`: indistinguishable from type parameters; Go (spec, Type
                # parameter declarations) and gosyn read an array length expression
                self.op('[')
                a = self.ident(self.r.choice(TPARAMS))
                if d < 2 or self.p(0.5):
                    self.op('*')
                    ln = N('Operation o:*', a, self.ident(self.r.choice(['C', 'N', 'T'])))
                else:
                    self.op('(')
                    ln = N('Call', a, LST([self.ident(self.r.choice(['C', 'N', 'T']))]), NONE)
                    self.op(')')
                self.op(']')
                return N('TypeSpec b:0', ID(nm), tp, N('TypeArray', ln, self.typ('array_elem', d - 1)))
            if k in ('type_generic', 'type_generic_alias'):
                tp = self.tparams('typedecl', d)
            alias = k in ('type_alias', 'type_generic_alias')
            if alias:
                self.op('=')
            t = self.typ('alias_rhs' if alias else 'type_rhs', d)
            return N('TypeSpec b:%d' % (1 if alias else 0), ID(nm), tp, t)
        return NL_('DeclType', self._group(ctx, 'type', 'type', spec, d))

    def receiver(self, d):
        self.op('(')
        k = self.pick('receiver', [('recv_named', 4.0), ('recv_named_ptr', 4.0), ('recv_unnamed', 1.0),
                                   ('recv_unnamed_ptr', 1.0), ('recv_paren', 0.3 if d >= 2 else 0)])
        if k == 'recv_paren':
            # func (t (T)) m()   func (t *(T)) m()
            nm = self.var_name(True)
            self.ident(nm)
            ptr = self.p(0.5)
            if ptr:
                self.op('*')
            self.op('(')
            t = N('Paren', self.ident(self.type_name()))
            self.op(')')
            self.op(')')
            return N('FieldList', FIELD([nm], N('TypePointer', t) if ptr else t))
        names = []
        if k.startswith('recv_named'):
            nm = self.var_name(True)
            self.ident(nm)
            names = [nm]
        ptr = k.endswith('_ptr')
        if ptr:
            self.op('*')
        t = self.ident(self.type_name())
        if d >= 1 and self.p(0.3):
            self.mark('recv_generic', 'receiver')
            self.op('[')
            n = self.r.randint(1, 2)
            ps = []
            for i in range(n):
                if i:
                    self.comma()
                ps.append(self.ident(self.r.choice(TPARAMS if AVOID['kf_blank_typearg'] else TPARAMS + ['_'])))
            self.op(']')
            t = N('Index', t, ps[0] if n == 1 else LST(ps))
        if ptr:
            t = N('TypePointer', t)
        if self.p(0.08):
            self.comma(optional=True)
        self.op(')')
        return N('FieldList', FIELD(names, t))

    def decl_func(self, d):
        self.kw('func')
        k = self.pick('toplevel', [('func', 6.0), ('func_nobody', 0.8), ('func_generic', 2.0 if d >= 1 else 0),
                                   ('method', 3.0), ('method_nobody', 0.4)])
        recv = NONE
        if k.startswith('method'):
            recv = self.capped(0.2, self.receiver, d)
            nm = self.r.choice(METHODS)
        else:
            nm = self.r.choice(FUNCS)
        self.ident(nm)
        tp = '(FieldList)'
        if k == 'func_generic':
            tp = self.capped(0.2, self.tparams, 'func', d)
        ps = self.capped(0.2, self.params, 'param', d, True)
        rs = self.capped(0.15, self.results, d)
        body = NONE
        if not k.endswith('_nobody'):
            body = self.block('func_body', d - 1)
        return N('FuncDecl', recv, ID(nm), N('FuncType', tp, ps, rs), body)

    def import_decl(self):
        self.kw('import')

        def spec():
            k = self.pick('toplevel', [('import_plain', 5.0), ('import_named', 2.0), ('import_dot', 1.0),
                                       ('import_blank', 1.0)])
            nm = NONE
            if k == 'import_named':
                nm = self.ident(self.r.choice(PKGS + ['é']))
            elif k == 'import_dot':
                self.op('.')
                nm = ID('.')
            elif k == 'import_blank':
                nm = self.ident('_')
            s = self.gen_path()
            self.toks.append(Tok('string', s))
            return N('Import', nm, '(StringLit s:' + esc(s) + ')')
        k = self.pick('toplevel', [('import_single', 5.0), ('import_group', 3.0), ('import_group_empty', 0.5)])
        if k == 'import_single':
            return [spec()]
        self.op('(')
        out = []
        if k == 'import_group':
            n = self.count(1, 3)
            for i in range(n):
                out.append(spec())
                self.semi(omit=(i == n - 1))
        self.op(')')
        return out

    def program(self):
        d = self.maxd - 1
        self.kw('package')
        pk = self.r.choice(['p', 'main', 'pkg', 'é', 'x_1'])
        self.ident(pk)
        self.semi()
        imports = []
        while self.p(0.3) and len(imports) < 4:
            imports += self.import_decl()
            self.semi()
        decls = []
        while not decls or self.left() > 0:
            k = self.pick('toplevel', [('decl_func', 8.0), ('decl_var', 2.0), ('decl_const', 1.2), ('decl_type', 2.0)])
            fr = self.r.uniform(0.3, 1.0)
            if k == 'decl_func':
                decls.append(self.capped(fr, self.decl_func, d))
            elif k == 'decl_var':
                decls.append(self.capped(fr * 0.5, self.decl_var, 'toplevel', d))
            elif k == 'decl_const':
                decls.append(self.capped(fr * 0.5, self.decl_const, 'toplevel', d))
            else:
                decls.append(self.capped(fr * 0.6, self.decl_type, 'toplevel', d))
            self.semi()
        last = self.toks[-1]
        last.eof_ok = True
        last.semi_optional = True
        return N('File', ID(pk), LST(imports), LST(decls))


# ---------------------------------------------------------------- public API

def gen_program(rng, budget, max_depth=12, want=None):
    g = _Gen(rng, budget, max_depth, want)
    shape = g.program()
    return Program(g.toks, shape, g.feat)


def nesting_depth(tokens):
    """maximal bracket nesting of a token list (parens, brackets, braces)"""
    d = m = 0
    for t in tokens:
        if t.kind == 'op':
            if t.text in '([{':
                d += 1
                m = max(m, d)
            elif t.text in ')]}':
                d -= 1
    return m


def coverage_labels():
    """all production@context labels the generator can produce (with the current AVOID switches)"""
    g = _Gen(random.Random(0), 0, 12, None)
    out = set()

    def add(names, ctxs):
        for c in ctxs:
            for nm in names:
                out.add(nm + '@' + c)

    def alts(al, c):
        for nm, w in al:
            if w > 0:
                out.add(nm + '@' + c)
    D = 10
    # types
    for c in TYPE_CTX:
        alts(g.type_alts(c, D, True, 0), c)
    add(['result_none', 'result_single', 'result_paren'], ['result'])
    add(['list_empty', 'list_unnamed', 'list_named', 'grouped_names', 'list_trailing_comma'], ['param', 'result'])
    add(['variadic_unnamed', 'variadic_named'], ['param'])
    fields = ['field_named', 'field_embedded', 'field_embedded_tag', 'field_tag']
    if not AVOID['kf_embedded_star']:
        fields.append('field_embedded_ptr')
    add(fields, ['struct_field'])
    add(['iface_method', 'iface_embedded', 'iface_union', 'iface_tilde'], ['iface_elem'])
    add(['constraint_type', 'constraint_union', 'constraint_tilde'], ['tparam', 'tparam_decl', 'tparam_decl_first'])
    add(['constraint_pointer_comma', 'resolved_ptr_lit', 'resolved_paren_lit', 'resolved_ptr_tilde_union',
         'resolved_paren_comma'], ['tparam_decl_first'])
    add(['list_trailing_comma'], ['tparam'])
    add(['typeargs_trailing_comma'], ['type'] if AVOID['kf_inst_trailing_comma'] else ['type', 'expr'])
    # expressions
    un = ['unary', 'unary_deref', 'unary_recv', 'unary_addr']
    for c in EXPR_CTX:
        if c in ('go_call', 'defer_call'):
            add(['call_ident', 'call_selector', 'call_funclit', 'call_paren', 'call_inst'], [c])
            continue
        alts(g.base_alts(c, D, True, 0), c)
        alts(g.suffix_alts(c, D, 'ident'), c)
        if c != 'tswitch_guard':
            add(['binary'] + un, [c])
    for q in BINOPS:
        add(['binop:' + o for o in BINOPS[q]], ['any'])
    add(['unop:' + o for o in UNOPS + ['*', '&', '<-']], ['any'])
    add(['assignop:' + o for o in ASSIGN_OPS], ['any'])
    add(['slice_lo_hi', 'slice_lo_x', 'slice_x_hi', 'slice_x_x', 'call_trailing_comma', 'lit_trailing_comma'], ['any'])
    add(['elem_plain', 'elem_keyed', 'elem_nested', 'elem_keyed_nested', 'elem_litkey'], ['lit_elem'])
    # statements
    for c in STMT_CTX:
        alts(g.stmt_alts(c, D, True), c)
    for c in SIMPLE_CTX:
        alts(g.simple_alts(c), c)
    add(['fallthrough'], ['case_body'])
    add(['if_plain', 'if_init', 'if_emptyinit', 'else_none', 'else_block', 'else_if'], ['if'])
    add(['switch_bare', 'switch_tag', 'switch_init', 'switch_init_tag', 'switch_emptyinit', 'switch_emptyinit_tag',
         'case_default'], ['switch'])
    add(['tswitch_plain', 'tswitch_bind', 'tswitch_init', 'tswitch_init_bind', 'tswitch_emptyinit_bind', 'case_default',
         'case_nil'],
        ['tswitch'])
    add(['comm_recv', 'comm_recv_define1', 'comm_recv_define2', 'comm_recv_assign1', 'comm_recv_assign2',
         'comm_send', 'comm_default', 'comm_recv_paren'], ['comm_clause'])
    add(['for_ever', 'for_cond', 'for_clause', 'for_clause_init', 'for_clause_cond', 'for_clause_post', 'range_bare',
         'range_define_k', 'range_define_kv', 'range_assign_k', 'range_assign_kv'], ['for'])
    # declarations
    for c in DECL_CTX:
        for kw in ('var', 'const', 'type'):
            add([kw + '_single', kw + '_group', kw + '_group_empty'], [c])
        add(['var_type', 'var_type_values', 'var_values', 'const_values', 'const_type_values', 'const_iota',
             'type_def', 'type_alias', 'type_generic', 'type_generic_alias', 'type_array_ambiguous'], [c])
    add(['recv_named', 'recv_named_ptr', 'recv_unnamed', 'recv_unnamed_ptr', 'recv_generic', 'recv_paren'],
        ['receiver'])
    add(['func', 'func_nobody', 'func_generic', 'method', 'method_nobody', 'import_plain', 'import_named',
         'import_dot', 'import_blank', 'import_single', 'import_group', 'import_group_empty', 'decl_func',
         'decl_var', 'decl_const', 'decl_type'], ['toplevel'])
    return sorted(out)


# ---------------------------------------------------------------- independent check of render()
# A small Go scanner (spec: Tokens, Semicolons) used to confirm that a rendering really
# has the intended token sequence after automatic semicolon insertion.

import re as _re

_NUM = _re.compile(r"0[xX][0-9a-fA-F_]*(?:\.[0-9a-fA-F_]*)?(?:[pP][+-]?[0-9_]+)?i?"
                   r"|0[bB][01_]+i?|0[oO][0-7_]+i?"
                   r"|(?:[0-9][0-9_]*)(?:\.[0-9_]*)?(?:[eE][+-]?[0-9_]+)?i?"
                   r"|\.[0-9][0-9_]*(?:[eE][+-]?[0-9_]+)?i?")
_STR = _re.compile(r'"(?:[^"\\\n]|\\.)*"|`[^`]*`', _re.S)
_RUNE = _re.compile(r"'(?:[^'\\\n]|\\.)[^'\n]*'")
_OPS_BY_LEN = sorted(OPERATORS, key=lambda s: -len(s))
_KEYWORDS = frozenset(['break', 'case', 'chan', 'const', 'continue', 'default', 'defer', 'else', 'fallthrough', 'for',
                       'func', 'go', 'goto', 'if', 'import', 'interface', 'map', 'package', 'range', 'return',
                       'select', 'struct', 'switch', 'type', 'var'])


def lex_go(src):
    """[(kind, text)] after automatic semicolon insertion; inserted semicolons have kind 'asi'"""
    out = []
    i, n = 0, len(src)
    last_trig = False

    def asi():
        if out and last_trig:
            out.append(('asi', ';'))
    while i < n:
        c = src[i]
        if c == '\n':
            asi()
            last_trig = False
            i += 1
            continue
        if c in ' \t\r':
            i += 1
            continue
        if src.startswith('//', i):
            j = src.find('\n', i)
            i = n if j < 0 else j
            continue
        if src.startswith('/*', i):
            j = src.find('*/', i + 2)
            if j < 0:
                raise ValueError('unterminated comment')
            if '\n' in src[i:j]:
                asi()
                last_trig = False
            i = j + 2
            continue
        if c == '_' or c.isalpha():
            j = i + 1
            while j < n and (src[j] == '_' or src[j].isalnum()):
                j += 1
            w = src[i:j]
            kind = 'kw' if w in _KEYWORDS else 'ident'
            out.append((kind, w))
            last_trig = kind == 'ident' or w in _ASI_KW
            i = j
            continue
        if c.isdigit() or (c == '.' and i + 1 < n and src[i + 1].isdigit()):
            m = _NUM.match(src, i)
            w = m.group()
            kind = 'imag' if w.endswith('i') else ('float' if _re.search(r'[.pP]', w) or
                                                   (not w.startswith(('0x', '0X')) and _re.search(r'[eE]', w)) else 'int')
            out.append((kind, w))
            last_trig = True
            i = m.end()
            continue
        if c in '"`':
            m = _STR.match(src, i)
            if not m:
                raise ValueError('bad string at %d' % i)
            out.append(('string', m.group()))
            last_trig = True
            i = m.end()
            continue
        if c == "'":
            m = _RUNE.match(src, i)
            if not m:
                raise ValueError('bad rune at %d' % i)
            out.append(('rune', m.group()))
            last_trig = True
            i = m.end()
            continue
        for o in _OPS_BY_LEN:
            if src.startswith(o, i):
                out.append(('op', o))
                last_trig = o in _ASI_OP
                i += len(o)
                break
        else:
            raise ValueError('unexpected character %r at %d' % (c, i))
    asi()
    return out


def check_render(tokens, src):
    """None if src scans (Go rules) to `tokens` with optional tokens realised legally, else a message"""
    try:
        lexed = lex_go(src)
    except ValueError as e:
        return 'lex error: %s' % e
    j = 0
    m = len(lexed)
    n = len(tokens)
    for i, t in enumerate(tokens):
        nxt = tokens[i + 1] if i + 1 < n else None
        if j < m and lexed[j][1] == t.text and (lexed[j][0] == t.kind or (lexed[j][0] == 'asi' and t.text == ';')):
            if lexed[j][0] == 'asi' and not t.nl_ok:
                return 'token %d: inserted semicolon where none may be inserted' % i
            j += 1
            continue
        # not present: must be a legal omission
        closer = nxt is not None and nxt.kind == 'op'
        if t.text == ';' and t.kind == 'op':
            if (t.omit_ok and closer and nxt.text in (')', '}')) or (t.eof_ok and nxt is None):
                continue
        if t.text == ',' and t.comma_optional and closer and nxt.text in (')', ']', '}'):
            continue
        return 'token %d (%r): source has %r' % (i, t, lexed[j] if j < m else 'EOF')
    if j != m:
        return 'source has extra tokens from %r' % (lexed[j],)
    return None
