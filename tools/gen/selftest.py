#!/usr/bin/env python3
"""Self-test of the generator against the real parser.

  selftest.py [-n N] [--seed S] [--budgets 20,60,150] [--styles a,b] [--gv PATH] [--show K] [--nowant]

For N programs x all styles: every rendering must parse (OK), shape(tree) must equal the
derivation's expected shape, and all renderings of one program must agree.  Prints a
summary with the coverage-matrix fill and the failures (grouped); exit 1 on any failure.
"""
import argparse
import os
import random
import sys
import time

HERE = os.path.dirname(os.path.abspath(__file__))
sys.path.insert(0, HERE)
sys.path.insert(0, os.path.dirname(HERE))
import gogen  # noqa: E402
import sexpr  # noqa: E402
import vlib   # noqa: E402

GV = '/verif/.work/target/on/release/gv'


def main():
    ap = argparse.ArgumentParser()
    ap.add_argument('-n', type=int, default=2000)
    ap.add_argument('--seed', type=int, default=20260926)
    ap.add_argument('--budgets', default='15,40,60,100,200')
    ap.add_argument('--styles', default=','.join(gogen.STYLES))
    ap.add_argument('--gv', default=GV)
    ap.add_argument('--show', type=int, default=8)
    ap.add_argument('--nowant', action='store_true')
    ap.add_argument('--max-depth', type=int, default=12)
    ap.add_argument('--dump', default='')
    ap.add_argument('--avoid', default='', help='comma list of AVOID switches to turn off')
    a = ap.parse_args()
    for k in filter(None, a.avoid.split(',')):
        if k not in gogen.AVOID:
            sys.exit('unknown AVOID switch ' + k)
        gogen.AVOID[k] = False
    styles = a.styles.split(',')
    budgets = [int(x) for x in a.budgets.split(',')]
    all_labels = gogen.coverage_labels()
    label_set = set(all_labels)
    hit = set()
    t0 = time.time()
    progs = []
    recs = []
    meta = []
    for i in range(a.n):
        seed = a.seed * 1000003 + i
        rng = random.Random(seed)
        budget = budgets[i % len(budgets)]
        want = None if a.nowant else (label_set - hit)
        p = gogen.gen_program(rng, budget, a.max_depth, want)
        hit |= p.features
        progs.append((seed, budget, p))
        for st in styles:
            recs.append(gogen.render(p.tokens, rng, st))
            meta.append((i, st))
    tgen = time.time() - t0
    t1 = time.time()
    lines = vlib.run_records(a.gv, 'parse', recs)
    tpar = time.time() - t1

    fails = []     # (kind, i, style, detail)
    per_prog = {}
    t2 = time.time()
    for (i, st), src in zip(meta, recs):
        msg = gogen.check_render(progs[i][2].tokens, src)
        if msg:
            fails.append(('render', i, st, msg, src))
    tchk = time.time() - t2
    for (i, st), src, line in zip(meta, recs, lines):
        seed, budget, p = progs[i]
        if not line.startswith('OK '):
            fails.append(('reject', i, st, line, src))
            continue
        try:
            sh = sexpr.shape(line)
        except Exception as e:  # malformed output is a failure of the harness side
            fails.append(('unparsable-output', i, st, str(e), src))
            continue
        per_prog.setdefault(i, {})[st] = sh
        if sh != p.expected_shape:
            fails.append(('shape', i, st, sexpr.first_diff(p.expected_shape, sh), src))
    for i, d in per_prog.items():
        if len(set(d.values())) > 1:
            fails.append(('layout', i, '*', 'renderings disagree: %s' % sorted((s, hash(v) % 1000) for s, v in d.items()), ''))
    depth_bad = [i for i, (_, _, p) in enumerate(progs) if gogen.nesting_depth(p.tokens) >= a.max_depth]
    unknown = sorted(hit - label_set)

    ntok = sum(len(p.tokens) for _, _, p in progs)
    print('programs %d  renderings %d  tokens/program %.1f  gen+render %.1f prog/s  parse %.1fs  render-check %.1fs' %
          (a.n, len(recs), ntok / max(1, a.n), a.n / max(tgen, 1e-9), tpar, tchk))
    print('coverage: %d / %d labels hit (%.1f%%)' % (len(hit & label_set), len(label_set),
                                                      100.0 * len(hit & label_set) / max(1, len(label_set))))
    missing = sorted(label_set - hit)
    if missing:
        print('  missing (%d): %s%s' % (len(missing), ' '.join(missing[:40]), ' ...' if len(missing) > 40 else ''))
    if unknown:
        print('  labels produced but not declared by coverage_labels(): %s' % ' '.join(unknown[:30]))
    if depth_bad:
        print('  nesting depth >= max_depth in %d programs (first: #%d)' % (len(depth_bad), depth_bad[0]))
    kinds = {}
    for f in fails:
        kinds[f[0]] = kinds.get(f[0], 0) + 1
    print('failures: %d %s' % (len(fails), kinds))
    shown = set()
    k = 0
    for kind, i, st, detail, src in fails:
        if (kind, i) in shown:
            continue
        shown.add((kind, i))
        if k >= a.show:
            break
        k += 1
        seed, budget, p = progs[i]
        print('--- %s program #%d seed=%d budget=%d style=%s' % (kind, i, seed, budget, st))
        print('    ' + detail[:400])
        if src:
            print('    src: ' + repr(src[:600]))
    if a.dump:
        with open(a.dump, 'w') as f:
            for kind, i, st, detail, src in fails:
                f.write('%s\t%d\t%s\t%s\t%r\n' % (kind, i, st, detail, src))
    bad = bool(fails or unknown or depth_bad)
    print('RESULT: %s' % ('FAIL' if bad else 'PASS'))
    return 1 if bad else 0


if __name__ == '__main__':
    sys.exit(main())
