"""Shared machinery of the /verif checks: builds (harness from /repo's working
tree, regenerated tables, Coq targets, extracted model), hygiene of the Coq
development, parallel family runs, evidence and replay files."""
import concurrent.futures as cf
import fcntl
import hashlib
import json
import os
import re
import subprocess
import sys
import time

ROOT = os.path.dirname(os.path.dirname(os.path.abspath(__file__)))
WORK = os.path.join(ROOT, ".work")
COQ = os.path.join(ROOT, "coq")
REPO = "/repo"
NPROC = os.cpu_count() or 8
ENV = dict(os.environ, CARGO_NET_OFFLINE="true", PIP_NO_INDEX="1", GOPROXY="off")

os.makedirs(WORK, exist_ok=True)


class MachineryFault(Exception):
    """the check itself is broken (exit 2, never a VIOLATION)"""


class TieBroken(Exception):
    """a proof obligation or the correspondence can no longer be established"""

    def __init__(self, what, log=""):
        super().__init__(what)
        self.what = what
        self.log = log


def _big_stack():
    # the extracted model is not tail recursive everywhere: give it an unlimited stack (the crate's own
    # binaries keep the default 8 MiB: C01 measures them)
    import resource
    try:
        resource.setrlimit(resource.RLIMIT_STACK, (resource.RLIM_INFINITY, resource.RLIM_INFINITY))
    except Exception:
        pass


def _mem_cap():
    # the crate's harness binaries get an address-space cap: an input on which the parser loops while allocating
    # (seeded change C01-h: a statement arm that returns without consuming a token) then ends in an allocation
    # failure (abort = "the process was killed", which is what C01 reports) within seconds instead of exhausting
    # the machine for the whole timeout
    import resource
    try:
        resource.setrlimit(resource.RLIMIT_AS, (MEM_CAP, MEM_CAP))
    except Exception:
        pass


MEM_CAP = 8 << 30


def _dump_corpus(cmd, input):
    """VERIF_DUMP_CORPUS=<file>: log every invocation of the hooks-on release harness (arguments + stdin), for the
    mutation survey of tools/mutsurvey.py; never set by the registered checks"""
    path = os.environ.get("VERIF_DUMP_CORPUS")
    if not path or isinstance(cmd, str) or not cmd[0].endswith(os.path.join("on", "release", "gv")):
        return
    if len(cmd) > 1 and cmd[1] in ("file", "dir", "classes", "tables"):
        return
    with open(path, "a") as f:
        f.write(json.dumps({"args": cmd[1:], "stdin": input}) + "\n")


def sh(cmd, timeout=1200, cwd=None, env=None, input=None):
    _dump_corpus(cmd, input)
    try:
        base = "" if isinstance(cmd, str) else os.path.basename(cmd[0])
        pre = _big_stack if base == "gm" else (_mem_cap if base == "gv" else None)
        p = subprocess.run(cmd, shell=isinstance(cmd, str), cwd=cwd, env=env or ENV, input=input,
                           capture_output=True, text=True, timeout=timeout, errors="replace", preexec_fn=pre)
        return p.returncode, p.stdout, p.stderr
    except subprocess.TimeoutExpired as e:
        return 124, (e.stdout or b"").decode("utf8", "replace") if isinstance(e.stdout, bytes) else (e.stdout or ""), "TIMEOUT"


class Lock:
    def __enter__(self):
        self.f = open(os.path.join(WORK, "lock"), "w")
        fcntl.flock(self.f, fcntl.LOCK_EX)
        return self

    def __exit__(self, *a):
        fcntl.flock(self.f, fcntl.LOCK_UN)
        self.f.close()


# ------------------------------------------------------------------ builds

def build_harness(profile="release", hooks=True, features=()):
    """build the implementation-side harness against /repo's working tree"""
    tdir = os.path.join(WORK, "target", ("on" if hooks else "off") + ("-" + "-".join(features) if features else ""))
    env = dict(ENV, CARGO_TARGET_DIR=tdir)
    if hooks:
        env["RUSTFLAGS"] = "--cfg gosyn_verif"
    hdir = os.path.join(ROOT, "harness")
    lock = os.path.join(hdir, "Cargo.lock")
    if not os.path.exists(lock):
        subprocess.run(["cp", os.path.join(REPO, "Cargo.lock"), lock], check=True)
    cmd = ["cargo", "build", "--offline", "--quiet"]
    if profile == "release":
        cmd.append("--release")
    if features:
        cmd += ["--features", ",".join(features)]
    if not hooks:
        cmd += ["--features", "nohooks"] if False else []
    rc, out, err = sh(cmd, timeout=1500, cwd=hdir, env=env)
    if rc != 0:
        # a stale lock file can be the reason: retry once from /repo's lock
        subprocess.run(["cp", os.path.join(REPO, "Cargo.lock"), lock], check=True)
        rc, out, err = sh(cmd, timeout=1500, cwd=hdir, env=env)
    if rc != 0:
        raise TieBroken("harness does not build against /repo's working tree (%s, hooks=%s)" % (profile, hooks),
                        (out + err)[-4000:])
    return os.path.join(tdir, profile if profile == "release" else "debug", "gv")


def regen(gv):
    rc, out, err = sh([sys.executable, os.path.join(ROOT, "tools", "regen.py"), gv], timeout=300)
    if rc != 0:
        raise TieBroken("table regeneration failed", out + err)
    # the serde schema of ast.rs / token.rs (C20); when the translator does not understand the sources the
    # obligation file is replaced by one that cannot compile, so only C20's obligations break
    path = os.path.join(COQ, "gen", "GenSchema.v")
    tmp = path + ".new"
    rc2, out2, err2 = sh([sys.executable, os.path.join(ROOT, "tools", "regen_schema.py"), "--out", tmp], timeout=300)
    if rc2 != 0 or not os.path.exists(tmp):
        text = ("(* GENERATED: tools/regen_schema.py could not translate the crate's types:\n%s *)\n"
                "Lemma repo_schema_translated : False.\nProof. exact I. Qed.\n" % (out2 + err2)[-1500:].replace("*)", "* )"))
    else:
        text = open(tmp).read()
    if os.path.exists(tmp):
        os.remove(tmp)
    old = open(path).read() if os.path.exists(path) else None
    if old != text:
        with open(path, "w") as f:
            f.write(text)
    return out.strip()


def ensure_makefile():
    mk = os.path.join(COQ, "Makefile")
    cp = os.path.join(COQ, "_CoqProject")
    if not os.path.exists(mk) or os.path.getmtime(mk) < os.path.getmtime(cp):
        rc, out, err = sh("coq_makefile -f _CoqProject -o Makefile", cwd=COQ, timeout=120)
        if rc != 0:
            raise MachineryFault("coq_makefile failed: " + out + err)


def coq_make(targets, timeout=1500):
    """make the given .vo targets (paths relative to coq/); returns (ok, log)"""
    ensure_makefile()
    if not targets:
        return True, ""
    cmd = ["make", "-j%d" % NPROC, "-k"] + list(targets)
    rc, out, err = sh(cmd, cwd=COQ, timeout=timeout)
    log = out + err
    return rc == 0, log


def coq_failed_files(log):
    return sorted(set(re.findall(r'File "\./([^"]+\.v)", line \d+, characters [-\d]+:\s*\nError', log)) |
                  set(re.findall(r"\*\*\* \[[^\]]*: ([^\]\s]+)\.vo\] Error", log)))


def build_model():
    """extract (via Extract.vo) and compile the OCaml model driver"""
    ok, log = coq_make(["theories/Extract.vo"])
    if not ok:
        raise TieBroken("the model no longer compiles/extracts", log[-4000:])
    ex = os.path.join(ROOT, "extract")
    gm = os.path.join(WORK, "gm")
    srcs = [os.path.join(ex, f) for f in ("model.mli", "model.ml", "main.ml")]
    for s in srcs:
        if not os.path.exists(s):
            # Extract.vo cached but outputs removed: force re-extraction
            sh("rm -f theories/Extract.vo", cwd=COQ)
            ok, log = coq_make(["theories/Extract.vo"])
            if not ok:
                raise TieBroken("extraction failed", log[-4000:])
            break
    if (not os.path.exists(gm)) or any(os.path.getmtime(s) > os.path.getmtime(gm) for s in srcs):
        bdir = os.path.join(WORK, "ocaml")
        os.makedirs(bdir, exist_ok=True)
        for s in srcs:
            subprocess.run(["cp", s, bdir], check=True)
        rc, out, err = sh("ocamlfind ocamlopt -O3 -w -a -o %s model.mli model.ml main.ml" % gm, cwd=bdir, timeout=600)
        if rc != 0:
            raise MachineryFault("ocaml build failed: " + out + err)
    return gm


# ------------------------------------------------------------------ hygiene

FORBIDDEN = re.compile(r"\b(Admitted|admit|Axiom|Axioms|Parameter|Parameters|Conjecture|Hypothesis|Variable|"
                       r"Unset Guard Checking|bypass_check|Admit Obligations|type-in-type|impredicative-set|"
                       r"Unset Positivity Checking|Unset Universe Checking)\b")


def strip_comments(src):
    out, depth, i = [], 0, 0
    while i < len(src):
        if src.startswith("(*", i):
            depth += 1
            i += 2
        elif src.startswith("*)", i) and depth > 0:
            depth -= 1
            i += 2
        else:
            if depth == 0:
                out.append(src[i])
            i += 1
    return "".join(out)


def hygiene():
    """no Admitted/Axiom/... anywhere; Variable/Hypothesis only inside a Section"""
    issues = []
    for base, _, files in os.walk(os.path.join(COQ, "theories")):
        for f in files:
            if not f.endswith(".v"):
                continue
            path = os.path.join(base, f)
            src = strip_comments(open(path).read())
            depth = 0
            for ln in src.splitlines():
                s = ln.strip()
                if re.match(r"Section\s+\w+", s):
                    depth += 1
                if re.match(r"End\s+\w+\s*\.", s) and depth > 0 and not re.match(r"End\s+\w+\s*\.", s) is None:
                    pass
                for m in FORBIDDEN.finditer(s):
                    w = m.group(1)
                    if w in ("Variable", "Hypothesis") and depth > 0:
                        continue
                    issues.append("%s: %s" % (os.path.relpath(path, ROOT), w))
            # crude Section/End tracking is enough: Module ends are also `End X.`
    return issues


def print_assumptions(prop, module, theorems):
    """compile a throw-away file that prints the assumptions of each theorem; the answer is cached under
    the hash of the compiled property file (any change upstream changes that file)"""
    d = os.path.join(WORK, "assume")
    os.makedirs(d, exist_ok=True)
    vo = os.path.join(COQ, "theories", module.replace(".", "/") + ".vo")
    key = None
    if os.path.exists(vo):
        key = hashlib.sha1(open(vo, "rb").read() + "|".join(theorems).encode()).hexdigest()
        cpath = os.path.join(d, "cache_%s_%s.json" % (prop, key))
        if os.path.exists(cpath):
            return json.load(open(cpath))
    res = _print_assumptions(prop, module, theorems, d)
    if key is not None:
        json.dump(res, open(os.path.join(d, "cache_%s_%s.json" % (prop, key)), "w"))
    return res


def _print_assumptions(prop, module, theorems, d):
    # one file per (property, module): setup computes several of them at the same time
    path = os.path.join(d, "Assume_%s_%s.v" % (prop, module.replace(".", "_")))
    with open(path, "w") as f:
        f.write("From GoSyn Require Import %s.\n" % module)
        for t in theorems:
            f.write('Goal True. idtac "@@@ %s". Abort.\nPrint Assumptions %s.\n' % (t, t))
    rc, out, err = sh(["coqc", "-Q", os.path.join(COQ, "theories"), "GoSyn", "-Q", os.path.join(COQ, "gen"),
                       "GoSynGen", path], timeout=600, cwd=d)
    if rc != 0:
        raise TieBroken("Print Assumptions file for %s does not compile" % prop, out + err)
    res = {}
    cur = None
    for ln in (out + err).splitlines():
        if ln.startswith("@@@ "):
            cur = ln[4:].strip()
            res[cur] = ""
        elif cur is not None:
            res[cur] += ln + "\n"
    return res


def theorems_in(vfile):
    src = strip_comments(open(os.path.join(COQ, vfile)).read())
    return re.findall(r"^\s*(?:Theorem|Corollary)\s+(\w+)", src, re.M)


# ------------------------------------------------------------------ running families

def par(cmds, timeout=3600, stdin=None):
    """run commands in parallel; returns list of (rc, stdout, stderr) in order"""
    def one(i):
        return sh(cmds[i], timeout=timeout, input=(stdin[i] if stdin else None))
    with cf.ThreadPoolExecutor(max_workers=NPROC) as ex:
        return list(ex.map(one, range(len(cmds))))


def frame(records):
    out = []
    for r in records:
        b = r.encode("utf8")
        out.append("%d\n" % len(b))
        out.append(r + "\n")
    return "".join(out)


def run_records(binary, mode, records, shards=NPROC, timeout=1800, extra=()):
    """feed framed records to `binary mode`, sharded; returns one output line per record"""
    if not records:
        return []
    n = max(1, min(shards, (len(records) + 63) // 64))
    chunks = [records[i::n] for i in range(n)]
    res = par([[binary, mode] + list(extra)] * n, timeout=timeout, stdin=[frame(c) for c in chunks])
    outs = []
    for (rc, out, err), c in zip(res, chunks):
        lines = out.split("\n")
        if lines and lines[-1] == "":
            lines.pop()
        if rc != 0 or len(lines) != len(c):
            outs.append((rc, lines, err, c))
        else:
            outs.append((0, lines, "", c))
    result = [None] * len(records)
    for k, (rc, lines, err, c) in enumerate(outs):
        if rc != 0 or len(lines) != len(c):
            # a dead batch: isolate record by record
            for j, r in enumerate(c):
                rc1, o1, e1 = sh([binary, mode] + list(extra), timeout=120, input=frame([r]))
                l1 = o1.split("\n")[0] if o1 else ""
                result[k + j * n] = l1 if rc1 == 0 and o1 else "DIED rc=%d %s" % (rc1, (e1 or "")[-200:].replace("\n", " "))
        else:
            for j, l in enumerate(lines):
                result[k + j * n] = l
    return result


# ------------------------------------------------------------------ evidence, replays, findings

def known_findings():
    p = os.path.join(ROOT, "KNOWN_FINDINGS.json")
    if not os.path.exists(p):
        return []
    return json.load(open(p)).get("findings", [])


def write_replay(prop, obj):
    d = os.path.join(ROOT, "replays")
    os.makedirs(d, exist_ok=True)
    blob = json.dumps(obj, indent=1, sort_keys=True, ensure_ascii=False)
    h = hashlib.sha1(blob.encode("utf8")).hexdigest()[:12]
    path = os.path.join(d, "%s-%s.json" % (prop, h))
    with open(path, "w") as f:
        f.write(blob)
    return path


class Run:
    """one check run: collects obligations, coverage, violations; writes evidence"""

    def __init__(self, prop, tier, level="proof"):
        self.prop, self.tier, self.level = prop, tier, level
        self.seed = int(os.environ.get("VERIF_SEED", "20260926"))
        self.t0 = time.time()
        self.obligations = []      # (name, ok)
        self.cov = {"evaluations": 0, "distinct_nontrivial": 0, "rule": "", "samples": []}
        self.trusted = []
        self.assumptions = []
        self.violations = []       # (replay_path, no_input)
        self.known = []
        self.extra = {}

    def oblige(self, name, ok):
        self.obligations.append((name, bool(ok)))

    def violation(self, replay_obj, no_input=False):
        replay_obj = dict(replay_obj, property=self.prop, seed=self.seed, tier=self.tier)
        path = write_replay(self.prop, replay_obj)
        self.violations.append((path, no_input))

    def known_finding(self, text):
        if text not in self.known:
            self.known.append(text)

    def finish(self):
        ob = len(self.obligations)
        dis = sum(1 for _, ok in self.obligations if ok)
        cov = dict(self.cov)
        cov.update({
            "obligations": ob, "discharged": dis,
            "checker_cmd": "cd /verif/coq && make (coqc 8.16.1, full .vo build of the property's targets) + Print Assumptions per theorem",
            "trusted_base": self.trusted,
            "obligation_list": [{"name": n, "discharged": ok} for n, ok in self.obligations],
        })
        cov.update(self.extra)
        ev = {
            "property_id": self.prop, "tier": self.tier, "seed": self.seed, "level": self.level,
            "coverage": cov, "assumptions": self.assumptions,
            "wall_s": round(time.time() - self.t0, 2), "violations": len(self.violations),
            "known_findings_reported": self.known,
        }
        os.makedirs(os.path.join(ROOT, "evidence"), exist_ok=True)
        with open(os.path.join(ROOT, "evidence", "%s.json" % self.prop), "w") as f:
            json.dump(ev, f, indent=1, ensure_ascii=False)
        for k in self.known:
            print("KNOWN-FINDING: property=%s %s" % (self.prop, k))
        for path, no_input in self.violations:
            print("VIOLATION property=%s replay=%s%s" % (self.prop, path, " no-failing-input-found" if no_input else ""))
        sys.stdout.flush()
        return 1 if self.violations else 0


BASE_TRUST = [
    "Coq 8.16.1 kernel (coqc, vm_compute; no native_compute)",
    "hand-written Gallina model of src/scanner.rs / src/parser.rs tied to /repo by the correspondence check (extracted with ExtrOcamlBasic only: its Extract Inductive for bool, option, list, prod, unit, sumbool, sumor; no Extract Constant) and by tables regenerated from the crate's behaviour on every run (tools/regen.py)",
    "OCaml 4.13 driver extract/main.ml (framing, UTF-8, enumeration), Rust harness harness/src (canonical forms), tools/*.py",
    "rustc/cargo, strum derive, unic-ucd-category and char::is_whitespace (Unicode classes enter the model as an oracle record instantiated from the crate's behaviour on every scalar value)",
    "spec side (coq/theories/spec/*.v): my transcription of the Go specification's lexical grammar",
]
