#!/usr/bin/env python3
"""Regenerate coq/gen/*.v from the behaviour of /repo's current working tree.

Input: the output of the harness binary's `tables` and `classes` modes (which
call the crate's own Operator::from_str / Into<&str> / precedence(), scan
"<tok>\\nx" for the semicolon trigger table and call the private character
predicates through the cfg(gosyn_verif) hook on every Unicode scalar value).

Output (one file per obligation group, so that a failing obligation can be
attributed to the properties that use it):
  gen/GenClasses.v   uclass instance + the fixed ASCII predicates agree
  gen/GenOps.v       operator / keyword strings and the reverse (from_str) map
  gen/GenPrec.v      precedence table = spec_prec
  gen/GenTrigger.v   semicolon trigger table = semi_trigger of the model
Each file ends in lemmas proved by vm_compute; if the code's table differs
from the model's, the lemma does not compile.
A file is rewritten only when its content changes (keeps the .vo cache valid).
"""
import os, subprocess, sys

ROOT = os.path.dirname(os.path.dirname(os.path.abspath(__file__)))
GEN = os.path.join(ROOT, "coq", "gen")

BITS = dict(letter=1, udigit=2, ws=4, dec=8, hex=16, oct=32, bin=64, esc=128, uchar=256)


def cps(s):
    return "[" + "; ".join(str(ord(c)) for c in s) + "]"


def write_if_changed(path, text):
    old = open(path).read() if os.path.exists(path) else None
    if old != text:
        with open(path, "w") as f:
            f.write(text)
        return True
    return False


def ranges_for(classes, bit, exclude=()):
    out = []
    for lo, hi, m in classes:
        if m < 0:
            continue
        if m & bit:
            a = lo
            while a <= hi:
                # split around excluded code points
                b = a
                if a in exclude:
                    a += 1
                    continue
                while b + 1 <= hi and (b + 1) not in exclude:
                    b += 1
                if out and out[-1][1] + 1 == a:
                    out[-1] = (out[-1][0], b)
                else:
                    out.append((a, b))
                a = b + 1
    return out


def coq_ranges(rs):
    return "[" + "; ".join("(%d, %d)" % r for r in rs) + "]"


def main():
    gv = sys.argv[1]
    tables = subprocess.run([gv, "tables"], capture_output=True, text=True, check=True).stdout
    classes_txt = subprocess.run([gv, "classes"], capture_output=True, text=True, check=True).stdout
    classes = []
    for ln in classes_txt.splitlines():
        lo, hi, m = ln.split()
        m = int(m)
        classes.append((int(lo), int(hi), -1 if m == 4294967295 else m))

    changed = []
    hdr = ("(* GENERATED on every run by tools/regen.py from the behaviour of /repo's\n"
           "   working tree.  Do not edit; not committed. *)\n"
           "From Coq Require Import List NArith Bool.\n"
           "From GoSyn Require Import Token Tok Scanner.\n"
           "Import ListNotations.\nOpen Scope N_scope.\n\n")

    # ---------------------------------------------------------------- classes
    letter = ranges_for(classes, BITS["letter"], exclude=(95,))
    udigit = ranges_for(classes, BITS["udigit"])
    ws = ranges_for(classes, BITS["ws"])
    t = hdr
    t += "Definition repo_letter_ranges : list (N * N) :=\n  %s.\n" % coq_ranges(letter)
    t += "Definition repo_udigit_ranges : list (N * N) :=\n  %s.\n" % coq_ranges(udigit)
    t += "Definition repo_ws_ranges : list (N * N) :=\n  %s.\n\n" % coq_ranges(ws)
    t += ("Definition repo_uclass : uclass :=\n"
          "  {| u_letter := in_ranges repo_letter_ranges;\n"
          "     u_digit := in_ranges repo_udigit_ranges;\n"
          "     u_ws := in_ranges repo_ws_ranges |}.\n\n"
          "Lemma repo_uclass_ascii_ok : uclass_ascii_ok repo_uclass.\n"
          "Proof. apply uclass_ascii_okb_sound. vm_compute. reflexivity. Qed.\n\n")
    # is_letter includes '_' in the crate: bit set at 95
    under_ok = any(lo <= 95 <= hi and (m & BITS["letter"]) for lo, hi, m in classes if m >= 0)
    t += "Lemma repo_underscore_is_letter : %s = true.\nProof. reflexivity. Qed.\n\n" % ("true" if under_ok else "false")
    for name, bit, model in [("dec", "dec", "is_decimal_digit"), ("hex", "hex", "is_hex_digit"),
                             ("oct", "oct", "is_octal_digit"), ("bin", "bin", "is_binary_digit"),
                             ("esc", "esc", "is_escaped_char")]:
        rs = ranges_for(classes, BITS[bit])
        t += "Definition repo_%s_ranges : list (N * N) := %s.\n" % (name, coq_ranges(rs))
        # the model's predicate is exactly membership in these ranges: checked on the
        # range end points and their neighbours plus all of ASCII (the model's
        # predicates are unions of ASCII intervals; see Tok.ascii_pred_ranges)
        t += ("Lemma repo_%s_ok : ranges_equal_pred %s repo_%s_ranges = true.\n"
              "Proof. vm_compute. reflexivity. Qed.\n" % (name, model, name))
    # is_unicode_char: everything except newline
    rs = ranges_for(classes, BITS["uchar"])
    t += "Definition repo_uchar_ranges : list (N * N) := %s.\n" % coq_ranges(rs)
    t += ("Lemma repo_uchar_ok : repo_uchar_ranges = [(0, 9); (11, 55295); (57344, 1114111)].\n"
          "Proof. reflexivity. Qed.\n")
    if write_if_changed(os.path.join(GEN, "GenClasses.v"), t):
        changed.append("GenClasses.v")

    # ---------------------------------------------------------------- operators / keywords
    ops, kws, opfrom, trig = [], [], [], {}
    for ln in tables.splitlines():
        f = ln.split(" ")
        if f[0] == "op":
            ops.append((f[1], f[2], int(f[3])))
        elif f[0] == "kw":
            kws.append((f[1], f[2]))
        elif f[0] == "opfrom":
            opfrom.append((f[1], f[2]))
        elif f[0] == "trigger":
            trig[f[1]] = f[2] == "1"
    t = hdr
    t += "Definition repo_op_str (o : operator) : str :=\n  match o with\n"
    t += "".join("  | O%s => %s\n" % (n, cps(s)) for n, s, _ in ops) + "  end.\n"
    t += "Definition repo_kw_str (k : keyword) : str :=\n  match k with\n"
    t += "".join("  | K%s => %s\n" % (n, cps(s)) for n, s in kws) + "  end.\n"
    t += "Definition repo_opfrom : list (str * operator) :=\n  [" + ";\n   ".join(
        "(%s, O%s)" % (cps(s), n) for s, n in opfrom) + "].\n\n"
    t += ("Lemma repo_op_str_ok :\n"
          "  forallb (fun o => str_eqb (repo_op_str o) (op_str o)) all_operators = true.\n"
          "Proof. vm_compute. reflexivity. Qed.\n"
          "Lemma repo_kw_str_ok :\n"
          "  forallb (fun k => str_eqb (repo_kw_str k) (kw_str k)) all_keywords = true.\n"
          "Proof. vm_compute. reflexivity. Qed.\n"
          "(* Operator::from_str, probed on every string of length <= 3 over ASCII\n"
          "   punctuation, is exactly the inverse of op_str *)\n"
          "Lemma repo_opfrom_ok :\n"
          "  forallb (fun so => match op_of_str (fst so) with\n"
          "                     | Some o => op_eqb o (snd so) | None => false end) repo_opfrom\n"
          "  && forallb (fun o => existsb (fun so => str_eqb (fst so) (op_str o) && op_eqb (snd so) o)\n"
          "                         repo_opfrom) all_operators\n"
          "  && Nat.eqb (length repo_opfrom) (length all_operators) = true.\n"
          "Proof. vm_compute. reflexivity. Qed.\n")
    if write_if_changed(os.path.join(GEN, "GenOps.v"), t):
        changed.append("GenOps.v")

    # ---------------------------------------------------------------- precedence
    t = hdr
    t += "Definition repo_prec (o : operator) : N :=\n  match o with\n"
    t += "".join("  | O%s => %d\n" % (n, p) for n, _, p in ops) + "  end.\n"
    t += ("Lemma repo_prec_ok :\n"
          "  forallb (fun o => repo_prec o =? spec_prec o) all_operators = true.\n"
          "Proof. vm_compute. reflexivity. Qed.\n")
    if write_if_changed(os.path.join(GEN, "GenPrec.v"), t):
        changed.append("GenPrec.v")

    # ---------------------------------------------------------------- trigger
    t = hdr
    t += "Definition repo_trigger_op (o : operator) : bool :=\n  match o with\n"
    t += "".join("  | O%s => %s\n" % (n, str(trig["O" + n]).lower()) for n, _, _ in ops) + "  end.\n"
    t += "Definition repo_trigger_kw (k : keyword) : bool :=\n  match k with\n"
    t += "".join("  | K%s => %s\n" % (n, str(trig["K" + n]).lower()) for n, _ in kws) + "  end.\n"
    t += "Definition repo_trigger_lit (k : litkind) : bool :=\n  match k with\n"
    t += "".join("  | L%s => %s\n" % (n, str(trig["L" + n]).lower())
                 for n in ["Ident", "String", "Integer", "Float", "Imag", "Char"]) + "  end.\n"
    t += "Definition repo_trigger_comment : bool := %s.\n" % str(trig["Comment"]).lower()
    t += ("Lemma repo_trigger_ok :\n"
          "  forallb (fun o => Bool.eqb (repo_trigger_op o) (semi_trigger (TOperator o))) all_operators\n"
          "  && forallb (fun k => Bool.eqb (repo_trigger_kw k) (semi_trigger (TKeyword k))) all_keywords\n"
          "  && forallb (fun k => Bool.eqb (repo_trigger_lit k) (semi_trigger (TLiteral k []))) all_litkinds\n"
          "  && Bool.eqb repo_trigger_comment (semi_trigger (TComment [])) = true.\n"
          "Proof. vm_compute. reflexivity. Qed.\n")
    if write_if_changed(os.path.join(GEN, "GenTrigger.v"), t):
        changed.append("GenTrigger.v")
    print("regen: changed " + (", ".join(changed) if changed else "nothing"))


if __name__ == "__main__":
    main()
