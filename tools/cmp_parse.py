#!/usr/bin/env python3
"""ad-hoc: compare gv parse and gm parse on generated programs + corpus"""
import sys, json, random, time, os
sys.path.insert(0, os.path.dirname(os.path.abspath(__file__)))
sys.path.insert(0, os.path.join(os.path.dirname(os.path.abspath(__file__)), 'gen'))
import vlib, gogen
gm = os.path.join(vlib.WORK, 'gm'); gv = os.path.join(vlib.WORK, 'target/on/release/gv')
n = int(sys.argv[1]) if len(sys.argv) > 1 else 200
mode = sys.argv[2] if len(sys.argv) > 2 else 'parse'
recs = []
if mode == 'parse':
    for i in range(n):
        rng = random.Random(777 * 1000003 + i)
        p = gogen.gen_program(rng, [15, 40, 60, 100][i % 4], 12, None)
        for st in ('canonical', 'comments', 'random'):
            recs.append(gogen.render(p.tokens, rng, st))
for s in json.load(open(os.path.join(vlib.ROOT, 'corpus/unit_snippets.json'))):
    recs.append(s)
t = time.time(); a = vlib.run_records(gv, mode, recs); t1 = time.time() - t
t = time.time(); b = vlib.run_records(gm, mode, recs); t2 = time.time() - t
bad = [(r, x, y) for r, x, y in zip(recs, a, b) if x != y]
print("records", len(recs), "impl %.1fs model %.1fs" % (t1, t2), "differ", len(bad))
import collections
print(collections.Counter(x.split(' ')[0] for x in a))
for r, x, y in bad[:int(os.environ.get('SHOW', '5'))]:
    print("SRC:", repr(r[:300]))
    # first difference
    k = 0
    while k < min(len(x), len(y)) and x[k] == y[k]: k += 1
    print(" impl :", x[max(0, k - 80):k + 120])
    print(" model:", y[max(0, k - 80):k + 120])
