#!/usr/bin/env python3
"""Build corpus/error_sites.json: for every error site of the model (the site numbers of Core.v) the
shortest input found that makes the model's parser fail there.  The extracted model is the instrumentation
(mode `site` of the driver); the search is a coverage-guided mutation of directed snippets, generated
programs and the corpus itself.  Run by hand when Core.v changes; the checks only READ the corpus.

  sitecorpus.py [rounds]"""
import json, os, random, re, sys
HERE = os.path.dirname(os.path.abspath(__file__))
sys.path.insert(0, HERE)
import vlib, pfam, checks  # noqa: E402

OUT = os.path.join(vlib.ROOT, "corpus", "error_sites.json")


def all_sites():
    src = open(os.path.join(vlib.COQ, "theories", "Core.v")).read()
    sites = set()
    for m in re.finditer(r"\b(?:expect\s+\([^)]*\)|identifier|string_literal|else_error(?:_at)?\s+(?:\([^)]*\)|\w+)|cur_tok\s+\w+|inc_level\s+\w+|"
                         r"unexpected\s+\w+\s+(?:\([^)]*\)|\w+)|semi_unless_brace|nested)\s+(\d+)\b", src):
        sites.add(int(m.group(1)))
    for m in re.finditer(r"Some\s+(\d+)\b", src[src.find("Fixpoint check_fields"):src.find("Definition check_field_list")]):
        sites.add(int(m.group(1)))
    return sites


def main():
    rounds = int(sys.argv[1]) if len(sys.argv) > 1 else 6
    gm = os.path.join(vlib.WORK, "gm")
    corpus = json.load(open(OUT)) if os.path.exists(OUT) else {}
    best = {k: v for k, v in corpus.items()}
    rng = random.Random(12345)
    seeds = [c.src for c in pfam.text_mutants()] + [c.src for c in pfam.comment_injection_cases(pairs=False)[::7]]
    progs, _, _ = pfam.gen_programs(99, 150, budgets=(8, 12, 20))
    seeds += [c.src for c in pfam.systematic_mutants(progs)]
    seeds += [c.src for c in pfam.soup_cases(5, 3000, maxlen=12)]
    seeds += ["package p; " + d for d in checks.FRAG_DECLS] + ["package p; func f() { " + s + " }" for s in checks.FRAG_STMTS]
    seeds += ["package p; var x = " + e for e in checks.FRAG_EXPRS]
    extra = ["package p; var x = <- <-chan int", "package p; var x = <-chan<- int", "package p; func f(a, b ...int) {}", "package p; func f(a int, b) {}",
             "package p; func f(a, int) {}", "package p; func (a, b int, ...c) f() {}", "package _", "package", "package p; import", "package p; import (",
             "package p; import x", "package p; import . 1", "package p; func f() { go x }", "package p; func f() { defer x }", "package p; func f() { if {} }",
             "package p; func f() { if var x int; x {} }", "package p; func f() { if x := 1 {} }", "package p; func f() { if x {} else 1 }",
             "package p; func f() { for a, b, c := range x {} }", "package p; func f() { switch x := y.(type); x {} }", "package p; func f() { switch x = y.(type) {} }",
             "package p; func f() { switch x := 1 {} }", "package p; func f() { select { case a, b, c := <-x: } }", "package p; func f() { select { case x: } }",
             "package p; func f() { select { case a := b: } }", "package p; func f() { a, b: x }", "package p; func f() { 1: x }", "package p; func f() { a, b++ }",
             "package p; func f() { a, b <- c }", "package p; func f() { a, b := 1 }", "package p; func f() { 1 := 2 }", "package p; func f() { x[ }",
             "package p; func f() { x[1:2:] }", "package p; func f() { x[::] }", "package p; func f() { x[1:2:3:4] }", "package p; func f() { x. }", "package p; func f() { x.( }",
             "package p; type T struct { 1 }", "package p; type T struct { a, b }", "package p; type T interface { 1 }", "package p; type T interface { m( }",
             "package p; type T [", "package p; type T[", "package p; type T[P", "package p; type", "package p; const x", "package p; const ( a; b )", "package p; const x int",
             "package p; var", "package p; var x", "package p; var x,", "package p; func", "package p; func f", "package p; func f(", "package p; func f() (", "package p; func (",
             "package p; var x = func", "package p; var x = map", "package p; var x = map[", "package p; var x = chan", "package p; var x = [", "package p; var x = []", "package p; var x = [...",
             "package p; var x = struct", "package p; var x = interface", "package p; var x = T{", "package p; var x = T{a:", "package p; var x = T{{", "package p; var x = f(a", "package p; var x = f(a...",
             "package p; var x = (", "package p; var x = (a", "package p; var x = *", "package p; var x = a +", "package p; var x = a.", "package p; var x = ~", "package p; 1", "package p; x",
             "package p; func f() { break 1 }", "package p; func f() { goto }", "package p; func f() { return , }", "package p; func f() { var }", "package p; func f() { type }", "package p; func f() { const }",
             "package p; func f() { else }", "package p; func f() { case }", "package p; func f() { switch { x } }", "package p; func f() { switch { case } }", "package p; func f() { switch { default x } }",
             "package p; func f[", "package p; func f[T", "package p; func f[T any", "package p; var x T[", "package p; var x T[]", "package p; var x T[int", "package p; var x pkg.", "package p; var x pkg.1",
             "package p; var x = " + "(" * 70 + "x" + ")" * 70, "package p; var x = " + "- " * 200 + "x", "package p; var x " + "[]" * 70 + "int", "package p; var x = T" + "{" * 70]
    seeds += extra
    pool = list(dict.fromkeys(seeds))
    want = all_sites()
    for r in range(rounds):
        res = vlib.run_records(gm, "site", pool, timeout=1200)
        new = 0
        for src, site in zip(pool, res):
            if site in ("ok", "s", "f") or site.startswith("p") or not site:
                continue
            if site not in best or len(src) < len(best[site]):
                if site not in best:
                    new += 1
                best[site] = src
        hit = {int(k[1:]) for k in best}
        print("round %d: pool %d, sites hit %d / %d (new %d); missing: %s" % (r, len(pool), len(hit & want), len(want), new, sorted(want - hit)))
        # next pool: mutations of the corpus entries
        pool = []
        for site, src in best.items():
            try:
                toks = [(p, t) for p, k, t in pfam.spec_lex(src) if p is not None]
            except ValueError:
                toks = []
            for _ in range(40):
                if not toks:
                    break
                i = rng.randrange(len(toks))
                p, t = toks[i]
                k = rng.randrange(4)
                if k == 0:
                    pool.append(src[:p] + src[p + len(t):])
                elif k == 1:
                    ins = rng.choice(pfam._mut_pool()).text
                    pool.append(src[:p] + ins + " " + src[p:])
                elif k == 2:
                    pool.append(src[:p + len(t)])
                else:
                    ins = rng.choice(pfam._mut_pool()).text
                    pool.append(src[:p] + ins + src[p + len(t):])
        pool = list(dict.fromkeys(pool))
    json.dump(dict(sorted(best.items(), key=lambda kv: (kv[0][0], int(kv[0][1:])))), open(OUT, "w"), indent=0, ensure_ascii=False)
    print("written", OUT, len(best), "entries")


if __name__ == "__main__":
    main()
