#!/usr/bin/env python3
"""Run checks against a seeded change:  seedtest.py <seed-id> <worktree|-> <prop> [<prop>...]
  - takes the source diff of the scratch worktree (git diff -- src) the first time and stores it with the
    demonstration under /verif/seeded/<seed-id>/ ; afterwards uses the stored patch.diff
  - confirms on the scratch worktree that the demo fails with the change and passes without (first time)
  - applies the patch to /repo, runs `tools/check <prop> quick` for each property, undoes the patch
  - records outcome in meta.json"""
import json, os, subprocess, sys, time
ROOT = os.path.dirname(os.path.dirname(os.path.abspath(__file__)))


def sh(cmd, cwd=None, timeout=3600):
    p = subprocess.run(cmd, shell=True, cwd=cwd, capture_output=True, text=True, timeout=timeout)
    return p.returncode, p.stdout + p.stderr


def main():
    sid, wt, props = sys.argv[1], sys.argv[2], sys.argv[3:]
    d = os.path.join(ROOT, "seeded", sid)
    os.makedirs(d, exist_ok=True)
    patch = os.path.join(d, "patch.diff")
    meta_p = os.path.join(d, "meta.json")
    meta = json.load(open(meta_p)) if os.path.exists(meta_p) else {"id": sid}
    if wt != "-" and not os.path.exists(patch):
        rc, out = sh("git diff -- src Cargo.toml", cwd=wt)
        open(patch, "w").write(out)
        for f in os.listdir(os.path.join(wt, "tests")):
            if f.startswith("seeded_"):
                subprocess.run(["cp", os.path.join(wt, "tests", f), d])
                meta["demo"] = f
        if os.path.exists(os.path.join(wt, "SEEDED.md")):
            subprocess.run(["cp", os.path.join(wt, "SEEDED.md"), d])
        # confirm: suite passes with the change, demo fails with and passes without
        rc1, o1 = sh("CARGO_NET_OFFLINE=true cargo test --offline 2>&1 | grep 'test result\\|FAILED\\|failed'", cwd=wt)
        demo = meta.get("demo", "").replace(".rs", "")
        rc2, o2 = sh("CARGO_NET_OFFLINE=true cargo test --offline --test %s 2>&1 | grep 'test result'" % demo, cwd=wt)
        # (not `git stash`: the stash is shared by all worktrees of the repository)
        sh("git apply -R %s" % patch, cwd=wt)
        rc3, o3 = sh("CARGO_NET_OFFLINE=true cargo test --offline --test %s 2>&1 | grep 'test result'" % demo, cwd=wt)
        sh("git apply %s" % patch, cwd=wt)
        meta["confirm"] = {"suite_and_demo_with_change": o1.strip().splitlines(), "demo_with_change": o2.strip(),
                           "demo_without_change": o3.strip()}
        print("confirm:", json.dumps(meta["confirm"], indent=1))
    st = subprocess.run("git -C /repo status --porcelain", shell=True, capture_output=True, text=True).stdout.strip()
    if st:
        print("REFUSING: /repo has uncommitted changes:\n" + st)
        return 2
    rc, out = sh("git -C /repo apply %s" % patch)
    if rc != 0:
        print("patch does not apply:", out)
        return 2
    results = meta.setdefault("checks", {})
    # evidence files must describe runs on the unchanged tree: keep them aside
    saved = {}
    for pr in props:
        ep = os.path.join(ROOT, "evidence", "%s.json" % pr)
        if os.path.exists(ep):
            saved[ep] = open(ep).read()
    try:
        for p in props:
            t = time.time()
            rc, out = sh("tools/check %s quick" % p, cwd=ROOT, timeout=7200)
            lines = [l for l in out.splitlines() if l.startswith(("VIOLATION", "KNOWN-FINDING", "MACHINERY"))]
            vio = [l for l in lines if l.startswith("VIOLATION")]
            results[p] = {"exit": rc, "violations": vio[:4], "wall_s": round(time.time() - t, 1),
                          "caught": rc == 1 and bool(vio),
                          "with_failing_input": any("no-failing-input-found" not in v for v in vio)}
            print(p, "exit", rc, "caught" if results[p]["caught"] else "MISSED", "%.0fs" % (time.time() - t))
            for v in vio[:3]:
                print("   ", v)
                rp = v.split("replay=")[1].split()[0]
                try:
                    o = json.load(open(rp))
                    print("      ", (o.get("oracle") or o.get("what") or "")[:200] if not isinstance(o.get("what"), list) else o.get("what"))
                    print("       input:", repr(o.get("input", ""))[:200])
                    subprocess.run(["rm", "-f", rp])
                except Exception as e:
                    print("      (replay unreadable: %s)" % e)
    finally:
        sh("git -C /repo checkout -- .")
        for ep, text in saved.items():
            open(ep, "w").write(text)
    json.dump(meta, open(meta_p, "w"), indent=1)
    return 0


if __name__ == "__main__":
    sys.exit(main())
