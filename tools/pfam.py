"""Input families, projections and spec oracles for the parser-level properties.

A canonical line (harness/src/walk.rs, coq/theories/Entry.v) is
   "OK <tree> | <comments>"  |  "ERR u <line> <col> <tok>"  |  "ERR e <line> <col>"
   |  "PANIC ..."  |  "FUEL"
with tree = (Tag @pos.. attr.. #[docs] kid..).  Text inside attributes and
comments is escaped with \\u{hex} for every character outside [!-~] minus "()\\|#@".
"""
import os
import random
import re
import sys

HERE = os.path.dirname(os.path.abspath(__file__))
sys.path.insert(0, os.path.join(HERE, "gen"))
import gogen   # noqa: E402
import sexpr   # noqa: E402

_ESC = re.compile(r"\\u\{([0-9a-fA-F]+)\}")


def unesc(s):
    return _ESC.sub(lambda m: chr(int(m.group(1), 16)), s)


# ------------------------------------------------------------------ line projections

def outcome(line):
    return line.split(" ", 1)[0] if line else "EMPTY"


def split_ok(line):
    """'OK tree | comments' -> (tree_text, comments_text); None otherwise"""
    if not line.startswith("OK "):
        return None
    body = line[3:]
    i = body.rfind(") | ")
    if i < 0:
        if body.endswith(") |"):
            return body[:-2], ""
        return body, None
    return body[:i + 1], body[i + 4:]


def parse_comments(text):
    """'p:text p:text' -> [(pos, text)]"""
    out = []
    for w in (text or "").split():
        p, _, t = w.partition(":")
        out.append((int(p), unesc(t)))
    return out


def tree_of(line):
    so = split_ok(line)
    if so is None:
        return None
    return sexpr.parse(so[0])


def proj_shape(line):
    so = split_ok(line)
    if so is None:
        return outcome(line)
    return sexpr.dump(sexpr.parse(so[0]))


def proj_positions(line):
    so = split_ok(line)
    if so is None:
        return outcome(line)
    return sexpr.dump(sexpr.parse(so[0]), keep_pos=True, keep_empty=True)


def proj_docs(line):
    so = split_ok(line)
    if so is None:
        return outcome(line)
    return sexpr.dump(sexpr.parse(so[0]), keep_docs=True)


def proj_comments(line):
    so = split_ok(line)
    if so is None:
        return outcome(line)
    return "OK | " + (so[1] or "")


def proj_errloc(line):
    return line if not line.startswith("OK ") else "OK"


def proj_outcome(line):
    return outcome(line)


def proj_full(line):
    return line


PROJ = {"shape": proj_shape, "positions": proj_positions, "docs": proj_docs, "comments": proj_comments,
        "errloc": proj_errloc, "outcome": proj_outcome, "full": proj_full}


# ------------------------------------------------------------------ token lines (gv tokens)

def parse_token_line(line):
    """'p:Ktext p:Otext ... | EOF end=n | lines' -> ([(pos, kind, text)], end_word, rest)"""
    if line.startswith("| "):
        toks, rest = "", line[2:]
    else:
        toks, _, rest = line.partition(" | ")
    out = []
    for w in toks.split():
        p, _, kt = w.partition(":")
        out.append((int(p), kt[0], unesc(kt[1:])))
    return out, rest


# ------------------------------------------------------------------ families

STYLES = gogen.STYLES


class Case(object):
    __slots__ = ("src", "family", "prog", "style", "expected", "note")

    def __init__(self, src, family, prog=None, style=None, expected=None, note=None):
        self.src, self.family, self.prog, self.style, self.expected, self.note = src, family, prog, style, expected, note


def gen_programs(seed, n, budgets=(15, 40, 60, 100), max_depth=12):
    """n generated programs (gogen.Program) with deterministic per-program seeds"""
    labels = set(gogen.coverage_labels())
    hit = set()
    out = []
    for i in range(n):
        rng = random.Random(seed * 1000003 + i)
        p = gogen.gen_program(rng, budgets[i % len(budgets)], max_depth, labels - hit)
        hit |= p.features
        out.append((rng, p))
    return out, hit, labels


def valid_cases(progs, styles):
    cases = []
    for i, (rng, p) in enumerate(progs):
        for st in styles:
            cases.append(Case(gogen.render(p.tokens, rng, st), "F-valid", i, st, p.expected_shape))
    return cases


_MUT_POOL = None


def _mut_pool():
    global _MUT_POOL
    if _MUT_POOL is None:
        ops = ['+', '-', '*', '/', '%', '&', '|', '^', '<<', '>>', '&^', '+=', '-=', '*=', '/=', '%=', '&=', '|=', '^=',
               '<<=', '>>=', '&^=', '&&', '||', '<-', '++', '--', '==', '<', '>', '=', '!', '~', '!=', '<=', '>=', ':=',
               '...', '(', ')', '[', ']', '{', '}', ',', ';', '.', ':']
        kws = ['break', 'case', 'chan', 'const', 'continue', 'default', 'defer', 'else', 'fallthrough', 'for', 'func',
               'go', 'goto', 'if', 'import', 'interface', 'map', 'package', 'range', 'return', 'select', 'struct',
               'switch', 'type', 'var']
        lits = [('ident', 'x'), ('ident', '_'), ('ident', 'T'), ('int', '1'), ('float', '1.5'), ('imag', '2i'),
                ('rune', "'a'"), ('string', '"s"'), ('string', '`r`')]
        _MUT_POOL = [gogen.Tok('op', o) for o in ops] + [gogen.Tok('kw', k) for k in kws] + \
                    [gogen.Tok(k, t) for k, t in lits]
    return _MUT_POOL


def mutate_tokens(rng, tokens, nmut):
    toks = list(tokens)
    for _ in range(nmut):
        if not toks:
            break
        k = rng.randrange(5)
        i = rng.randrange(len(toks))
        if k == 0:
            del toks[i]
        elif k == 1:
            toks.insert(i, rng.choice(_mut_pool()))
        elif k == 2:
            toks.insert(i, toks[i])
        elif k == 3 and len(toks) > 1:
            j = rng.randrange(len(toks))
            toks[i], toks[j] = toks[j], toks[i]
        else:
            toks[i] = rng.choice(_mut_pool())
    return toks


def mutant_cases(progs, per_prog=2, styles=("canonical", "newlines", "random")):
    cases = []
    for i, (rng, p) in enumerate(progs):
        for k in range(per_prog):
            toks = mutate_tokens(rng, p.tokens, 1 + rng.randrange(3))
            st = styles[(i + k) % len(styles)]
            try:
                src = gogen.render(toks, rng, st)
            except Exception:
                src = " ".join(t.text for t in toks)
            cases.append(Case(src, "F-mut", i, st))
    return cases


def soup_cases(seed, n, maxlen=24):
    rng = random.Random(seed ^ 0x50ff)
    pool = _mut_pool()
    cases = []
    for i in range(n):
        ln = 1 + rng.randrange(maxlen)
        toks = [rng.choice(pool) for _ in range(ln)]
        head = "package p\n" if rng.random() < 0.7 else ""
        sep = rng.choice([" ", " ", "\n"])
        cases.append(Case(head + sep.join(t.text for t in toks), "F-soup"))
    return cases


_BYTE_ALPHA = "ab_ 09\n\t\"'`\\/*.+-<=&|^%!~:;,()[]{}xXeEpPiI\u00e9\u65e5\U0001F600\r\ufeff\x00\x7f\u0663\uff12\U0001D7CE"


def bytes_cases(seed, n, maxlen=40):
    rng = random.Random(seed ^ 0xb17e5)
    cases = []
    for i in range(n):
        ln = rng.randrange(maxlen)
        s = "".join(rng.choice(_BYTE_ALPHA) for _ in range(ln))
        if rng.random() < 0.5:
            s = "package p;" + s
        elif rng.random() < 0.5:
            s = "package p\n\nvar x = " + s
        cases.append(Case(s, "F-bytes"))
    return cases


# ------------------------------------------------------------------ source-side lexing helpers

def lexeme_at(src, pos, text):
    return src[pos:pos + len(text)] == text


# ------------------------------------------------------------------ spec oracles on one (source, line)
# Each oracle returns None when the property holds on this case, else a short text.

_KW = {"Go": "go", "Defer": "defer", "If": "if", "For": "for", "Return": "return", "Switch": "switch",
       "TypeSwitch": "switch", "Select": "select", "Range": "range", "TypeInterface": "interface",
       "DeclVar": "var", "DeclConst": "const", "DeclType": "type"}
_PAIR = {"Call": "()", "Index": "[]", "IndexList": "[]", "Slice": "[]", "Paren": "()", "TypeMap": "[]",
         "TypeArray": "[]", "TypeSlice": "[]", "TypeStruct": "{}", "LiteralValue": "{}", "Block": "{}",
         "CaseBlock": "{}", "CommBlock": "{}"}
# children that lie strictly between the two bracket positions (None = all)
_INNER = {"Call": (1, 2), "Index": (1,), "IndexList": (1,), "Slice": (1, 2, 3), "Paren": None, "TypeMap": (0,),
          "TypeArray": (0,), "TypeSlice": (), "TypeStruct": None, "LiteralValue": None, "Block": None,
          "CaseBlock": None, "CommBlock": None, "TypeAssert": (1,), "FieldList": None}


_PREFIX_TAGS = {"Star", "TypePointer", "Ellipsis", "Range", "Go", "Defer", "Return", "If", "For", "RangeStmt", "Switch",
                "TypeSwitch", "Select", "Branch", "TypeInterface", "Paren", "TypeMap", "TypeArray", "TypeSlice", "TypeStruct",
                "LiteralValue", "Block", "CaseBlock", "CommBlock", "CaseClause", "CommClause", "DeclVar", "DeclConst", "DeclType"}
_INFIX_TAGS = {"Assign", "Send", "Selector", "Label", "IncDec", "Call", "Index", "IndexList", "Slice", "TypeAssert"}


def _attr(n, prefix):
    for a in n.attrs:
        if a.startswith(prefix):
            return unesc(a[len(prefix):])
    return None


def _all_positions(n, out):
    stack = [n]
    while stack:
        x = stack.pop()
        if x.tag != "Empty":      # an empty statement names no lexeme (synthetic ';', or the '}' that ends the list)
            out.extend(int(p[1:]) for p in x.pos)
        stack.extend(x.kids)
    return out


def expected_lexemes(n):
    """per position of node n: expected lexeme string, or None when the position names no lexeme"""
    t = n.tag
    np_ = len(n.pos)
    if t in ("Ident", "StringLit"):
        return [_attr(n, "s:")]
    if t == "BasicLit":
        return [_attr(n, "s:")]
    if t in _PAIR and np_ == 2:
        return list(_PAIR[t])
    if t in _KW:
        kw = _KW[t]
        if t.startswith("Decl"):
            return [kw, "(", ")"][:np_]
        return [kw]
    if t == "FuncType":
        return ["func"][:np_]
    if t in ("Operation", "IncDec", "Assign"):
        return [_attr(n, "o:")]
    if t == "Send":
        return ["<-"]
    if t == "Branch":
        return [_attr(n, "k:")]
    if t in ("CaseClause", "CommClause"):
        return [_attr(n, "k:"), ":"]
    if t == "Ellipsis":
        return ["..."]
    if t == "Selector":
        return ["."]
    if t in ("Star", "TypePointer"):
        return ["*"]
    if t == "TypeAssert":
        return [".", ")"]
    if t == "Label":
        return [":"]
    if t == "RangeStmt":
        return ["for", "range"]
    if t == "Pos":
        o = _attr(n, "o:")
        return [o if o is not None else "..."]
    if t == "TypeChannel":
        d = _attr(n, "d:")
        return ["chan", "<-" if d != "0" else None]
    if t == "FieldList":
        return None  # handled by the caller: one of () [] {}
    if t == "Empty":
        return [None]
    return [None] * np_


def positions_ok(src, tree):
    """C05: every position is the char offset of the lexeme it names; pairs open before close;
    inner children strictly between; identifier/literal leaves in source order"""
    stack = [tree]
    last_leaf = -1
    order = []
    named = {}
    # pre-order traversal = source order of leaves (children are listed in source order)
    def walk(n):
        todo = [n]
        while todo:
            x = todo.pop()
            yield x
            todo.extend(reversed(x.kids))
    for n in walk(tree):
        ps = [int(p[1:]) for p in n.pos]
        if n.tag == "FieldList":
            if len(ps) == 2:
                o = src[ps[0]:ps[0] + 1]
                want = {"(": ")", "[": "]", "{": "}"}.get(o)
                if want is None or src[ps[1]:ps[1] + 1] != want:
                    return "FieldList brackets @%d @%d name %r %r" % (ps[0], ps[1], o, src[ps[1]:ps[1] + 1])
        else:
            exp = expected_lexemes(n)
            if len(exp) != len(ps):
                return "%s has %d positions, %d expected" % (n.tag, len(ps), len(exp))
            for p, e in zip(ps, exp):
                if e is not None and not lexeme_at(src, p, e):
                    return "%s position @%d: expected %r, source has %r" % (n.tag, p, e, src[p:p + max(1, len(e))])
                if p > len(src):
                    return "%s position @%d beyond the source" % (n.tag, p)
        if len(ps) >= 2 and n.tag not in ("RangeStmt", "CaseClause", "CommClause", "TypeChannel") or \
                (n.tag == "TypeChannel" and _attr(n, "d:") != "0" and len(ps) == 2 and False):
            a, b = ps[-2], ps[-1]
            if not a < b:
                return "%s pair not ordered: @%d @%d" % (n.tag, a, b)
            inner = _INNER.get(n.tag, ())
            kids = n.kids if inner is None else [n.kids[i] for i in inner if i < len(n.kids)]
            for k in kids:
                for q in _all_positions(k, []):
                    if not a < q < b:
                        return "%s: position @%d of a child is not strictly between @%d and @%d" % (n.tag, q, a, b)
        # order of a node's own positions relative to its children
        if ps and n.tag != "Empty":
            kidpos = [_all_positions(k, []) for k in n.kids]
            allk = [q for kp in kidpos for q in kp]
            t = n.tag
            unary_op = t == "Operation" and len(n.kids) > 1 and n.kids[1].tag == "None"
            if t in _PREFIX_TAGS or unary_op or (t == "FuncType"):
                if any(q <= ps[0] for q in allk):
                    return "%s @%d does not precede all positions of its children" % (t, ps[0])
            elif t in _INFIX_TAGS or (t == "Operation" and not unary_op):
                if kidpos and any(q >= ps[0] for q in kidpos[0]):
                    return "%s @%d does not follow its first child" % (t, ps[0])
                if any(q <= ps[0] for kp in kidpos[1:] for q in kp):
                    return "%s @%d does not precede its later children" % (t, ps[0])
            elif t == "TypeChannel":
                d = _attr(n, "d:")
                if any(q <= ps[0] for q in allk):
                    return "TypeChannel: element type not after chan @%d" % ps[0]
                if d == "2" and not ps[1] < ps[0]:
                    return "TypeChannel <-chan: arrow @%d not before chan @%d" % (ps[1], ps[0])
                if d == "1" and (not ps[0] < ps[1] or any(q <= ps[1] for q in allk)):
                    return "TypeChannel chan<-: arrow @%d not between chan @%d and the element type" % (ps[1], ps[0])
        # no two nodes name the same lexeme
        if n.tag != "FieldList":
            exp2 = expected_lexemes(n)
            for p_, e_ in zip(ps, exp2 if len(exp2) == len(ps) else []):
                if e_ is not None and n.tag not in ("Ident", "BasicLit", "StringLit"):
                    if p_ in named:
                        return "%s and %s both name the lexeme at @%d" % (named[p_], n.tag, p_)
                    named[p_] = n.tag
        if n.tag in ("Ident", "BasicLit", "StringLit") and ps:
            if ps[0] <= last_leaf:
                return "leaf %s @%d is not after the previous leaf @%d (siblings out of source order)" % (n.tag, ps[0], last_leaf)
            last_leaf = ps[0]
    return None


_LEAF_KINDS = "INFMRS"   # ident, integer, float, imaginary, rune, string


def leaves_of(tree):
    out = []
    todo = [tree]
    while todo:
        x = todo.pop()
        if x.tag in ("Ident", "BasicLit", "StringLit") and x.pos:
            out.append((int(x.pos[0][1:]), _attr(x, "s:")))
        todo.extend(reversed(x.kids))
    return out


def accounted(src, tree, toks):
    """C06: identifier and literal tokens == leaves (same text, same offset, each once, in order);
    brackets of the token stream are properly nested"""
    want = [(p, t) for p, k, t in toks if k in _LEAF_KINDS]
    have = [(p, t) for p, t in leaves_of(tree) if t != "."]     # import . "x": the dot is an operator token
    if want != have:
        sw, sh = set(want), set(have)
        miss = sorted(sw - sh)[:3]
        extra = sorted(sh - sw)[:3]
        if miss or extra:
            return "tokens not in the tree: %r; leaves not in the source: %r" % (miss, extra)
        return "leaves are the source's tokens but in another order or multiplicity"
    stack = []
    close = {")": "(", "]": "[", "}": "{"}
    for p, k, t in toks:
        if k != "O":
            continue
        if t in "([{" and len(t) == 1:
            stack.append(t)
        elif t in close:
            if not stack or stack.pop() != close[t]:
                return "bracket %r at %d does not close the innermost open bracket" % (t, p)
    if stack:
        return "unclosed bracket(s) %r" % "".join(stack)
    # package clause first
    real = [(p, k, t) for p, k, t in toks if k != "C"]
    if not real or real[0][1:] != ("K", "package"):
        return "source does not start with a package clause"
    # imports before any other declaration: at bracket depth 0 no `import` keyword after a func/var/const/type keyword
    depth, seen_decl = 0, None
    for p, k, t in real:
        if k == "O" and t in ("(", "[", "{"):
            depth += 1
        elif k == "O" and t in (")", "]", "}"):
            depth -= 1
        elif k == "K" and depth == 0:
            if t in ("func", "var", "const", "type"):
                seen_decl = seen_decl if seen_decl is not None else p
            elif t == "import" and seen_decl is not None:
                return "import declaration at %d after another declaration (at %d)" % (p, seen_decl)
    return None


def comments_ok(line, toks):
    """C11: File.comments == all comment tokens of the source, in order, verbatim"""
    so = split_ok(line)
    want = [(p, t) for p, k, t in toks if k == "C"]
    have = parse_comments(so[1])
    if want != have:
        return "comment tokens %d, listed %d; first difference: %r" % (
            len(want), len(have), next(((a, b) for a, b in zip(want + [None] * len(have), have + [None] * len(want)) if a != b), None))
    return None


# ------------------------------------------------------------------ spec lexer with offsets (C07, C08)

import unicodedata  # noqa: E402


_D = r"[0-9](?:_?[0-9])*"
_H = r"[0-9a-fA-F](?:_?[0-9a-fA-F])*"
_E = r"[eE][+-]?" + _D
_FLOATS = [r"0[xX](?:_?%s\.(?:%s)?|_?%s|\.%s)[pP][+-]?%s" % (_H, _H, _H, _H, _D),
           r"%s\.(?:%s)?(?:%s)?" % (_D, _D, _E), r"%s%s" % (_D, _E), r"\.%s(?:%s)?" % (_D, _E)]
_INTS = [r"0[bB](?:_?[01])+", r"0[oO](?:_?[0-7])+", r"0[xX](?:_?[0-9a-fA-F])+", r"0(?:_?[0-7])+", r"[1-9](?:_?%s)?" % _D, r"0"]
# the spec's numeric literals, longest alternative first within each class; an imaginary literal is a decimal
# digit run, an int_lit or a float_lit followed by i
_SPEC_NUM_ALTS = [a + "i" for a in _FLOATS + _INTS + [_D]] + _FLOATS + _INTS


class _Longest(object):
    def __init__(self, alts):
        self.res = [re.compile(a) for a in alts]

    def match(self, s, i):
        best = None
        for r in self.res:
            m = r.match(s, i)
            if m and (best is None or m.end() > best.end()):
                best = m
        return best


_SPEC_NUM = _Longest(_SPEC_NUM_ALTS)


def _is_letter(c):
    return c == "_" or unicodedata.category(c) in ("Lu", "Ll", "Lt", "Lm", "Lo")


_KIND_OF = {"ident": "I", "int": "N", "float": "F", "imag": "M", "rune": "R", "string": "S", "kw": "K", "op": "O"}
_WS = " \t\r\n"


def spec_lex(src):
    """Go-spec tokenisation of src: [(pos|None, kind, text)] with comments (kind C) and automatically
    inserted semicolons (pos None, kind O, text ';').  Raises ValueError on a lexical error.
    White space is the spec's: blank, tab, CR, LF."""
    out = []
    i, n = 0, len(src)
    trig = False

    def asi():
        nonlocal trig
        if trig:
            out.append((None, "O", ";"))
        trig = False
    while i < n:
        c = src[i]
        if c == "\n":
            asi()
            i += 1
            continue
        if c in " \t\r":
            i += 1
            continue
        if src.startswith("//", i):
            j = src.find("\n", i)
            j = n if j < 0 else j
            asi()                       # the line comment runs to the line end: the line ends here
            out.append((i, "C", src[i:j]))
            i = j
            continue
        if src.startswith("/*", i):
            j = src.find("*/", i + 2)
            if j < 0:
                raise ValueError("unterminated comment at %d" % i)
            text = src[i:j + 2]
            if "\n" in text:
                asi()
            elif trig:
                # a general comment without newline acts like a blank: the decision is made by what follows
                k = j + 2
                if _line_ends(src, k):
                    asi()
            out.append((i, "C", text))
            i = j + 2
            continue
        if _is_letter(c):
            j = i + 1
            while j < n and (_is_letter(src[j]) or unicodedata.category(src[j]) == "Nd"):
                j += 1
            w = src[i:j]
            kind = "kw" if w in gogen._KEYWORDS else "ident"
            out.append((i, _KIND_OF[kind], w))
            trig = kind == "ident" or w in gogen._ASI_KW
            i = j
            continue
        if c in "0123456789" or (c == "." and i + 1 < n and src[i + 1] in "0123456789"):
            m = _SPEC_NUM.match(src, i)
            if not m:
                raise ValueError("bad number at %d" % i)
            w = m.group()
            kind = "imag" if w.endswith("i") else (
                "float" if re.search(r"[.pP]", w) or (not w.startswith(("0x", "0X")) and re.search(r"[eE]", w)) else "int")
            out.append((i, _KIND_OF[kind], w))
            trig = True
            i = m.end()
            continue
        if c in '"`':
            m = _match_string(src, i)
            if not m:
                raise ValueError("bad string at %d" % i)
            out.append((i, "S", m.group()))
            trig = True
            i = m.end()
            continue
        if c == "'":
            m = _match_rune(src, i)
            if not m:
                raise ValueError("bad rune at %d" % i)
            out.append((i, "R", m.group()))
            trig = True
            i = m.end()
            continue
        for o in gogen._OPS_BY_LEN:
            if src.startswith(o, i):
                out.append((i, "O", o))
                trig = o in gogen._ASI_OP
                i += len(o)
                break
        else:
            raise ValueError("unexpected character %r at %d" % (c, i))
    asi()
    return out


# the spec's rune and string literals, exactly (escapes: simple, 3 octal digits <= 255, \\x + 2 hex, \\u + 4 hex,
# \\U + 8 hex; \\u / \\U values are Unicode scalar values; \\' only in runes, \\" only in strings)
_ESCAPE = r"\\(?:[abfnrtv\\%s]|[0-3][0-7]{2}|x[0-9a-fA-F]{2}|u[0-9a-fA-F]{4}|U[0-9a-fA-F]{8})"
_RUNE_RE = re.compile(r"'(?:[^'\\\n]|" + _ESCAPE % "'" + r")'")
_ISTR_RE = re.compile(r'"(?:[^"\\\n]|' + _ESCAPE % '"' + r')*"')
_RAW_RE = re.compile(r"`[^`]*`", re.S)
_UESC = re.compile(r"\\(?:\\|u([0-9a-fA-F]{4})|U([0-9a-fA-F]{8}))")


def _scalar_escapes_ok(text):
    for m in _UESC.finditer(text):
        h = m.group(1) or m.group(2)
        if h is None:
            continue
        v = int(h, 16)
        if v > 0x10FFFF or 0xD800 <= v <= 0xDFFF:
            return False
    return True


def _match_rune(src, i):
    m = _RUNE_RE.match(src, i)
    return m if m and _scalar_escapes_ok(m.group()) else None


def _match_string(src, i):
    if src[i] == "`":
        return _RAW_RE.match(src, i)
    m = _ISTR_RE.match(src, i)
    return m if m and _scalar_escapes_ok(m.group()) else None


def _line_ends(src, k):
    """only blanks and comments up to the line end (spec: a general comment without newline is a blank)"""
    n = len(src)
    while k < n:
        c = src[k]
        if c == "\n":
            return True
        if c in " \t\r":
            k += 1
            continue
        if src.startswith("//", k):
            return True
        if src.startswith("/*", k):
            j = src.find("*/", k + 2)
            if j < 0:
                return True
            if "\n" in src[k:j]:
                return True
            k = j + 2
            continue
        return False
    return True


def tokens_vs_spec(src, token_line, with_comments=True):
    """C07/C08 oracle: the crate's token dump against the spec tokenisation.  The crate emits a synthetic
    ';' BEFORE trailing comments of the line; the spec lexer above places it where the decision is made, so
    the comparison is on (a) the sequence without comments and (b) the comments with their offsets."""
    toks, rest = parse_token_line(token_line)
    try:
        want = spec_lex(src)
    except ValueError as e:
        if rest.startswith("EOF"):
            return "spec: %s, but the crate scanned to the end" % e
        return None
    for p, k, t in want:
        # a number directly followed by a letter, digit, '_' or '.': the literal grammar alone does not settle
        # where the number ends (C09 states its theorems for delimited runs); not judged here
        if k in "NFM" and p is not None and p + len(t) < len(src) and (
                _is_letter(src[p + len(t)]) or src[p + len(t)] in "0123456789."):
            return None
    if not rest.startswith("EOF"):
        return "spec tokenises the whole input, the crate stops with: %s" % rest[:60]
    have_nc = [(k, t) for p, k, t in toks if k != "C"]
    want_nc = [(k, t) for p, k, t in want if k != "C"]
    if have_nc != want_nc:
        i = next((i for i, (a, b) in enumerate(zip(have_nc + [None] * len(want_nc), want_nc + [None] * len(have_nc))) if a != b), -1)
        return "token %d: crate %r, spec %r" % (i, have_nc[i] if i < len(have_nc) else None, want_nc[i] if i < len(want_nc) else None)
    # offsets of the real tokens: the k-th real token of the crate must sit where the spec found it
    have_real = [(p, k, t) for p, k, t in toks if not (k == "O" and t == ";" and not lexeme_at(src, p, ";"))]
    want_real = [(p, k, t) for p, k, t in want if p is not None]
    if not with_comments:
        have_real = [x for x in have_real if x[1] != "C"]
        want_real = [x for x in want_real if x[1] != "C"]
    hs, ws = sorted(have_real), sorted(want_real)
    if hs != ws:
        d = [x for x in hs if x not in ws][:2] + [x for x in ws if x not in hs][:2]
        return "token offsets/texts differ: %r" % (d,)
    for p, k, t in have_real:
        if not lexeme_at(src, p, t):
            return "token text %r is not the source text at %d" % (t, p)
    return None


REPR_TOKENS = (
    ["+", "-", "*", "/", "%", "&", "|", "^", "<<", ">>", "&^", "+=", "-=", "*=", "/=", "%=", "&=", "|=", "^=", "<<=",
     ">>=", "&^=", "&&", "||", "<-", "++", "--", "==", "<", ">", "=", "!", "~", "!=", "<=", ">=", ":=", "...", "(", ")",
     "[", "]", "{", "}", ",", ";", ".", ":"] +
    ["break", "case", "chan", "const", "continue", "default", "defer", "else", "fallthrough", "for", "func", "go",
     "goto", "if", "import", "interface", "map", "package", "range", "return", "select", "struct", "switch", "type",
     "var"] +
    ["x", "_", "forx", "iff", "func1", "été", "日本", "x٣", "0", "17", "0x1F", "0b101", "0o17",
     "017", "1_000", "1.5", "1e9", ".25", "0x1p-2", "3i", "0x1Fi", "1.e2", "'a'", "'\\n'", "'\\u65e5'", "'日'",
     '"s"', '"\\"q\\""', "`r`", "`a\nb`"])
SEPARATORS = ["", " ", "\t", "\n", "/*c*/", "//c\n"]


def lexpair_cases():
    out = []
    for a in REPR_TOKENS:
        for b in REPR_TOKENS:
            for s in SEPARATORS:
                out.append(Case(a + s + b, "F-lexpairs"))
    return out


SEMI_CONTEXTS = ["\n", "\r\n", "", "  \t\n", " // c\n", " /* c */\n", " /* a\n b */ y", " /* c */ y", "/*c*//*d*/\n",
                 " /* c */ // d\ny", " y\n"]


def semi_cases():
    kinds = REPR_TOKENS[:48 + 25] + ["x", "17", "1.5", "3i", "'a'", '"s"', "`r`"]
    return [Case(t + c, "F-semi", note=t) for t in kinds for c in SEMI_CONTEXTS]


# ------------------------------------------------------------------ C04: operator families and grouping oracle

BINOPS = ["||", "&&", "==", "!=", "<", "<=", ">", ">=", "+", "-", "|", "^", "*", "/", "%", "<<", ">>", "&", "&^"]
UNOPS = ["+", "-", "!", "^", "*", "&", "<-"]
PREC = {"||": 1, "&&": 2, "==": 3, "!=": 3, "<": 3, "<=": 3, ">": 3, ">=": 3, "+": 4, "-": 4, "|": 4, "^": 4,
        "*": 5, "/": 5, "%": 5, "<<": 5, ">>": 5, "&": 5, "&^": 5}
POSTFIX = [(".f", lambda x: "(Selector %s (Ident s:f))" % x),
           ("[i]", lambda x: "(Index %s (Ident s:i))" % x),
           ("(y)", lambda x: "(Call %s (List (Ident s:y)) (None))" % x),
           (".(T)", lambda x: "(TypeAssert %s (Ident s:T))" % x),
           ("[i:j]", lambda x: "(Slice %s (Ident s:i) (Ident s:j) (None))" % x),
           ("()", lambda x: "(Call %s (List) (None))" % x)]


OPERANDS = [("1", "(BasicLit l:N s:1)"), ("1.5", "(BasicLit l:F s:1.5)"), ("2i", "(BasicLit l:M s:2i)"), ("'c'", "(BasicLit l:R s:'c')"),
            ('"s"', '(BasicLit l:S s:"s")'), ("`r`", "(BasicLit l:S s:`r`)"), ("(a)", "(Paren (Ident s:a))"),
            ("T{}", "(CompositeLit (Ident s:T) (LiteralValue))"), ("func(){}", "(FuncLit (FuncType (FieldList) (FieldList) (FieldList)) (Block))"),
            ("[]int(a)", "(Call (TypeSlice (Ident s:int)) (List (Ident s:a)) (None))"),
            ("map[K]V{}", "(CompositeLit (TypeMap (Ident s:K) (Ident s:V)) (LiteralValue))"),
            ("a.b", "(Selector (Ident s:a) (Ident s:b))"), ("a[0]", "(Index (Ident s:a) (BasicLit l:N s:0))")]


def group_spec(items):
    """items: operand shape strings alternating with binary operator strings; returns the shape the Go spec
    dictates (5 levels, left associative), by the textbook shunting reduction — independent of the crate"""
    out = [items[0]]
    ops = []

    def reduce_():
        o = ops.pop()
        r = out.pop()
        l = out.pop()
        out.append("(Operation o:%s %s %s)" % (o, l, r))
    i = 1
    while i < len(items):
        o = items[i]
        while ops and PREC[ops[-1]] >= PREC[o]:
            reduce_()
        ops.append(o)
        out.append(items[i + 1])
        i += 2
    while ops:
        reduce_()
    return out[0]


def _id(k):
    return "(Ident s:%s)" % "abcdefgh"[k]


def ops_cases(quadruples=False, seed=1, nrandom=500):
    cases = []
    names = "abcdefgh"
    import itertools
    for n in (1, 2, 3) + ((4,) if quadruples else ()):
        for combo in itertools.product(BINOPS, repeat=n):
            src = names[0]
            items = [_id(0)]
            for k, o in enumerate(combo):
                src += " " + o + " " + names[k + 1]
                items += [o, _id(k + 1)]
            cases.append(Case(src, "F-ops-%d" % n, expected=group_spec(items)))
    # every unary operator in every operand slot of every binary operator
    for u in UNOPS:
        ux = lambda x: "(Operation o:%s %s (None))" % (u, x)
        for o in BINOPS:
            cases.append(Case("%s a %s b" % (u, o), "F-ops-unary", expected=group_spec([ux(_id(0)), o, _id(1)])))
            cases.append(Case("a %s %s b" % (o, u), "F-ops-unary", expected=group_spec([_id(0), o, ux(_id(1))])))
        for text, mk in POSTFIX:
            cases.append(Case("%s a%s" % (u, text), "F-ops-postfix", expected=ux(mk(_id(0)))))
        for u2 in UNOPS:
            if (u + u2) in ("++", "--", "&&", "<-<-"[:0] or "~~"):
                continue
            cases.append(Case("%s %s a" % (u, u2), "F-ops-unary",
                              expected="(Operation o:%s (Operation o:%s %s (None)) (None))" % (u, u2, _id(0))))
    # unary operators bind to the whole primary expression, whatever its operand is: every operand kind (literals of
    # every kind, parenthesised, composite and function literals, conversions) x postfix form x unary operator, alone
    # and as either operand of a binary operator
    for otext, oshape in OPERANDS:
        for text, mk in POSTFIX:
            prim, pshape = otext + " " + text, mk(oshape)
            cases.append(Case(prim, "F-ops-operand", expected=pshape))
            for u in UNOPS:
                ushape = "(Operation o:%s %s (None))" % (u, pshape)
                cases.append(Case("%s %s" % (u, prim), "F-ops-operand", expected=ushape))
                cases.append(Case("%s%s" % (u, prim.replace(" ", "", 1)) if not otext[0].isdigit() else "%s%s" % (u, prim), "F-ops-operand", expected=ushape))
                for o in ("+", "*", "||", "&^"):
                    cases.append(Case("z %s %s %s" % (o, u, prim), "F-ops-operand", expected=group_spec(["(Ident s:z)", o, ushape])))
                    cases.append(Case("%s %s %s z" % (u, prim, o), "F-ops-operand", expected=group_spec([ushape, o, "(Ident s:z)"])))
    # redundant and needed parentheses
    rng = random.Random(seed)
    for _ in range(nrandom):
        n = 2 + rng.randrange(5)
        ops_ = [rng.choice(BINOPS) for _ in range(n)]
        items = [_id(0)]
        for k, o in enumerate(ops_):
            items += [o, _id(k + 1)]
        # choose a sub-range to parenthesise
        lo = rng.randrange(n)
        hi = lo + 1 + rng.randrange(n - lo)
        inner = items[2 * lo: 2 * hi + 1]
        pshape = "(Paren %s)" % group_spec(inner)
        outer = items[:2 * lo] + [pshape] + items[2 * hi + 1:]
        toks = []
        for k, it in enumerate(items):
            t = names[k // 2] if k % 2 == 0 else it
            if k == 2 * lo:
                t = "(" + t
            if k == 2 * hi:
                t = t + ")"
            toks.append(t)
        cases.append(Case(" ".join(toks), "F-ops-paren", expected=group_spec(outer)))
    return cases


def oracle_expected_shape(c, line, tl=None):
    if c.expected is None:
        return None
    if not line.startswith("OK "):
        return "valid input rejected: %s" % line[:80]
    sh = proj_shape(line)
    if sh != c.expected:
        return "shape differs from the spec derivation: " + sexpr.first_diff(c.expected, sh)
    return None


# ------------------------------------------------------------------ C16: error locations

def true_loc(src, p):
    line = 1 + src.count("\n", 0, p)
    last = src.rfind("\n", 0, p)
    return line, p - (last + 1)


def adj_line(l):
    """KF-21 (pinned by the crate's unit tests): after line 1 the reported line is the true line - 1"""
    return 1 if l == 1 else l - 1


def errloc_ok(src, line):
    """C16 oracle. returns (None | message, needs_adj) — needs_adj: the location is right only modulo KF-21"""
    if line.startswith("OK "):
        return None, False
    f = line.split(" ")
    if f[0] != "ERR" or len(f) < 4 or f[1] not in ("u", "e"):
        return "rejection is not a located gosyn::Error: %s" % line[:80], False
    l, c = int(f[2]), int(f[3])
    n = len(src)
    cands = []          # (p, exact?)
    for p in range(n + 1):
        tl, tc = true_loc(src, p)
        if tc != c:
            continue
        if tl == l:
            cands.append((p, True))
        elif adj_line(tl) == l:
            cands.append((p, False))
    if not cands:
        return "location (%d, %d) is no position of the input" % (l, c), False
    if f[1] == "u":
        tok = f[4] if len(f) > 4 else "EOF"
        if tok == "EOF":
            ok = [(p, e) for p, e in cands if p == n]
            if not ok:
                return "unexpected EOF reported at (%d, %d), not at the end of input" % (l, c), False
        else:
            text = unesc(tok.partition(":")[2][1:])
            ok = [(p, e) for p, e in cands if lexeme_at(src, p, text) or (text == ";" and _line_ends(src, p))]
            if not ok:
                return "unexpected token %r is not found at (%d, %d)" % (text, l, c), False
        cands = ok
    return None, not any(e for p, e in cands)


def damaged_cases(progs, per_prog=3):
    cases = []
    for i, (rng, p) in enumerate(progs):
        for k in range(per_prog):
            toks = mutate_tokens(rng, p.tokens, 1)
            st = ("newlines", "random", "comments")[k % 3]
            try:
                src = gogen.render(toks, rng, st)
            except Exception:
                continue
            cases.append(Case(src, "F-err-mut", i, st))
        # unterminated literal / comment at the end of a random line
        src = gogen.render(p.tokens, rng, "newlines")
        lines = src.split("\n")
        for bad in ('"abc', "'a", "`raw\nmore", "/* c\nd", "'", '"\\', "0x", "1e+", "'\\400'", "\x01", "#"):
            k = rng.randrange(len(lines))
            cases.append(Case("\n".join(lines[:k] + [lines[k] + " " + bad] + lines[k + 1:]), "F-err-lit", i, "newlines"))
    return cases


# ------------------------------------------------------------------ systematic mutation / comment injection

def systematic_mutants(progs, max_tokens=90, styles=("canonical", "newlines")):
    """for each (small) program: delete each token in turn, duplicate each token, swap each adjacent pair,
    and insert each token of a small pool at every 3rd position: near-valid inputs one edit away"""
    cases = []
    pool = [gogen.Tok('ident', 'zz'), gogen.Tok('op', ','), gogen.Tok('op', ';'), gogen.Tok('op', '('), gogen.Tok('op', ')'),
            gogen.Tok('op', '{'), gogen.Tok('op', '}'), gogen.Tok('op', '['), gogen.Tok('op', ']'), gogen.Tok('int', '7'),
            gogen.Tok('op', '.'), gogen.Tok('op', ':='), gogen.Tok('op', '='), gogen.Tok('op', '<-'), gogen.Tok('op', '*'),
            gogen.Tok('op', ':'), gogen.Tok('string', '"s"')]
    for pi, (rng, p) in enumerate(progs):
        toks = p.tokens
        if len(toks) > max_tokens:
            continue
        st = styles[pi % len(styles)]

        def emit(tl, kind):
            try:
                cases.append(Case(gogen.render(tl, rng, st), "F-sys-" + kind, pi, st))
            except Exception:
                cases.append(Case(" ".join(t.text for t in tl), "F-sys-" + kind, pi, st))
        for i in range(len(toks)):
            emit(toks[:i] + toks[i + 1:], "del")
            emit(toks[:i] + [toks[i]] + toks[i:], "dup")
            if i + 1 < len(toks):
                emit(toks[:i] + [toks[i + 1], toks[i]] + toks[i + 2:], "swap")
            if i % 3 == pi % 3:
                t = pool[(i + pi) % len(pool)]
                emit(toks[:i] + [t] + toks[i:], "ins")
    return cases


REREAD_SNIPPETS = [
    # constructs the parser reads twice (parse_type_spec's speculative parse, interface elements), struct
    # bodies with line-end comments, control headers, composite literals, parameter lists
    "type A [unsafe.Sizeof(struct {\n\ta int\n\tb string\n}{})]byte",
    "type G[P *struct {\n\tx int\n\ty int\n}] struct{ v P }",
    "type H[P interface{ m(); ~int | string }, Q any] []P",
    "type K[P any] = map[P]struct {\n\tf int\n}",
    "type L [N + len(struct {\n\ta int\n}{}.s)]int",
    "type M[T C[struct {\n\ta int\n}]] int",
    "type I interface {\n\tA | B\n\tm(x int) (y int)\n\tpkg.T\n\t~[]byte\n}",
    "type S struct {\n\ta, b int \"tag\"\n\t*T\n\tpkg.U\n\tV[int]\n\tf func(x int) struct {\n\t\tz int\n\t}\n}",
    "var x = struct {\n\ta int\n}{a: 1}",
    "func (r *R[K, V]) m(a, b int, c ...string) (x int, err error) {\n\treturn\n}",
    "func f() {\n\tif x := g(); x > 0 {\n\t} else if y {\n\t} else {\n\t}\n\tfor i := 0; i < n; i++ {\n\t}\n\tfor k, v := range m {\n\t}\n\tswitch x := y.(type) {\n\tcase int:\n\tdefault:\n\t}\n\tselect {\n\tcase v := <-c:\n\tcase c <- 1:\n\tdefault:\n\t}\n}",
    "func f() {\n\tx := []T{{a: 1}, {2}}\n\ty := map[string]struct{ a int }{\"k\": {1}}\n\tgo func() {}()\n\tdefer g(x...)\nL:\n\tgoto L\n}",
    "const (\n\ta = iota\n\tb\n\tc int = 3\n)",
    "var (\n\ta, b int = 1, 2\n\tc = f[int](x)[1:2:3].(T)\n)",
    "import (\n\t\"a\"\n\tb \"c\"\n\t. \"d\"\n\t_ \"e\"\n)",
]


def _snippet_tokens(src):
    return [(p, k, t) for p, k, t in spec_lex(src) if p is not None]


def comment_injection_cases(snippets=REREAD_SNIPPETS, pairs=True):
    """a comment in every token gap of every snippet (general comment; line comment + newline; general
    comment spanning a newline), and at every pair of gaps for the general comment"""
    cases = []
    for sn in snippets:
        src0 = "package p\n\n" + sn + "\n"
        toks = _snippet_tokens(src0)
        cuts = [p for p, k, t in toks] + [len(src0)]
        for i, c in enumerate(cuts):
            for cm in ("/*c%d*/" % i, " // c%d\n" % i, "/*c%d\nd*/" % i):
                cases.append(Case(src0[:c] + cm + src0[c:], "F-comment-gap", note=sn[:30]))
        if pairs:
            for i in range(0, len(cuts), 2):
                for j in range(i + 1, len(cuts), 3):
                    a, b = cuts[i], cuts[j]
                    cases.append(Case(src0[:a] + "/*a*/" + src0[a:b] + " // b\n" + src0[b:], "F-comment-pair", note=sn[:30]))
    return cases


def line_end_comment_cases():
    """comments at the END of every line of every snippet (where struct fields take a trailing comment): one, two on
    the line, one followed by a comment on the next line, by a blank line and a comment, by a general comment"""
    cases = []
    for sn in EDIT_SNIPPETS:
        src0 = "package p\n\n" + sn + "\n"
        ends = [i for i, ch in enumerate(src0) if ch == "\n" and i > 0 and src0[i - 1] not in "\n`"]
        for k, e in enumerate(ends):
            for ins in (" /*t%d*/", " // t%d", " /*t%d*/ /*u*/", " /*t%d*/ // u", " // t%d\n\t// n", " // t%d\n\n\t// n", " /*t%d*/\n\t/* n\n */",
                        " /* t%d\n\tcontinued */", " // t%d\n\t// n1\n\t// n2"):
                cases.append(Case(src0[:e] + ins % k + src0[e:], "F-comment-line-end", note=sn[:30]))
    return cases


# ------------------------------------------------------------------ C12: documentation families (expected docs by construction)

def docs_cases(seed, n):
    """files built line by line; for each declaration / spec / field the generator chooses what stands in front
    of it {attached comment group, detached group (blank line), trailing comment on the previous line, nothing}
    and therefore knows the documentation the property demands.  expected = list of (node kind, [comment texts])
    in source order for every node that carries docs."""
    rng = random.Random(seed ^ 0xd0c5)
    cases = []
    for ci in range(n):
        lines = []
        expected = []
        cid = [0]

        def comment_group(indent=""):
            k = 1 + rng.randrange(3)
            out = []
            texts = []
            if rng.random() < 0.3:
                cid[0] += 1
                if rng.random() < 0.5:
                    t = "/* g%d\n%s   more */" % (cid[0], indent)
                else:
                    t = "/* g%d */" % cid[0]
                for ln in t.split("\n"):
                    out.append(indent + ln if ln is t.split("\n")[0] else ln)
                texts.append(t)
                return out, texts
            for _ in range(k):
                cid[0] += 1
                t = "// c%d é" % cid[0]
                out.append(indent + t)
                texts.append(t)
            return out, texts

        def before(indent="", allow_trailing=True):
            """emit what precedes a documented item; returns the expected docs"""
            opts = ["attached", "detached", "none", "none"]
            if allow_trailing and lines and lines[-1].strip() and "//" not in lines[-1] and "/*" not in lines[-1] \
                    and "*/" not in lines[-1]:
                opts.append("trailing")
                opts.append("trailing+attached")
            o = rng.choice(opts)
            if o.startswith("trailing"):
                cid[0] += 1
                lines[-1] = lines[-1] + " // t%d" % cid[0]
                if o == "trailing":
                    return []
                o = "attached"
            if o == "attached":
                ls, texts = comment_group(indent)
                lines.extend(ls)
                return texts
            if o == "detached":
                ls, texts = comment_group(indent)
                lines.extend(ls)
                lines.append("")
                if rng.random() < 0.3:
                    lines.append("")
                return []
            return []

        for _ in range(rng.randrange(3)):
            lines.append("")
        expected.append(("File", before(allow_trailing=False)))
        lines.append("package p")
        if rng.random() < 0.5:
            lines.append("")
        nd = 1 + rng.randrange(5)
        for di in range(nd):
            kind = rng.choice(["func", "var", "const", "type", "vargroup", "typegroup", "struct", "funcbody"])
            name = "n%d_%d" % (ci, di)
            if rng.random() < 0.2:
                # multi-line tokens with multi-byte characters before later declarations (line table bookkeeping)
                expected.append(("DeclVar", []))
                expected.append(("VarSpec", before()))
                wide = "你好世界" * rng.choice([1, 5, 12])
                lines.append("var r%d_%d = `é日本語 \U0001F600 %s" % (ci, di, wide))
                if rng.random() < 0.5:
                    lines.append("\u4f60\u597d` /* 注释 " + wide)
                    lines.append("\u3000 */")
                    if rng.random() < 0.5:
                        lines.append("")
                else:
                    lines.append("`")
            if kind in ("func", "funcbody"):
                d = before()
                expected.append(("FuncDecl", d))
                if kind == "func":
                    lines.append("func %s() {}" % name)
                else:
                    lines.append("func %s() {" % name)
                    lines.append("\t// inside %s" % name)
                    r2 = rng.random()
                    if r2 < 0.35:
                        # a comment above code that takes no documentation, and on that line something that does:
                        # the comment belongs to neither
                        lines.append("\tx := 1; var y%s int" % name)
                        expected.append(("DeclVar", []))
                        expected.append(("VarSpec", []))
                    elif r2 < 0.5:
                        lines.append("\tfor x := 0; x < 1; x++ { type t%s struct { f int } }" % name)
                        expected.append(("DeclType", []))
                        expected.append(("TypeSpec", []))
                        expected.append(("Field", []))
                    else:
                        lines.append("\tx := 1 /* in */")
                    if rng.random() < 0.5:
                        lines.append("\t// last inside")
                    lines.append("}")
            elif kind in ("var", "const", "type"):
                d = before()
                # a single-spec declaration carries its docs on the spec
                expected.append(({"var": "DeclVar", "const": "DeclConst", "type": "DeclType"}[kind], []))
                expected.append(({"var": "VarSpec", "const": "ConstSpec", "type": "TypeSpec"}[kind], d))
                if rng.random() < 0.15:
                    # the keyword alone on its line, comments on their own lines, then the name: a comment after the
                    # keyword documents nothing (the declaration's documentation stands above the keyword)
                    lines.append(kind)
                    cid[0] += 1
                    lines.append("// k%d after the keyword" % cid[0])
                    lines.append({"var": "%s int", "const": "%s = 1", "type": "%s int"}[kind] % name)
                else:
                    lines.append({"var": "var %s int", "const": "const %s = 1", "type": "type %s int"}[kind] % name)
            elif kind in ("vargroup", "typegroup"):
                d = before()
                expected.append(("DeclVar" if kind == "vargroup" else "DeclType", d))
                lines.append("var (" if kind == "vargroup" else "type (")
                for si in range(1 + rng.randrange(3)):
                    sd = before("\t")
                    expected.append(("VarSpec" if kind == "vargroup" else "TypeSpec", sd))
                    lines.append(("\t%s_%d int" if kind == "vargroup" else "\t%s_%d []int") % (name, si))
                lines.append(")")
            else:  # struct with documented fields and line-end comments
                d = before()
                expected.append(("DeclType", []))
                expected.append(("TypeSpec", d))
                lines.append("type %s struct {" % name)
                for fi in range(1 + rng.randrange(3)):
                    fd = before("\t", allow_trailing=False)
                    # every form of field declaration (named, grouped, embedded, pointer, qualified, instantiated,
                    # tagged, array, function-typed, nested struct); `inner` = Field nodes inside the field's type
                    text, inner = rng.choice(FIELD_FORMS)
                    ln = "\t" + text.replace("#", "%s%d" % (name, fi))
                    r_ = rng.random()
                    if r_ < 0.4:
                        cid[0] += 1
                        # the comment trailing the field on its line: a line comment, a general comment, or a
                        # general comment that starts on the field's line and ends on a later one
                        tc = ["// e%d", "/* e%d */", "/* e%d\n\t   continued */"][0 if r_ < 0.2 else 1 if r_ < 0.3 else 2] % cid[0]
                        ln += " " + tc
                        fd = fd + [tc]
                    expected.append(("Field", fd))
                    expected.extend([("Field", [])] * inner)
                    lines.append(ln)
                lines.append("}")
            if rng.random() < 0.4:
                lines.append("")
        src = "\n".join(lines) + ("\n" if rng.random() < 0.8 else "")
        if ci % 3 == 1:
            # CRLF line ends: a general comment that spans lines keeps its \r
            src = src.replace("\n", "\r\n")
            # (a line comment runs up to the newline character: in a CRLF file its text ends in \r)
            expected = [(t, [x.replace("\n", "\r\n") + ("\r" if x.startswith("//") else "") for x in d]) for t, d in expected]
        cases.append(Case(src, "F-docs", expected=expected))
    return cases


FIELD_FORMS = [("f# int", 0), ("f# int", 0), ("f#, g# string", 0), ("E#", 0), ("*E#", 0), ("pkg.E#", 0), ("*pkg.E#", 0),
               ("L#[int]", 0), ("P#[string, int]", 0), ("pkg.B#[int]", 0), ("A# [4]int", 0), ("f# int `tag`", 0),
               ("L#[int] `tag`", 0), ("E# `tag`", 0), ("f# func(int) bool", 2), ("f# struct { x int }", 1), ("f# []map[string]*T", 0),
               ("f# chan<- int", 0), ("f# [n]int", 0), ("f# []int", 0)]


_DOC_TAGS = ("File", "FuncDecl", "DeclVar", "DeclConst", "DeclType", "VarSpec", "ConstSpec", "TypeSpec", "Field")


def docs_of_tree(tree):
    out = []
    todo = [tree]
    while todo:
        n = todo.pop()
        if n.tag in _DOC_TAGS and n.docs:
            text = " ".join(n.docs)
            inner = text[2:-1]          # strip "#[" and "]"
            out.append((n.tag, [t for _, t in parse_comments(inner)]))
        todo.extend(reversed(n.kids))
    return out


def docs_ok(c, line):
    """C12 oracle: the docs of every documented node are what the generator placed directly above it"""
    if not line.startswith("OK "):
        return "generated declaration sequence rejected: %s" % line[:80]
    have = [(t, d) for t, d in docs_of_tree(tree_of(line)) if not (t == "Field" and False)]
    want = c.expected
    # fields of parameter lists etc. also carry (empty) docs: compare only the documented kinds the generator emits
    have = [(t, d) for t, d in have if t != "Field" or True]
    if len(have) != len(want):
        return "documented nodes: %d in the tree, %d generated" % (len(have), len(want))
    for i, ((t1, d1), (t2, d2)) in enumerate(zip(have, want)):
        if t1 != t2:
            return "node %d is %s, generated %s" % (i, t1, t2)
        if d1 != d2:
            # KF-21: line_info reports lines 1 and 2 as the same line, so a comment that ends on line 1 is
            # judged adjacent to a token on line 3 (and, with a trailing comment, line 1 vs line 2 tokens)
            first = c.src.split("\n")[0] if c.src else ""
            on_line1 = any(t.split("\n")[-1] in first for t in d1 + d2) or \
                any(c.src.find(t) >= 0 and c.src.count("\n", 0, c.src.find(t) + len(t)) == 0 for t in d1 + d2)
            return "%sdocs of %s #%d: tree %r, expected %r" % ("KF-21: " if on_line1 else "", t1, i, d1, d2)
    return None


POS_SNIPPETS = [
    "var c = (<-chan <-chan int)(nil)", "var c <-chan <-chan int", "var d = (chan<- chan<- <-chan int)(x)", "var e = make(chan (<-chan int))",
    "var f = <-(<-chan int)(c)", "var g = (<-chan chan<- int)(nil)", "var s = x[1:2:3].f(a...)[i].(T)", "var m = map[K][]*[3]T{k: {&v}}",
    "var h = func(a, b int, c ...*T) (x, y <-chan int) { return }", "type T[P any, Q interface{ ~int | m() }] struct { a, b P; *Q; f func(P) Q `t` }",
    "func (r *R[K, V]) m() { L: for i, v := range x { if y := <-c; y { continue L } else { c <- v } } }",
    "func f() { switch x := y.(type) { case int, *T: x++; default: return }; select { case v, ok := <-c: _ = ok; case c <- 1: } }",
    "func g() { go func() {}(); defer h(x, y...); a, b = b, a; a <<= 2; *p = &q; goto L; L: }",
]


def position_directed_cases():
    out = []
    for sn in POS_SNIPPETS:
        for pre in ("package p\n", "package 日本語\n// é日本語 \U0001F600\nvar x = \"é日本\" /* \U0001F600 */\n\t", "package p\r\n\r\n\t"):
            out.append(Case(pre + sn + "\n", "F-pos-directed"))
    return out + bom_cases()


def bom_cases():
    """U+FEFF in an in-memory source: the byte order mark is a matter of the disk entry point only; a string handed to
    parse_source / Parser::from is scanned as it is, so every offset, line and column counts the mark as a character
    (first missed: seeded change C05-g strips it in Scanner::from and reports positions of the stripped copy)"""
    out = []
    bodies = ["package p", "package p\n\nvar x = 1\n", "// c é\npackage 日本語\n\nfunc f(a int) (r int) {\n\treturn a /* d */ + 1\n}\n",
              "package p\r\n\r\nvar s = `a\r\nb`\r\n", "package p\n\nvar x = )\n", "package p; var x = 1 2", "package", "x +"]
    for b in bodies:
        out.append(Case("\ufeff" + b, "F-bom-in-memory"))
        out.append(Case("\ufeff\ufeff" + b, "F-bom-in-memory"))
        out.append(Case(b.replace("\n", "\n\ufeff", 1) if "\n" in b else b + "\ufeff", "F-bom-in-memory"))
    return out


def multiline_token_then(rest):
    """`rest` on the line on which a multi-line raw string / general comment closes, LF and CRLF, ASCII and multi-byte
    (first missed: seeded change C16-g drops CRs from the raw string text the line table is computed from)"""
    out = []
    for nl in ("\n", "\r\n"):
        r = rest.replace("\n", nl)
        for head in ("var s = `a%sb%sc`; ", "var s = `é%s日本%s` ; ", "/* a%sb%sc */ ", "var s = `%s%s`; var t = `x%sy` ; "):
            h = head.replace("%s", nl)
            out.append("package p" + nl + nl + h + r)
    return out


# ------------------------------------------------------------------ text-level single edits and layout injection on snippets

EDIT_SNIPPETS = REREAD_SNIPPETS + [
    "type S struct {\n\ta, b [N]int\n\tc, d M[K, V]\n\te, f []T\n\tg, h *T `tag`\n\ti, j map[K]V\n\tk, l chan<- T\n\tU[int]\n}",
    "func f(a, b [N]int, c, d M[K, V], e ...T) (x, y [2]int) {\n\treturn\n}",
    "func f() {\n\tx, ok := <-ch\n\ta, b = b, a\n\tv, ok := m[k]\n\tfor i, v := range s {\n\t}\n\tswitch a, b := f(); a {\n\t}\n\tcase1: a, b++\n}",
    "type I interface {\n\tM()\n\tStringer }\ntype J interface {\n\tint }",
    "type S[P *E | ~G] struct{ p P }\ntype T[P (E) | ~G, Q *E | []byte] int\ntype U[P *E,] int\ntype V [N * M]int",
    "var c = chan (<-chan int)(nil)\nvar d []chan (<-chan int)\nvar e chan<- (chan<- int)\nvar f = <-(<-chan int)(c)",
    # labels directly before a closing brace (the one place parse_stmt meets `}`), in every kind of block
    "func f() {\n\tgoto done\n\tfor {\n\t\tbreak\n\tinner:\n\t}\n\tswitch x {\n\tcase 1:\n\t\tfallthrough\n\tdefault:\n\tend:\n\t}\n\tselect {\n\tcase <-c:\n\tlast:\n\t}\n\tgo func() {\n\tl:\n\t}()\ndone:\n}",
    "func f() {\n\tgoto done\ndone:\n}", "func f() {\n\tfor {\n\tinner:\n\t}\n}", "func f() {\n\tswitch x {\n\tdefault:\n\tend:\n\t}\n}",
    "func f() {\n\tselect {\n\tcase <-c:\n\tlast:\n\t}\n}", "var g = func() {\nl:\n}",
    "import (\n\t\"a\"\n\tb \"c\" )\nimport . \"d\"\nimport ()\nvar (\n\ta = 1\n\tb, c int )\nconst (\n\td = iota\n\te )\ntype (\n\tA = B\n\tC[T any] struct{} )",
]


def text_mutants(snippets=None):
    """every single-token deletion, duplication and adjacent swap of each snippet (text level, tokens by the spec lexer)"""
    out = []
    for sn in (snippets or EDIT_SNIPPETS):
        src0 = "package p\n\n" + sn + "\n"
        toks = [(p, t) for p, k, t in spec_lex(src0) if p is not None and k != "C"]
        for i, (p, t) in enumerate(toks):
            e = p + len(t)
            out.append(Case(src0[:p] + src0[e:], "F-edit-del", note=sn[:24]))
            out.append(Case(src0[:e] + " " + t + src0[e:], "F-edit-dup", note=sn[:24]))
            if i + 1 < len(toks):
                p2, t2 = toks[i + 1]
                out.append(Case(src0[:p] + t2 + " " + t + src0[p2 + len(t2):], "F-edit-swap", note=sn[:24]))
    return out


def layout_injection_cases(snippets=None):
    """a newline / blank / comment in every gap of each snippet, kept only when the token sequence after semicolon
    insertion (spec lexer) is unchanged; expected: the same tree as the snippet itself (family index in .prog)"""
    out = []
    for si, sn in enumerate(snippets or EDIT_SNIPPETS):
        src0 = "package p\n\n" + sn + "\n"
        key0 = [(k, t) for p, k, t in spec_lex(src0) if k != "C"]
        # the reference rendering: the same token sequence on ONE line, inserted semicolons written out
        norm = " ".join(t for k, t in key0) + "\n"
        if [(k, t) for p, k, t in spec_lex(norm) if k != "C"] == key0 and "`" not in norm:
            out.append(Case(norm, "F-layout-base", prog=si, style="canonical"))
            out.append(Case(src0, "F-layout-inject", prog=si, style="inject"))
        else:
            out.append(Case(src0, "F-layout-base", prog=si, style="canonical"))
        cuts = [p for p, k, t in spec_lex(src0) if p is not None] + [len(src0)]
        for c in cuts:
            for ins in ("\n", "\n\n\t", " ", "/**/", "// c\n", "\r\n"):
                v = src0[:c] + ins + src0[c:]
                try:
                    if [(k, t) for p, k, t in spec_lex(v) if k != "C"] != key0:
                        continue
                except ValueError:
                    continue
                out.append(Case(v, "F-layout-inject", prog=si, style="inject"))
    return out


# ---------------------------------------------------------------- types in every position (C03)
TYPE_ELEMS = [
    ("int", "(Ident s:int)"), ("*T", "(TypePointer (Ident s:T))"), ("[]int", "(TypeSlice (Ident s:int))"),
    ("map[K]V", "(TypeMap (Ident s:K) (Ident s:V))"), ("pkg.T", "(Selector (Ident s:pkg) (Ident s:T))"),
    ("[3]int", "(TypeArray (BasicLit l:N s:3) (Ident s:int))"), ("struct{}", "(TypeStruct)"),
    ("func(int) bool", "(FuncType (FieldList) (FieldList (Field (List) (Ident s:int) (None))) (FieldList (Field (List) (Ident s:bool) (None))))"),
]
TYPE_POSITIONS = [
    "var _ {}", "var _ = ({})(nil)", "var _ = make({}, 1)", "var _ = new({})", "var _ = []{}{{}}", "var _ = x.({})",
    "func _(a {}) {{}}", "var _ = map[string]{}{{}}", "type _ struct {{ f {} }}", "var _ = func({}) {{}}",
    "func _() {{ for range make({}) {{}} }}", "func _() {{ if x := ({})(nil); x != nil {{}} }}", "type _ interface {{ m({}) {} }}",
]


def chan_nest(dirs, elem):
    """source and derivation of the channel type with the given directions (0 chan, 1 chan<-, 2 <-chan), outermost first.
    The spec: `<-` associates with the leftmost chan possible, so a bidirectional channel of a receive-only
    channel needs parentheses (the tree keeps them as a Paren node)."""
    src, shape = elem
    for i in range(len(dirs) - 1, -1, -1):
        d = dirs[i]
        if d == 0 and i + 1 < len(dirs) and dirs[i + 1] == 2:
            src, shape = "(" + src + ")", "(Paren " + shape + ")"
        src = ["chan ", "chan<- ", "<-chan "][d] + src
        shape = "(TypeChannel d:%d %s)" % (d, shape)
    return src, shape


def type_position_cases():
    import itertools
    out = []
    for n in (1, 2, 3):
        for dirs in itertools.product((0, 1, 2), repeat=n):
            for ei, elem in enumerate(TYPE_ELEMS):
                if n == 3 and ei not in (0, 1, 7):
                    continue
                src, shape = chan_nest(dirs, elem)
                for pos in TYPE_POSITIONS:
                    out.append(Case("package p\n" + pos.format(*([src] * pos.count("{}"))) + "\n", "F-type-positions", expected=shape, note=src))
    return out


def oracle_type_position(c, line, toks):
    if not line.startswith("OK "):
        return "valid Go rejected: " + line[:80]
    if c.expected not in proj_shape(line):
        return "the type %s does not have its derivation %s in this position" % (c.note, c.expected)
    return None


# ---------------------------------------------------------------- C14: the printed tree spells the program it was read from
def program_tokens(src):
    """the token sequence of a program up to what the grammar leaves optional: comments, all semicolons, a comma
    before a closing bracket, and the grouping of import declarations"""
    toks = [(k, t) for p, k, t in spec_lex(src) if k != "C"]
    out = []
    i, n = 0, len(toks)
    while i < n:
        k, t = toks[i]
        nxt = toks[i + 1][1] if i + 1 < n else None
        if k == "O" and t == ";":
            i += 1
        elif k == "O" and t == "," and nxt in (")", "]", "}"):
            i += 1
        elif k == "K" and t == "import":
            i += 1
            if i < n and toks[i][1] == "(":
                i += 1
                while i < n and toks[i][1] != ")":
                    if toks[i][1] != ";":
                        out.append(toks[i][1])
                    i += 1
                i += 1
        else:
            out.append(t)
            i += 1
    return out


# ---------------------------------------------------------------- type-parameter lists (C02): valid by the spec's rules
TPARAM_FIRSTS = ["any", "C", "*C", "(C)", "~C", "*C|D", "*C|~D", "(C)|D", "C|D", "~C|D", "interface{C}", "*C|D|E", "pkg.C", "pkg.C|D",
                 "C[int]", "*C[int]", "*C[int]|D", "map[K]V", "func()", "chan C", "*pkg.C", "*pkg.C|D", "(C)|(D)", "~[]C", "~*C|D"]
TPARAM_TAILS = ["]", ",]", ", Q any]", ", Q *D]", ", Q, R any]", ", Q *C|D]", ", Q interface{ m() }]"]
TPARAM_CTX = ["type T[P %s struct{}", "type (\n T[P %s struct{}\n)", "func _() { type T[P %s struct{} }", "func f[P %s() {}", "type T[P %s = int"]


def tparam_cases():
    """every first constraint x continuation x declaration context.  `type T[P *C] X` and `type T[P (C)] X` read as
    array types (the spec's ambiguity rule: no comma, no ~), which is valid too except as an alias declaration"""
    out = []
    for f in TPARAM_FIRSTS:
        for t in TPARAM_TAILS:
            for c in TPARAM_CTX:
                ambiguous = f[0] in "*(" and t == "]" and "~" not in f
                if ambiguous and c.endswith("= int"):
                    continue
                out.append(Case("package p\n" + (c % (f + t)) + "\n", "F-valid"))
    return out


# ---------------------------------------------------------------- C04: the same grouping on every path into the expression parser
EXPR_CONTEXTS = ["type _ [%s]int", "var _ [%s]int", "var _ = x[%s]", "var _ = f(%s)", "var _ = T{%s: 1}", "var _ = []int{%s}",
                 "func _() { switch { case %s: } }", "func _() { if %s {} }", "func _() { for %s {} }", "func _() { switch %s {} }",
                 "func _() { %s }", "func _() { x = %s }", "func _() { return %s }", "func _() { go f(%s) }", "func _() { x := %s; _ = x }",
                 "func _() { for i := %s; ; {} }", "func _() { ch <- %s }", "type _[P any] [%s]int", "func _() { type _ [%s]int }",
                 "var _ = func() int { return %s }", "func _() { L: %s }", "func _() { x[%s]++ }", "var _ = (%s)"]


def ops_context_cases():
    """pairs of binary operators over three identifiers in every place an expression can stand (several of them
    continue from an identifier that was already read); triples where the parser continues from such an identifier"""
    import itertools
    out = []
    names = "abcd"
    for n, ctxs in ((2, EXPR_CONTEXTS), (3, [EXPR_CONTEXTS[0], EXPR_CONTEXTS[10], EXPR_CONTEXTS[4], EXPR_CONTEXTS[18]])):
        for combo in itertools.product(BINOPS, repeat=n):
            src = names[0]
            items = [_id(0)]
            for k, o in enumerate(combo):
                src += " " + o + " " + names[k + 1]
                items += [o, _id(k + 1)]
            want = group_spec(items)
            for ctx in ctxs:
                out.append(Case("package p\n" + ctx % src + "\n", "F-ops-context", expected=want, note=src))
    return out


def oracle_contains_shape(c, line, tl=None):
    if not line.startswith("OK "):
        return "valid input rejected: %s" % line[:80]
    if c.expected not in proj_shape(line):
        return "the expression %s does not have the spec's grouping %s in this position" % (c.note, c.expected)
    return None


# ---------------------------------------------------------------- C13/C08/C02: optional separators before a closing bracket
SEPARATED = [
    ("const (", ["A = iota", "B", "C"], ";", ")", "%s"), ("const (", ["a, b = iota, iota * 2", "c, d"], ";", ")", "%s"),
    ("var (", ["a = 1", "b, c int", "d T"], ";", ")", "%s"), ("type (", ["A = B", "C[T any] struct{}", "D int"], ";", ")", "%s"),
    ("import (", ["\"a\"", "b \"c\"", ". \"d\""], ";", ")", "%s"),
    ("type S struct {", ["a int", "b, c string `t`", "*E", "pkg.F", "G[int]"], ";", "}", "%s"),
    ("type I interface {", ["m()", "E", "~int | string", "n(x int) bool"], ";", "}", "%s"),
    ("func f() {", ["x := 1", "x++", "return", "goto L", "break", "continue", "fallthrough", "f()", "L: g()", "c <- 2i", "v = T{}", "for {}", "{ }"], ";", "}", "%s"),
    ("func f() { switch x {", ["case 1: a()", "case 2, 3: b(); c()", "default: d()"], ";", "} }", "%s"),
    ("func f() { select {", ["case <-c: a()", "case v := <-c: b(v)", "default:"], ";", "} }", "%s"),
    ("func f() { switch t := x.(type) {", ["case int: a(t)", "case nil, *T: b()", "default: return"], ";", "} }", "%s"),
    ("var x = T{", ["1", "a: 2", "{3, 4}", "k: {5}"], ",", "}", "%s"), ("var x = f(", ["a", "b + 1", "g(c)"], ",", ")", "%s"),
    ("func f(", ["a int", "b, c string", "d ...T"], ",", ") {}", "%s"), ("func f[", ["T any", "U, V comparable"], ",", "]() {}", "%s"),
    ("var x M[", ["K", "V"], ",", "]", "%s"), ("func f() (", ["a int", "b error"], ",", ") { return }", "%s"),
    ("var x = []int{", ["1", "2", "3"], ",", "}", "%s"), ("var x = map[string]int{", ["\"a\": 1", "\"b\": 2"], ",", "}", "%s"),
    ("type T[", ["P any", "Q interface{ m() }"], ",", "] int", "%s"), ("var x T[", ["int"], ",", "]", "%s"),
    # (a trailing comma in an index / type-argument list of an EXPRESSION is known finding KF-31 and not listed here)
]


def separator_cases():
    """each bracketed list written (0) on one line without the final separator, (1) on one line with it, (2) one
    item per line (line ends do the work of `;`; a `,` list keeps its commas), (3) as (2) with CRLF: one program"""
    out = []
    for gi, (op, items, sep, cl, wrap) in enumerate(SEPARATED):
        body = [op + (sep + " ").join(items) + cl,
                op + (sep + " ").join(items) + sep + cl,
                op + "\n\t" + ((sep if sep == "," else "") + "\n\t").join(items) + (sep if sep == "," else "") + "\n" + cl]
        body.append(body[2].replace("\n", "\r\n"))
        for ri, b in enumerate(body):
            out.append(Case("package p\n" + b + "\n", "F-separators", prog=gi, style=str(ri)))
    return out


# ---------------------------------------------------------------- parameter lists (C03/C06): every item form in every place
PARAM_TYPES = [("A", "(Ident s:A)"), ("*B", "(TypePointer (Ident s:B))"), ("pkg.C", "(Selector (Ident s:pkg) (Ident s:C))"),
               ("[]D", "(TypeSlice (Ident s:D))"), ("map[K]V", "(TypeMap (Ident s:K) (Ident s:V))"),
               ("func()", "(FuncType (FieldList) (FieldList) (FieldList))"), ("chan E", "(TypeChannel d:0 (Ident s:E))"),
               ("[3]F", "(TypeArray (BasicLit l:N s:3) (Ident s:F))"), ("struct{}", "(TypeStruct)"), ("<-chan G", "(TypeChannel d:2 (Ident s:G))"),
               ("interface{}", "(TypeInterface (FieldList))"), ("(H)", "(Paren (Ident s:H))")]
PARAM_CTX = ["func f(%s) {}", "var f func(%s)", "var g = func(%s) {}", "func (r R) m(%s) {}", "func f() (%s) { return }", "type F func(%s)"]


def param_cases():
    """unnamed parameter lists: every pair and a sample of triples of type forms (the list parser decides after the
    fact whether identifiers were names or types); named lists: single, grouped, variadic; in six signature places"""
    import itertools
    out = []

    def add(src, fields, ctxs=PARAM_CTX):
        want = "(FieldList " + " ".join(fields) + ")" if fields else "(FieldList)"
        for ctx in ctxs:
            out.append(Case("package p\n" + ctx % src + "\n", "F-params", expected=want, note=src))
    un = lambda sh: "(Field (List) %s (None))" % sh
    nm = lambda names, sh: "(Field (List %s) %s (None))" % (" ".join("(Ident s:%s)" % n for n in names), sh)
    for n in (1, 2):
        for combo in itertools.product(PARAM_TYPES, repeat=n):
            add(", ".join(t for t, _ in combo), [un(sh) for _, sh in combo])
            add(", ".join(t for t, _ in combo) + ",", [un(sh) for _, sh in combo], PARAM_CTX[:2])
    for i, combo in enumerate(itertools.product(PARAM_TYPES, repeat=3)):
        if i % 7 == 0:
            add(", ".join(t for t, _ in combo), [un(sh) for _, sh in combo], PARAM_CTX[:1])
    for t, sh in PARAM_TYPES:
        add("a " + t, [nm(["a"], sh)])
        add("a, b " + t, [nm(["a", "b"], sh)])
        add("a, b " + t + ", c " + t, [nm(["a", "b"], sh), nm(["c"], sh)], PARAM_CTX[:3])
        add("a ..." + t, [nm(["a"], "(Ellipsis %s)" % sh)], PARAM_CTX[:4] + PARAM_CTX[5:])
        add("a int, b ..." + t, [nm(["a"], "(Ident s:int)"), nm(["b"], "(Ellipsis %s)" % sh)], PARAM_CTX[:4] + PARAM_CTX[5:])
        add("..." + t, [un("(Ellipsis %s)" % sh)], PARAM_CTX[:4] + PARAM_CTX[5:])
        add("A, ..." + t, [un("(Ident s:A)"), un("(Ellipsis %s)" % sh)], PARAM_CTX[:4] + PARAM_CTX[5:])
    return out


def oracle_params(c, line, tl=None):
    if not line.startswith("OK "):
        return "valid input rejected: %s" % line[:80]
    if c.expected not in proj_shape(line):
        return "the parameter list (%s) does not have its derivation %s" % (c.note, c.expected)
    return None
