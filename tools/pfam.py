"""Input families, projections and spec oracles for the parser-level properties.

A canonical line (harness/src/walk.rs, coq/theories/Entry.v) is
   "OK <tree> | <comments>"  |  "ERR u <line> <col> <tok>"  |  "ERR e <line> <col>"
   |  "PANIC ..."  |  "FUEL"
with tree = (Tag @pos.. attr.. #[docs] kid..).  Text inside attributes and
comments is escaped with \\u{hex} for every character outside [!-~] minus "()\\|#@".
"""
import os
import random
import re
import sys

HERE = os.path.dirname(os.path.abspath(__file__))
sys.path.insert(0, os.path.join(HERE, "gen"))
import gogen   # noqa: E402
import sexpr   # noqa: E402

_ESC = re.compile(r"\\u\{([0-9a-fA-F]+)\}")


def unesc(s):
    return _ESC.sub(lambda m: chr(int(m.group(1), 16)), s)


# ------------------------------------------------------------------ line projections

def outcome(line):
    return line.split(" ", 1)[0] if line else "EMPTY"


def split_ok(line):
    """'OK tree | comments' -> (tree_text, comments_text); None otherwise"""
    if not line.startswith("OK "):
        return None
    body = line[3:]
    i = body.rfind(") | ")
    if i < 0:
        if body.endswith(") |"):
            return body[:-2], ""
        return body, None
    return body[:i + 1], body[i + 4:]


def parse_comments(text):
    """'p:text p:text' -> [(pos, text)]"""
    out = []
    for w in (text or "").split():
        p, _, t = w.partition(":")
        out.append((int(p), unesc(t)))
    return out


def tree_of(line):
    so = split_ok(line)
    if so is None:
        return None
    return sexpr.parse(so[0])


def proj_shape(line):
    so = split_ok(line)
    if so is None:
        return outcome(line)
    return sexpr.dump(sexpr.parse(so[0]))


def proj_positions(line):
    so = split_ok(line)
    if so is None:
        return outcome(line)
    return sexpr.dump(sexpr.parse(so[0]), keep_pos=True, keep_empty=True)


def proj_docs(line):
    so = split_ok(line)
    if so is None:
        return outcome(line)
    return sexpr.dump(sexpr.parse(so[0]), keep_docs=True)


def proj_comments(line):
    so = split_ok(line)
    if so is None:
        return outcome(line)
    return "OK | " + (so[1] or "")


def proj_errloc(line):
    return line if not line.startswith("OK ") else "OK"


def proj_outcome(line):
    return outcome(line)


def proj_full(line):
    return line


PROJ = {"shape": proj_shape, "positions": proj_positions, "docs": proj_docs, "comments": proj_comments,
        "errloc": proj_errloc, "outcome": proj_outcome, "full": proj_full}


# ------------------------------------------------------------------ token lines (gv tokens)

def parse_token_line(line):
    """'p:Ktext p:Otext ... | EOF end=n | lines' -> ([(pos, kind, text)], end_word, rest)"""
    if line.startswith("| "):
        toks, rest = "", line[2:]
    else:
        toks, _, rest = line.partition(" | ")
    out = []
    for w in toks.split():
        p, _, kt = w.partition(":")
        out.append((int(p), kt[0], unesc(kt[1:])))
    return out, rest


# ------------------------------------------------------------------ families

STYLES = gogen.STYLES


class Case(object):
    __slots__ = ("src", "family", "prog", "style", "expected", "note")

    def __init__(self, src, family, prog=None, style=None, expected=None, note=None):
        self.src, self.family, self.prog, self.style, self.expected, self.note = src, family, prog, style, expected, note


def gen_programs(seed, n, budgets=(15, 40, 60, 100), max_depth=12):
    """n generated programs (gogen.Program) with deterministic per-program seeds"""
    labels = set(gogen.coverage_labels())
    hit = set()
    out = []
    for i in range(n):
        rng = random.Random(seed * 1000003 + i)
        p = gogen.gen_program(rng, budgets[i % len(budgets)], max_depth, labels - hit)
        hit |= p.features
        out.append((rng, p))
    return out, hit, labels


def valid_cases(progs, styles):
    cases = []
    for i, (rng, p) in enumerate(progs):
        for st in styles:
            cases.append(Case(gogen.render(p.tokens, rng, st), "F-valid", i, st, p.expected_shape))
    return cases


_MUT_POOL = None


def _mut_pool():
    global _MUT_POOL
    if _MUT_POOL is None:
        ops = ['+', '-', '*', '/', '%', '&', '|', '^', '<<', '>>', '&^', '+=', '-=', '*=', '/=', '%=', '&=', '|=', '^=',
               '<<=', '>>=', '&^=', '&&', '||', '<-', '++', '--', '==', '<', '>', '=', '!', '~', '!=', '<=', '>=', ':=',
               '...', '(', ')', '[', ']', '{', '}', ',', ';', '.', ':']
        kws = ['break', 'case', 'chan', 'const', 'continue', 'default', 'defer', 'else', 'fallthrough', 'for', 'func',
               'go', 'goto', 'if', 'import', 'interface', 'map', 'package', 'range', 'return', 'select', 'struct',
               'switch', 'type', 'var']
        lits = [('ident', 'x'), ('ident', '_'), ('ident', 'T'), ('int', '1'), ('float', '1.5'), ('imag', '2i'),
                ('rune', "'a'"), ('string', '"s"'), ('string', '`r`')]
        _MUT_POOL = [gogen.Tok('op', o) for o in ops] + [gogen.Tok('kw', k) for k in kws] + \
                    [gogen.Tok(k, t) for k, t in lits]
    return _MUT_POOL


def mutate_tokens(rng, tokens, nmut):
    toks = list(tokens)
    for _ in range(nmut):
        if not toks:
            break
        k = rng.randrange(5)
        i = rng.randrange(len(toks))
        if k == 0:
            del toks[i]
        elif k == 1:
            toks.insert(i, rng.choice(_mut_pool()))
        elif k == 2:
            toks.insert(i, toks[i])
        elif k == 3 and len(toks) > 1:
            j = rng.randrange(len(toks))
            toks[i], toks[j] = toks[j], toks[i]
        else:
            toks[i] = rng.choice(_mut_pool())
    return toks


def mutant_cases(progs, per_prog=2, styles=("canonical", "newlines", "random")):
    cases = []
    for i, (rng, p) in enumerate(progs):
        for k in range(per_prog):
            toks = mutate_tokens(rng, p.tokens, 1 + rng.randrange(3))
            st = styles[(i + k) % len(styles)]
            try:
                src = gogen.render(toks, rng, st)
            except Exception:
                src = " ".join(t.text for t in toks)
            cases.append(Case(src, "F-mut", i, st))
    return cases


def soup_cases(seed, n, maxlen=24):
    rng = random.Random(seed ^ 0x50ff)
    pool = _mut_pool()
    cases = []
    for i in range(n):
        ln = 1 + rng.randrange(maxlen)
        toks = [rng.choice(pool) for _ in range(ln)]
        head = "package p\n" if rng.random() < 0.7 else ""
        sep = rng.choice([" ", " ", "\n"])
        cases.append(Case(head + sep.join(t.text for t in toks), "F-soup"))
    return cases


_BYTE_ALPHA = "ab_ 09\n\t\"'`\\/*.+-<=&|^%!~:;,()[]{}xXeEpPiI\u00e9\u65e5\U0001F600\r\ufeff\x00\x7f"


def bytes_cases(seed, n, maxlen=40):
    rng = random.Random(seed ^ 0xb17e5)
    cases = []
    for i in range(n):
        ln = rng.randrange(maxlen)
        s = "".join(rng.choice(_BYTE_ALPHA) for _ in range(ln))
        if rng.random() < 0.5:
            s = "package p;" + s
        cases.append(Case(s, "F-bytes"))
    return cases


# ------------------------------------------------------------------ source-side lexing helpers

def lexeme_at(src, pos, text):
    return src[pos:pos + len(text)] == text


# ------------------------------------------------------------------ spec oracles on one (source, line)
# Each oracle returns None when the property holds on this case, else a short text.

_KW = {"Go": "go", "Defer": "defer", "If": "if", "For": "for", "Return": "return", "Switch": "switch",
       "TypeSwitch": "switch", "Select": "select", "Range": "range", "TypeInterface": "interface",
       "DeclVar": "var", "DeclConst": "const", "DeclType": "type"}
_PAIR = {"Call": "()", "Index": "[]", "IndexList": "[]", "Slice": "[]", "Paren": "()", "TypeMap": "[]",
         "TypeArray": "[]", "TypeSlice": "[]", "TypeStruct": "{}", "LiteralValue": "{}", "Block": "{}",
         "CaseBlock": "{}", "CommBlock": "{}"}
# children that lie strictly between the two bracket positions (None = all)
_INNER = {"Call": (1, 2), "Index": (1,), "IndexList": (1,), "Slice": (1, 2, 3), "Paren": None, "TypeMap": (0,),
          "TypeArray": (0,), "TypeSlice": (), "TypeStruct": None, "LiteralValue": None, "Block": None,
          "CaseBlock": None, "CommBlock": None, "TypeAssert": (1,), "FieldList": None}


def _attr(n, prefix):
    for a in n.attrs:
        if a.startswith(prefix):
            return unesc(a[len(prefix):])
    return None


def _all_positions(n, out):
    stack = [n]
    while stack:
        x = stack.pop()
        if x.tag != "Empty":      # an empty statement names no lexeme (synthetic ';', or the '}' that ends the list)
            out.extend(int(p[1:]) for p in x.pos)
        stack.extend(x.kids)
    return out


def expected_lexemes(n):
    """per position of node n: expected lexeme string, or None when the position names no lexeme"""
    t = n.tag
    np_ = len(n.pos)
    if t in ("Ident", "StringLit"):
        return [_attr(n, "s:")]
    if t == "BasicLit":
        return [_attr(n, "s:")]
    if t in _PAIR and np_ == 2:
        return list(_PAIR[t])
    if t in _KW:
        kw = _KW[t]
        if t.startswith("Decl"):
            return [kw, "(", ")"][:np_]
        return [kw]
    if t == "FuncType":
        return ["func"][:np_]
    if t in ("Operation", "IncDec", "Assign"):
        return [_attr(n, "o:")]
    if t == "Send":
        return ["<-"]
    if t == "Branch":
        return [_attr(n, "k:")]
    if t in ("CaseClause", "CommClause"):
        return [_attr(n, "k:"), ":"]
    if t == "Ellipsis":
        return ["..."]
    if t == "Selector":
        return ["."]
    if t in ("Star", "TypePointer"):
        return ["*"]
    if t == "TypeAssert":
        return [".", ")"]
    if t == "Label":
        return [":"]
    if t == "RangeStmt":
        return ["for", "range"]
    if t == "Pos":
        o = _attr(n, "o:")
        return [o if o is not None else "..."]
    if t == "TypeChannel":
        d = _attr(n, "d:")
        return ["chan", "<-" if d != "0" else None]
    if t == "FieldList":
        return None  # handled by the caller: one of () [] {}
    if t == "Empty":
        return [None]
    return [None] * np_


def positions_ok(src, tree):
    """C05: every position is the char offset of the lexeme it names; pairs open before close;
    inner children strictly between; identifier/literal leaves in source order"""
    stack = [tree]
    last_leaf = -1
    order = []
    # pre-order traversal = source order of leaves (children are listed in source order)
    def walk(n):
        todo = [n]
        while todo:
            x = todo.pop()
            yield x
            todo.extend(reversed(x.kids))
    for n in walk(tree):
        ps = [int(p[1:]) for p in n.pos]
        if n.tag == "FieldList":
            if len(ps) == 2:
                o = src[ps[0]:ps[0] + 1]
                want = {"(": ")", "[": "]", "{": "}"}.get(o)
                if want is None or src[ps[1]:ps[1] + 1] != want:
                    return "FieldList brackets @%d @%d name %r %r" % (ps[0], ps[1], o, src[ps[1]:ps[1] + 1])
        else:
            exp = expected_lexemes(n)
            if len(exp) != len(ps):
                return "%s has %d positions, %d expected" % (n.tag, len(ps), len(exp))
            for p, e in zip(ps, exp):
                if e is not None and not lexeme_at(src, p, e):
                    return "%s position @%d: expected %r, source has %r" % (n.tag, p, e, src[p:p + max(1, len(e))])
                if p > len(src):
                    return "%s position @%d beyond the source" % (n.tag, p)
        if len(ps) >= 2 and n.tag not in ("RangeStmt", "CaseClause", "CommClause", "TypeChannel") or \
                (n.tag == "TypeChannel" and _attr(n, "d:") != "0" and len(ps) == 2 and False):
            a, b = ps[-2], ps[-1]
            if not a < b:
                return "%s pair not ordered: @%d @%d" % (n.tag, a, b)
            inner = _INNER.get(n.tag, ())
            kids = n.kids if inner is None else [n.kids[i] for i in inner if i < len(n.kids)]
            for k in kids:
                for q in _all_positions(k, []):
                    if not a < q < b:
                        return "%s: position @%d of a child is not strictly between @%d and @%d" % (n.tag, q, a, b)
        if n.tag in ("Ident", "BasicLit", "StringLit") and ps:
            if ps[0] <= last_leaf:
                return "leaf %s @%d is not after the previous leaf @%d (siblings out of source order)" % (n.tag, ps[0], last_leaf)
            last_leaf = ps[0]
    return None


_LEAF_KINDS = "INFMRS"   # ident, integer, float, imaginary, rune, string


def leaves_of(tree):
    out = []
    todo = [tree]
    while todo:
        x = todo.pop()
        if x.tag in ("Ident", "BasicLit", "StringLit") and x.pos:
            out.append((int(x.pos[0][1:]), _attr(x, "s:")))
        todo.extend(reversed(x.kids))
    return out


def accounted(src, tree, toks):
    """C06: identifier and literal tokens == leaves (same text, same offset, each once, in order);
    brackets of the token stream are properly nested"""
    want = [(p, t) for p, k, t in toks if k in _LEAF_KINDS]
    have = [(p, t) for p, t in leaves_of(tree) if t != "."]     # import . "x": the dot is an operator token
    if want != have:
        sw, sh = set(want), set(have)
        miss = sorted(sw - sh)[:3]
        extra = sorted(sh - sw)[:3]
        if miss or extra:
            return "tokens not in the tree: %r; leaves not in the source: %r" % (miss, extra)
        return "leaves are the source's tokens but in another order or multiplicity"
    stack = []
    close = {")": "(", "]": "[", "}": "{"}
    for p, k, t in toks:
        if k != "O":
            continue
        if t in "([{" and len(t) == 1:
            stack.append(t)
        elif t in close:
            if not stack or stack.pop() != close[t]:
                return "bracket %r at %d does not close the innermost open bracket" % (t, p)
    if stack:
        return "unclosed bracket(s) %r" % "".join(stack)
    # package clause first
    real = [(p, k, t) for p, k, t in toks if k != "C"]
    if not real or real[0][1:] != ("K", "package"):
        return "source does not start with a package clause"
    return None


def comments_ok(line, toks):
    """C11: File.comments == all comment tokens of the source, in order, verbatim"""
    so = split_ok(line)
    want = [(p, t) for p, k, t in toks if k == "C"]
    have = parse_comments(so[1])
    if want != have:
        return "comment tokens %d, listed %d; first difference: %r" % (
            len(want), len(have), next(((a, b) for a, b in zip(want + [None] * len(have), have + [None] * len(want)) if a != b), None))
    return None
