"""A straightforward printer from the canonical tree (tools/gen/sexpr.Node, the S-expression
of harness/src/walk.rs) back to Go source, for C14 (print and re-parse reproduces the tree).
It adds no parentheses of its own: the tree keeps every Paren node of the source."""
import os
import sys

HERE = os.path.dirname(os.path.abspath(__file__))
sys.path.insert(0, HERE)
from pfam import unesc  # noqa: E402


class PrintError(Exception):
    pass


def _attr(n, prefix):
    for a in n.attrs:
        if a.startswith(prefix):
            return unesc(a[len(prefix):])
    return None


def _none(n):
    return n.tag == "None"


def p_list(n, sep=", "):
    return sep.join(expr(k) for k in n.kids)


def field(f, in_interface=False):
    names, typ, tag = f.kids
    if in_interface and names.kids and typ.tag == "FuncType" and not typ.pos:
        return expr(names.kids[0]) + signature(typ)
    s = ""
    if names.kids:
        s = ", ".join(expr(k) for k in names.kids) + " "
    s += expr(typ)
    if not _none(tag):
        s += " " + expr(tag)
    return s


def fieldlist(fl, open_, close, always=True):
    if not fl.kids and not fl.pos and not always:
        return ""
    return open_ + ", ".join(field(f) for f in fl.kids) + close


def result_list(fl):
    if fl.pos:
        return " (" + ", ".join(field(f) for f in fl.kids) + ")"
    if not fl.kids:
        return ""
    if len(fl.kids) != 1:
        raise PrintError("result list without parentheses with %d fields" % len(fl.kids))
    return " " + field(fl.kids[0])


def signature(ft):
    tp, params, result = ft.kids
    s = ""
    if tp.kids or tp.pos:
        s += "[" + ", ".join(field(f) for f in tp.kids) + "]"
    s += "(" + ", ".join(field(f) for f in params.kids) + ")"
    s += result_list(result)
    return s


def block(b):
    return "{\n" + "".join(stmt(s) + ";\n" for s in b.kids) + "}"


def litvalue(v):
    out = []
    for ke in v.kids:
        key, val = ke.kids
        s = ""
        if not _none(key):
            s = elem(key) + ": "
        out.append(s + elem(val))
    return "{" + ", ".join(out) + "}"


def elem(e):
    return litvalue(e) if e.tag == "LiteralValue" else expr(e)


def expr(e):
    t = e.tag
    k = e.kids
    if t in ("Ident", "BasicLit", "StringLit"):
        return _attr(e, "s:")
    if t == "Call":
        args = [expr(a) for a in k[1].kids]
        s = ", ".join(args)
        if not _none(k[2]):
            s += " ..."     # the blank keeps "023 ..." from lexing as the float "023." and ".."
        return expr(k[0]) + "(" + s + ")"
    if t == "Index":
        return expr(k[0]) + "[" + expr(k[1]) + "]"
    if t == "IndexList":
        return expr(k[0]) + "[" + p_list(k[1]) + "]"
    if t == "List":
        return p_list(e)
    if t == "Slice":
        a, b, c = k[1], k[2], k[3]
        s = ("" if _none(a) else expr(a)) + ":" + ("" if _none(b) else expr(b))
        if not _none(c):
            s += ":" + expr(c)
        return expr(k[0]) + "[" + s + "]"
    if t == "FuncLit":
        return "func" + signature(k[0]) + " " + block(k[1])
    if t == "Ellipsis":
        return "..." + ("" if _none(k[0]) else expr(k[0]))
    if t == "Selector":
        # the blank keeps "1 .f" from lexing as the float "1." followed by f
        return expr(k[0]) + (" ." if k[0].tag == "BasicLit" else ".") + expr(k[1])
    if t == "Range":
        return "range " + expr(k[0])
    if t == "Star":
        return "*" + expr(k[0])
    if t == "Paren":
        return "(" + expr(k[0]) + ")"
    if t == "TypeAssert":
        return expr(k[0]) + (" .(" if k[0].tag == "BasicLit" else ".(") + ("type" if _none(k[1]) else expr(k[1])) + ")"
    if t == "CompositeLit":
        return expr(k[0]) + litvalue(k[1])
    if t == "LiteralValue":
        return litvalue(e)
    if t == "Operation":
        o = _attr(e, "o:")
        if _none(k[1]):
            # a blank keeps "- -x", "& &x", "<- <-c" from fusing into another operator
            return o + " " + expr(k[0]) if expr(k[0])[:1] in "+-&<*^!~" else o + expr(k[0])
        return expr(k[0]) + " " + o + " " + expr(k[1])
    if t == "TypeMap":
        return "map[" + expr(k[0]) + "]" + expr(k[1])
    if t == "TypeArray":
        return "[" + expr(k[0]) + "]" + expr(k[1])
    if t == "TypeSlice":
        return "[]" + expr(k[0])
    if t == "FuncType":
        return "func" + signature(e)
    if t == "TypeStruct":
        return "struct {\n" + "".join(field(f) + ";\n" for f in k) + "}"
    if t == "TypeChannel":
        d = _attr(e, "d:")
        return {"0": "chan ", "1": "chan<- ", "2": "<-chan "}[d] + expr(k[0])
    if t == "TypePointer":
        return "*" + expr(k[0])
    if t == "TypeInterface":
        return "interface {\n" + "".join(field(f, True) + ";\n" for f in k[0].kids) + "}"
    if t == "KeyedElement":
        return litvalue(e)
    raise PrintError("expression tag " + t)


def opt_stmt(s):
    return "" if _none(s) else stmt(s)


def decl(d):
    kw = {"DeclVar": "var", "DeclConst": "const", "DeclType": "type"}[d.tag]
    specs = [spec(s) for s in d.kids]
    if len(d.pos) == 3:
        return kw + " (\n" + "".join(s + ";\n" for s in specs) + ")"
    if len(specs) != 1:
        raise PrintError("declaration without parentheses with %d specs" % len(specs))
    return kw + " " + specs[0]


def spec(s):
    if s.tag in ("VarSpec", "ConstSpec"):
        names, typ, values = s.kids
        out = ", ".join(expr(n) for n in names.kids)
        if not _none(typ):
            out += " " + expr(typ)
        if values.kids:
            out += " = " + ", ".join(expr(v) for v in values.kids)
        return out
    if s.tag == "TypeSpec":
        name, params, typ = s.kids
        out = expr(name)
        if params.kids or params.pos:
            # the trailing comma keeps `type T[P *C,] X` a type-parameter list (without it the
            # spec reads `type T [P*C]X`, an array type)
            out += "[" + ", ".join(field(f) for f in params.kids) + (",]" if params.kids else "]")
        out += (" = " if _attr(s, "b:") == "1" else " ") + expr(typ)
        return out
    raise PrintError("spec tag " + s.tag)


def caseblock(b, comm=False):
    out = "{\n"
    for c in b.kids:
        kw = _attr(c, "k:")
        if comm:
            head = kw if _none(c.kids[0]) else kw + " " + stmt(c.kids[0])
        else:
            head = kw if not c.kids[0].kids else kw + " " + ", ".join(expr(x) for x in c.kids[0].kids)
        out += head + ":\n" + "".join(stmt(s) + ";\n" for s in c.kids[1].kids)
    return out + "}"


def stmt(s):
    t = s.tag
    k = s.kids
    if t == "Empty":
        return ""
    if t == "ExprStmt":
        return expr(k[0])
    if t == "Go":
        return "go " + expr(k[0])
    if t == "Defer":
        return "defer " + expr(k[0])
    if t == "If":
        init = opt_stmt(k[0])
        return "if " + (init + "; " if not _none(k[0]) else "") + expr(k[1]) + " " + block(k[2]) + \
            ("" if _none(k[3]) else " else " + stmt(k[3]))
    if t == "For":
        init, cond, post = k[0], k[1], k[2]
        if _none(init) and _none(post):
            head = "" if _none(cond) else stmt(cond) + " "
        else:
            head = opt_stmt(init) + "; " + opt_stmt(cond) + "; " + opt_stmt(post) + " "
        return "for " + head + block(k[3])
    if t == "RangeStmt":
        key, value, op, x, body = k
        lhs = ""
        if not _none(key):
            lhs = expr(key)
            if not _none(value):
                lhs += ", " + expr(value)
            lhs += " " + _attr(op, "o:") + " "
        return "for " + lhs + "range " + expr(x) + " " + block(body)
    if t == "Send":
        return expr(k[0]) + " <- " + expr(k[1])
    if t == "Block":
        return block(s)
    if t == "Label":
        return expr(k[0]) + ": " + stmt(k[1])
    if t == "IncDec":
        return expr(k[0]) + _attr(s, "o:")
    if t == "Assign":
        return ", ".join(expr(x) for x in k[0].kids) + " " + _attr(s, "o:") + " " + ", ".join(expr(x) for x in k[1].kids)
    if t == "Return":
        return "return" + (" " + ", ".join(expr(x) for x in k) if k else "")
    if t == "Branch":
        return _attr(s, "k:") + ("" if _none(k[0]) else " " + expr(k[0]))
    if t == "Switch":
        head = ""
        if not _none(k[0]):
            head = stmt(k[0]) + "; "
        if not _none(k[1]):
            head += expr(k[1]) + " "
        return "switch " + head + caseblock(k[2])
    if t == "TypeSwitch":
        head = ""
        if not _none(k[0]):
            head = stmt(k[0]) + "; "
        head += opt_stmt(k[1]) + " "
        return "switch " + head + caseblock(k[2])
    if t == "Select":
        return "select " + caseblock(k[0], comm=True)
    if t == "DeclStmt":
        return decl(k[0])
    raise PrintError("statement tag " + t)


def top(d):
    if d.tag == "FuncDecl":
        recv, name, typ, body = d.kids
        s = "func "
        if not _none(recv):
            s += "(" + ", ".join(field(f) for f in recv.kids) + ") "
        s += expr(name) + signature(typ)
        if not _none(body):
            s += " " + block(body)
        return s
    return decl(d)


def print_file(f):
    pkg, imports, decls = f.kids
    out = "package " + expr(pkg) + ";\n"
    for i in imports.kids:
        name, path = i.kids
        out += "import " + ("" if _none(name) else expr(name) + " ") + expr(path) + ";\n"
    for d in decls.kids:
        out += top(d) + ";\n"
    return out
