#!/bin/bash
# Build the whole framework from files on disk only (offline): harness from
# /repo's working tree (hooks on: release + debug), regenerated tables, the
# full Coq development (full .vo build), the extracted model driver.
set -e
cd "$(dirname "$0")/.."
export CARGO_NET_OFFLINE=true
mkdir -p .work coq/gen
python3 - <<'PY'
import sys, os
sys.path.insert(0, "tools")
import vlib
gv = vlib.build_harness("release")
print("harness:", gv)
print(vlib.regen(gv))
vlib.ensure_makefile()
PY
( cd coq && timeout 3000 make -j16 2>&1 | grep -v "^Warning\|orphan\|^COQDEP\|^COQC" | tail -20; test ${PIPESTATUS[0]} -eq 0 )
python3 - <<'PY'
import sys
sys.path.insert(0, "tools")
import vlib
print("model:", vlib.build_model())
print("harness debug:", vlib.build_harness("debug"))
print("harness hooks off:", vlib.build_harness("release", hooks=False))
print("harness serde:", vlib.build_harness("release", hooks=True, features=("serde",)))
print("harness hooks off + serde:", vlib.build_harness("release", hooks=False, features=("serde",)))
import checks
checks.precache_assumptions()
PY
echo "setup done"
