#!/usr/bin/env python3
"""Regenerate coq/gen/GenSchema.v (property C20) from the crate's type definitions.

Reads <repo>/src/ast.rs and <repo>/src/token.rs (everything outside
`#[cfg(test)] mod .. { .. }`) and <repo>/Cargo.toml, and collects for every
`struct` / `enum`:
  * its definition (named fields, tuple fields, variants and their shapes),
  * whether it derives BOTH serde::Serialize and serde::Deserialize inside one
    `cfg_attr(feature = "serde", derive(..))`,
  * every `serde(...)` attribute at container, variant or field level
    (`strum(...)`, `doc`, `allow`, ... are irrelevant to serde and ignored).
Box / Rc / Arc are erased (serde serialises them transparently; Rc / Arc need
serde's "rc" feature, which is checked in Cargo.toml).  Generic definitions
(`Decl<T>`) are instantiated at every use (`Decl<TypeSpec>` ...).

Output:
  gen/GenSchema.v  repo_schema, repo_flags, repo_reachable, repo_root and the
                   lemmas repo_schema_wf, repo_reachable_closed, repo_reachable_ok
                   (all by vm_compute: if the crate's types leave the fragment
                   for which C20_roundtrip is proved, the file does not compile)
  stdout           a JSON summary

The translator never guesses: any construct it does not understand makes it exit
with status 2 and a message naming the construct and its position.  With
--check it also exits with status 1 when it found a serde attribute, a reachable
type that does not derive both traits, or an Option of a nullable type (the
conditions the generated lemmas re-check in Coq).
Python 3 standard library only.
"""
import json
import os
import re
import sys

HERE = os.path.dirname(os.path.abspath(__file__))
DEFAULT_REPO = "/repo"
DEFAULT_OUT = os.path.join(os.path.dirname(HERE), "coq", "gen", "GenSchema.v")
SOURCES = ["src/ast.rs", "src/token.rs"]
ROOT_TYPE = "File"
SERDE_PRED = 'feature="serde"'


class Unsupported(Exception):
    pass


def die(msg):
    sys.stderr.write("regen_schema: NOT UNDERSTOOD: %s\n" % msg)
    sys.exit(2)


# ---------------------------------------------------------------------------
# tokenizer

class Tok:
    __slots__ = ("kind", "text", "line")

    def __init__(self, kind, text, line):
        self.kind, self.text, self.line = kind, text, line

    def __repr__(self):
        return "%s:%r@%d" % (self.kind, self.text, self.line)


IDENT_START = "abcdefghijklmnopqrstuvwxyzABCDEFGHIJKLMNOPQRSTUVWXYZ_"
IDENT_CONT = IDENT_START + "0123456789"


def tokenize(src, fname):
    toks = []
    i, n, line = 0, len(src), 1
    while i < n:
        c = src[i]
        if c == "\n":
            line += 1
            i += 1
        elif c in " \t\r":
            i += 1
        elif src.startswith("//", i):
            j = src.find("\n", i)
            i = n if j < 0 else j
        elif src.startswith("/*", i):
            depth, j = 1, i + 2
            while j < n and depth:
                if src.startswith("/*", j):
                    depth += 1
                    j += 2
                elif src.startswith("*/", j):
                    depth -= 1
                    j += 2
                else:
                    if src[j] == "\n":
                        line += 1
                    j += 1
            if depth:
                die("%s:%d: unterminated block comment" % (fname, line))
            i = j
        elif c == '"' or (c == "b" and src.startswith('b"', i)):
            j = i + (2 if c == "b" else 1)
            start_line = line
            while j < n and src[j] != '"':
                if src[j] == "\\":
                    j += 1
                if j < n and src[j] == "\n":
                    line += 1
                j += 1
            if j >= n:
                die("%s:%d: unterminated string literal" % (fname, start_line))
            toks.append(Tok("str", src[i:j + 1], start_line))
            i = j + 1
        elif c == "r" and re.match(r'r#*"', src[i:i + 12]):
            m = re.match(r'r(#*)"', src[i:])
            close = '"' + m.group(1)
            j = src.find(close, i + len(m.group(0)))
            if j < 0:
                die("%s:%d: unterminated raw string" % (fname, line))
            text = src[i:j + len(close)]
            toks.append(Tok("str", text, line))
            line += text.count("\n")
            i = j + len(close)
        elif c == "'":
            # char literal or lifetime
            m = re.match(r"'(\\.[^']*|[^'\\])'", src[i:])
            if m:
                toks.append(Tok("char", m.group(0), line))
                i += len(m.group(0))
            else:
                m = re.match(r"'[A-Za-z_][A-Za-z0-9_]*", src[i:])
                if not m:
                    die("%s:%d: stray quote" % (fname, line))
                toks.append(Tok("lifetime", m.group(0), line))
                i += len(m.group(0))
        elif c in IDENT_START:
            j = i + 1
            while j < n and src[j] in IDENT_CONT:
                j += 1
            toks.append(Tok("ident", src[i:j], line))
            i = j
        elif c.isdigit():
            j = i + 1
            while j < n and (src[j] in IDENT_CONT or src[j] == "."):
                if src[j] == "." and not (j + 1 < n and src[j + 1].isdigit()):
                    break
                j += 1
            toks.append(Tok("num", src[i:j], line))
            i = j
        elif ord(c) < 128:
            toks.append(Tok("punct", c, line))
            i += 1
        else:
            die("%s:%d: non-ASCII character %r outside comments and strings" % (fname, line, c))
    toks.append(Tok("eof", "", line))
    return toks


# ---------------------------------------------------------------------------
# parser

OPEN = {"(": ")", "[": "]", "{": "}"}


class Parser:
    def __init__(self, toks, fname):
        self.t, self.i, self.fname = toks, 0, fname

    # -- primitives
    def peek(self, k=0):
        return self.t[min(self.i + k, len(self.t) - 1)]

    def at(self, text, k=0):
        p = self.peek(k)
        return p.kind in ("punct", "ident") and p.text == text

    def next(self):
        p = self.t[self.i]
        if p.kind != "eof":
            self.i += 1
        return p

    def where(self, tok=None):
        return "%s:%d" % (self.fname, (tok or self.peek()).line)

    def expect(self, text):
        p = self.next()
        if not (p.kind in ("punct", "ident") and p.text == text):
            die("%s: expected %r, found %r" % (self.where(p), text, p.text))
        return p

    def ident(self):
        p = self.next()
        if p.kind != "ident":
            die("%s: expected an identifier, found %r" % (self.where(p), p.text))
        return p.text

    def balanced(self):
        """consume one delimited group, return its inner tokens"""
        o = self.next()
        if o.text not in OPEN:
            die("%s: expected a delimiter, found %r" % (self.where(o), o.text))
        stack, inner = [OPEN[o.text]], []
        while stack:
            p = self.next()
            if p.kind == "eof":
                die("%s: unbalanced %r opened here" % (self.where(o), o.text))
            if p.kind == "punct" and p.text in OPEN:
                stack.append(OPEN[p.text])
            elif p.kind == "punct" and p.text in ")]}":
                if p.text != stack[-1]:
                    die("%s: mismatched %r" % (self.where(p), p.text))
                stack.pop()
                if not stack:
                    break
            inner.append(p)
        return inner

    # -- attributes
    def attributes(self):
        """outer attributes `#[...]`; inner `#![...]` are skipped"""
        out = []
        while self.at("#"):
            h = self.next()
            inner_attr = False
            if self.at("!"):
                self.next()
                inner_attr = True
            if not self.at("["):
                die("%s: '#' not followed by '['" % self.where(h))
            body = self.balanced()
            if not inner_attr:
                out.append((h.line, body))
        return out

    def visibility(self):
        if self.at("pub"):
            self.next()
            if self.at("("):
                self.balanced()

    # -- types
    def parse_type(self):
        p = self.peek()
        if self.at("("):
            o = self.next()
            elems, trailing = [], False
            while not self.at(")"):
                elems.append(self.parse_type())
                trailing = False
                if self.at(","):
                    self.next()
                    trailing = True
                elif not self.at(")"):
                    die("%s: in tuple type, found %r" % (self.where(), self.peek().text))
            self.expect(")")
            if len(elems) == 1 and not trailing:
                return elems[0]
            return ("tuple", elems, o.line)
        if self.at("["):
            o = self.next()
            elem = self.parse_type()
            if not self.at(";"):
                die("%s: slice type [T] is not a sized field type the model knows" % self.where(o))
            self.next()
            ln = self.next()
            if ln.kind != "num" or not re.fullmatch(r"[0-9_]+", ln.text):
                die("%s: array length %r is not an integer literal" % (self.where(ln), ln.text))
            self.expect("]")
            return ("array", elem, int(ln.text.replace("_", "")), o.line)
        if p.kind == "ident" and p.text not in ("dyn", "impl", "fn", "unsafe", "extern", "for"):
            segs = [self.ident()]
            args = []
            while True:
                if self.at(":") and self.at(":", 1):
                    self.next()
                    self.next()
                    if self.at("<"):
                        die("%s: turbofish in a type" % self.where())
                    segs.append(self.ident())
                    continue
                break
            if self.at("<"):
                self.next()
                while not self.at(">"):
                    if self.peek().kind == "lifetime":
                        die("%s: lifetime argument %s" % (self.where(), self.peek().text))
                    args.append(self.parse_type())
                    if self.at(","):
                        self.next()
                    elif not self.at(">"):
                        die("%s: in generic arguments, found %r" % (self.where(), self.peek().text))
                self.expect(">")
            return ("path", segs, args, p.line)
        die("%s: type syntax starting with %r (references, pointers, dyn, fn, impl, "
            "never and macros are outside the serde model)" % (self.where(p), p.text))

    # -- items
    def generics(self):
        params = []
        if self.at("<"):
            o = self.next()
            while not self.at(">"):
                p = self.next()
                if p.kind != "ident" or p.text == "const":
                    die("%s: generic parameter %r (only plain type parameters are understood)"
                        % (self.where(p), p.text))
                params.append(p.text)
                if self.at(":") or self.at("="):
                    die("%s: bound or default on generic parameter %s" % (self.where(o), p.text))
                if self.at(","):
                    self.next()
                elif not self.at(">"):
                    die("%s: in generic parameters, found %r" % (self.where(), self.peek().text))
            self.expect(">")
        return params

    def named_fields(self):
        """`{ attrs vis name: Type, ... }` -> [(name, type, attrs, line)]"""
        self.expect("{")
        out = []
        while not self.at("}"):
            attrs = self.attributes()
            self.visibility()
            ln = self.peek().line
            fname = self.ident()
            self.expect(":")
            ty = self.parse_type()
            out.append((fname, ty, attrs, ln))
            if self.at(","):
                self.next()
            elif not self.at("}"):
                die("%s: after field %s, found %r" % (self.where(), fname, self.peek().text))
        self.expect("}")
        return out

    def tuple_fields(self):
        """`( attrs vis Type, ... )` -> [(type, attrs, line)]"""
        self.expect("(")
        out = []
        while not self.at(")"):
            attrs = self.attributes()
            self.visibility()
            ln = self.peek().line
            ty = self.parse_type()
            out.append((ty, attrs, ln))
            if self.at(","):
                self.next()
            elif not self.at(")"):
                die("%s: in tuple fields, found %r" % (self.where(), self.peek().text))
        self.expect(")")
        return out

    def item_struct(self, attrs, line):
        name = self.ident()
        params = self.generics()
        if self.at("where"):
            die("%s: where clause on struct %s" % (self.where(), name))
        if self.at("{"):
            return dict(kind="struct", name=name, params=params, fields=self.named_fields(),
                        attrs=attrs, line=line, file=self.fname)
        if self.at("("):
            fields = self.tuple_fields()
            if self.at("where"):
                die("%s: where clause on struct %s" % (self.where(), name))
            self.expect(";")
            return dict(kind="tuple_struct", name=name, params=params, fields=fields,
                        attrs=attrs, line=line, file=self.fname)
        if self.at(";"):
            self.next()
            return dict(kind="unit_struct", name=name, params=params, fields=[],
                        attrs=attrs, line=line, file=self.fname)
        die("%s: struct %s followed by %r" % (self.where(), name, self.peek().text))

    def item_enum(self, attrs, line):
        name = self.ident()
        params = self.generics()
        if self.at("where"):
            die("%s: where clause on enum %s" % (self.where(), name))
        self.expect("{")
        variants = []
        while not self.at("}"):
            vattrs = self.attributes()
            vline = self.peek().line
            vname = self.ident()
            if self.at("("):
                fields = self.tuple_fields()
                shape = ("tuple", fields)
            elif self.at("{"):
                shape = ("struct", self.named_fields())
            else:
                shape = ("unit", [])
            if self.at("="):
                # explicit discriminant: irrelevant to serde's externally tagged form
                self.next()
                while not (self.at(",") or self.at("}")):
                    if self.peek().kind == "eof":
                        die("%s: unterminated discriminant" % self.where())
                    if self.peek().text in OPEN:
                        self.balanced()
                    else:
                        self.next()
            variants.append((vname, shape, vattrs, vline))
            if self.at(","):
                self.next()
            elif not self.at("}"):
                die("%s: after variant %s, found %r" % (self.where(), vname, self.peek().text))
        self.expect("}")
        return dict(kind="enum", name=name, params=params, variants=variants,
                    attrs=attrs, line=line, file=self.fname)

    def skip_to_block_or_semi(self):
        """skip an item header then its `{..}` body or terminating `;`; return header tokens"""
        hdr = []
        while True:
            p = self.peek()
            if p.kind == "eof":
                die("%s: unterminated item" % self.where())
            if self.at("{"):
                self.balanced()
                return hdr
            if self.at(";"):
                self.next()
                return hdr
            if self.at("(") or self.at("["):
                hdr.extend(self.balanced())
            else:
                hdr.append(self.next())

    def items(self):
        defs, skipped = [], []
        while self.peek().kind != "eof":
            attrs = self.attributes()
            if self.peek().kind == "eof":
                break
            start = self.peek()
            self.visibility()
            kw = self.next()
            if kw.kind != "ident":
                die("%s: item starting with %r" % (self.where(kw), kw.text))
            k = kw.text
            if k == "unsafe" and self.peek().text in ("impl", "trait", "fn"):
                k = self.next().text
            if k == "struct":
                d = self.item_struct(attrs, start.line)
                check_no_cfg(attrs, "struct " + d["name"], self.fname)
                defs.append(d)
            elif k == "enum":
                d = self.item_enum(attrs, start.line)
                check_no_cfg(attrs, "enum " + d["name"], self.fname)
                defs.append(d)
            elif k == "use":
                self.skip_to_block_or_semi_use()
            elif k in ("impl", "trait", "fn", "const", "static"):
                hdr = self.skip_to_block_or_semi()
                names = [t.text for t in hdr if t.kind == "ident"]
                if k == "impl" and any(x in ("Serialize", "Deserialize", "Serializer",
                                             "Deserializer", "DeserializeOwned") for x in names):
                    die("%s: hand-written serde impl `impl %s`: the derive model does not cover it"
                        % (self.where(start), " ".join(t.text for t in hdr)))
                skipped.append(dict(kind=k, line=start.line,
                                    header=" ".join(t.text for t in hdr[:12])))
            elif k == "mod":
                name = self.ident()
                if self.at(";"):
                    die("%s: out-of-line module %s" % (self.where(start), name))
                if not is_cfg_test(attrs):
                    die("%s: inline module %s that is not #[cfg(test)]" % (self.where(start), name))
                self.balanced()
                skipped.append(dict(kind="mod(cfg test)", line=start.line, header=name))
            elif k == "type":
                die("%s: type alias %s (aliases are not resolved)" % (self.where(start), self.peek().text))
            elif k == "union":
                die("%s: union" % self.where(start))
            elif k == "macro_rules":
                # a macro whose body can define no type and mention no serde item is as irrelevant as an impl
                self.expect("!")
                name = self.ident()
                body = self.balanced()
                if self.at(";"):
                    self.next()
                bad = [t.text for t in body if t.kind == "ident" and t.text in
                       ("struct", "enum", "union", "type", "mod", "derive", "serde", "cfg_attr", "Serialize", "Deserialize",
                        "Serializer", "Deserializer", "macro_rules", "include")]
                if bad:
                    die("%s: macro_rules! %s whose body mentions %s (it could define or change serialised types)"
                        % (self.where(start), name, ", ".join(sorted(set(bad)))))
                self.safe_macros = getattr(self, "safe_macros", set()) | {name}
                skipped.append(dict(kind="macro_rules", line=start.line, header=name))
            elif self.at("!") and k in getattr(self, "safe_macros", set()):
                # invocation of a macro defined above that cannot define types
                self.next()
                self.balanced()
                if self.at(";"):
                    self.next()
                skipped.append(dict(kind="macro invocation", line=start.line, header=k))
            else:
                die("%s: item keyword %r" % (self.where(start), k))
        return defs, skipped

    def skip_to_block_or_semi_use(self):
        # `use a::{b, c};` contains braces that are not a body
        while True:
            p = self.peek()
            if p.kind == "eof":
                die("%s: unterminated use" % self.where())
            if self.at(";"):
                self.next()
                return
            if p.text in OPEN and p.kind == "punct":
                self.balanced()
            else:
                self.next()


# ---------------------------------------------------------------------------
# attributes

IRRELEVANT_ATTRS = {
    "doc", "allow", "warn", "deny", "forbid", "expect", "strum", "default", "non_exhaustive",
    "repr", "must_use", "inline", "deprecated", "rustfmt", "clippy", "automatically_derived",
}


def toks_text(toks):
    return "".join(t.text for t in toks)


def split_commas(toks):
    """split a token list on top-level commas"""
    parts, cur, depth = [], [], 0
    for t in toks:
        if t.kind == "punct" and t.text in OPEN:
            depth += 1
        elif t.kind == "punct" and t.text in ")]}":
            depth -= 1
        if t.kind == "punct" and t.text == "," and depth == 0:
            parts.append(cur)
            cur = []
        else:
            cur.append(t)
    if cur:
        parts.append(cur)
    return parts


def attr_head(toks):
    """(path string, argument tokens or None)"""
    path, i = [], 0
    while i < len(toks) and (toks[i].kind == "ident" or toks[i].text == ":"):
        path.append(toks[i].text)
        i += 1
    rest = toks[i:]
    name = "".join(path)
    if not name:
        return None, None
    if not rest:
        return name, None
    if rest[0].text == "(" and rest[-1].text == ")":
        return name, rest[1:-1]
    if rest[0].text == "=":
        return name, rest[1:]
    return name, rest


def is_cfg_test(attrs):
    for _, body in attrs:
        name, args = attr_head(body)
        if name == "cfg" and args is not None and toks_text(args) == "test":
            return True
    return False


def check_no_cfg(attrs, what, fname):
    for line, body in attrs:
        name, _ = attr_head(body)
        if name == "cfg":
            die("%s:%d: #[%s] on %s: conditionally compiled definitions change the schema "
                "with the feature set" % (fname, line, toks_text(body), what))


def analyse_attrs(attrs, what, fname, cond=None, acc=None):
    """-> dict(derive_groups=[(cond, [names])], serde=[(cond, text)])"""
    if acc is None:
        acc = dict(derive_groups=[], serde=[])
    for line, body in attrs:
        name, args = attr_head(body)
        if name is None:
            die("%s:%d: attribute #[%s] on %s" % (fname, line, toks_text(body), what))
        base = name.split("::")[0]
        if name == "derive":
            names = [toks_text(p) for p in split_commas(args or [])]
            acc["derive_groups"].append((cond, names))
        elif name == "serde":
            acc["serde"].append((cond, "serde(%s)" % toks_text(args or [])))
        elif name == "cfg_attr":
            parts = split_commas(args or [])
            if len(parts) < 2:
                die("%s:%d: cfg_attr without attributes on %s" % (fname, line, what))
            pred = toks_text(parts[0])
            if cond is not None:
                pred = cond + "&&" + pred
            analyse_attrs([(line, p) for p in parts[1:]], what, fname, pred, acc)
        elif name == "cfg":
            die("%s:%d: #[%s] on %s: conditionally compiled part of a definition"
                % (fname, line, toks_text(body), what))
        elif base in IRRELEVANT_ATTRS:
            pass
        else:
            die("%s:%d: attribute #[%s] on %s is not known to be irrelevant to serde"
                % (fname, line, toks_text(body), what))
    return acc


def last_seg(s):
    return s.split("::")[-1]


def derive_status(info):
    """(derives_both_under_serde_feature, description)"""
    ser_conds = [c for c, names in info["derive_groups"] for x in names if last_seg(x) == "Serialize"]
    de_conds = [c for c, names in info["derive_groups"] for x in names if last_seg(x) == "Deserialize"]
    both_same = any(c == SERDE_PRED and
                    any(last_seg(x) == "Serialize" for x in names) and
                    any(last_seg(x) == "Deserialize" for x in names)
                    for c, names in info["derive_groups"])
    desc = dict(serialize_under=ser_conds, deserialize_under=de_conds)
    return both_same and len(ser_conds) == 1 and len(de_conds) == 1, desc


# ---------------------------------------------------------------------------
# translation to the model

PRIMS = {"usize": "TUsize", "bool": "TBool", "String": "TString", "char": "TChar"}
OTHER_NUMERIC = {"u8", "u16", "u32", "u64", "u128", "i8", "i16", "i32", "i64", "i128",
                 "isize", "f32", "f64"}
TRANSPARENT = {"Box", "Rc", "Arc"}
KNOWN_PREFIX = {"crate", "self", "super", "std", "alloc", "core", "boxed", "rc", "sync",
                "vec", "option", "string", "path", "token", "ast"}


class Translator:
    def __init__(self, defs):
        self.defs = {}
        for d in defs:
            if d["name"] in self.defs:
                die("%s:%d: type %s defined twice" % (d["file"], d["line"], d["name"]))
            self.defs[d["name"]] = d
        self.schema = {}        # mangled name -> coq def text
        self.order = []
        self.deps = {}          # mangled name -> set of mangled names
        self.origin = {}        # mangled name -> rust type name
        self.notes = set()
        self.not_roundtrippable = []
        self.field_counts = {}
        self.uses_rc = False

    def ty(self, t, env, ctx, deps):
        tag = t[0]
        if tag == "tuple":
            return "TTuple [%s]" % "; ".join(self.ty(x, env, ctx, deps) for x in t[1])
        if tag == "array":
            _, elem, n, line = t
            if n == 0:
                die("%s: [T; 0] serialises as an empty sequence, which the model's TTuple [] "
                    "(unit, null) does not describe" % ctx)
            if n > 32:
                die("%s: serde implements Serialize only for arrays up to 32 elements, found %d"
                    % (ctx, n))
            e = self.ty(elem, env, ctx, deps)
            self.notes.add("fixed-size array [T; %d] modelled as a %d-tuple (serde serialises "
                           "arrays as tuples)" % (n, n))
            return "TTuple [%s]" % "; ".join([e] * n)
        _, segs, args, line = t
        for s in segs[:-1]:
            if s not in KNOWN_PREFIX:
                die("%s: path %s (unknown module %s)" % (ctx, "::".join(segs), s))
        name = segs[-1]
        if len(segs) == 1 and name in env:
            if args:
                die("%s: type parameter %s applied to arguments" % (ctx, name))
            return env[name][0](deps)
        if name in PRIMS:
            if args:
                die("%s: %s with generic arguments" % (ctx, name))
            return PRIMS[name]
        if name in OTHER_NUMERIC:
            die("%s: numeric type %s (the model has only usize)" % (ctx, name))
        if name == "PathBuf":
            if args:
                die("%s: PathBuf with generic arguments" % ctx)
            self.notes.add("PathBuf modelled as String: serde serialises a path as a string and "
                           "FAILS (Err) on a path that is not valid UTF-8; such paths are outside "
                           "has_type")
            return "TString"
        if name in TRANSPARENT:
            if len(args) != 1:
                die("%s: %s with %d arguments" % (ctx, name, len(args)))
            if name in ("Rc", "Arc"):
                self.uses_rc = True
                self.notes.add("Rc/Arc erased: serde (feature \"rc\") serialises the pointee; "
                               "sharing is not preserved by deserialisation, equality is structural")
            return self.ty(args[0], env, ctx, deps)
        if name == "Option":
            if len(args) != 1:
                die("%s: Option with %d arguments" % (ctx, len(args)))
            inner = self.ty(args[0], env, ctx, deps)
            if inner.startswith("TOption") or inner == "TTuple []":
                self.not_roundtrippable.append(
                    "%s: Option of a type that serialises to null (%s)" % (ctx, inner))
            return "TOption (%s)" % inner
        if name == "Vec":
            if len(args) != 1:
                die("%s: Vec with %d arguments" % (ctx, len(args)))
            return "TVec (%s)" % self.ty(args[0], env, ctx, deps)
        if name in self.defs:
            d = self.defs[name]
            if len(args) != len(d["params"]):
                die("%s: %s expects %d type arguments, found %d"
                    % (ctx, name, len(d["params"]), len(args)))
            # arguments are translated in the caller's environment
            argdeps = [set() for _ in args]
            argtxt = [self.ty(a, env, ctx, argdeps[i]) for i, a in enumerate(args)]
            mangled = name if not args else "%s<%s>" % (name, ", ".join(
                self.show(a, env) for a in args))
            self.instantiate(mangled, d, argtxt, argdeps)
            deps.add(mangled)
            return 'TNamed "%s"' % mangled
        die("%s: type %s is not defined in %s and is not a type the model knows"
            % (ctx, "::".join(segs), ", ".join(SOURCES)))

    def show(self, t, env):
        """rust-like rendering of a type, used to name instantiations"""
        if t[0] == "tuple":
            return "(" + ", ".join(self.show(x, env) for x in t[1]) + ")"
        if t[0] == "array":
            return "[%s; %d]" % (self.show(t[1], env), t[2])
        _, segs, args, _ = t
        name = segs[-1]
        if len(segs) == 1 and name in env:
            return env[name][1]
        if args:
            return "%s<%s>" % (name, ", ".join(self.show(a, env) for a in args))
        return name

    def instantiate(self, mangled, d, argtxt, argdeps):
        if mangled in self.schema:
            return
        self.schema[mangled] = None      # in progress (recursive types)
        self.order.append(mangled)
        self.origin[mangled] = d["name"]
        deps = set()
        self.deps[mangled] = deps
        env = {}
        shown = re.match(r"[^<]*<(.*)>$", mangled)
        shown_args = split_top(shown.group(1)) if shown else []
        for i, p in enumerate(d["params"]):
            def mk(i=i):
                def f(dd):
                    dd.update(argdeps[i])
                    return argtxt[i]
                return f
            env[p] = (mk(), shown_args[i])
        where = "%s:%d: %s" % (d["file"], d["line"], mangled)

        def fields(fs, ctx):
            names = [f[0] for f in fs]
            return "[%s]" % "; ".join('("%s", %s)' % (
                coq_ident(f[0], ctx), self.ty(f[1], env, "%s field %s" % (ctx, f[0]), deps))
                for f in fs)

        def tys(fs, ctx):
            return "[%s]" % "; ".join(self.ty(f[0], env, "%s field %d" % (ctx, i), deps)
                                      for i, f in enumerate(fs))

        if d["kind"] == "struct":
            txt = "DStruct %s" % fields(d["fields"], where)
            self.field_counts[mangled] = len(d["fields"])
        elif d["kind"] == "tuple_struct":
            if len(d["fields"]) == 1:
                die("%s: newtype struct (serde serialises it transparently; Serde.v does not "
                    "model that)" % where)
            txt = "DTupleStruct %s" % tys(d["fields"], where)
            self.field_counts[mangled] = len(d["fields"])
        elif d["kind"] == "unit_struct":
            die("%s: unit struct (serialised as null; Serde.v does not model that)" % where)
        else:
            vs = []
            for vname, (shape, fs), _, vline in d["variants"]:
                ctx = "%s::%s" % (where, vname)
                if shape == "unit":
                    sh = "VUnit"
                elif shape == "tuple" and len(fs) == 1:
                    sh = "VNewtype (%s)" % self.ty(fs[0][0], env, ctx, deps)
                elif shape == "tuple":
                    sh = "VTuple %s" % tys(fs, ctx)
                else:
                    sh = "VStruct %s" % fields(fs, ctx)
                vs.append('("%s", %s)' % (coq_ident(vname, ctx), sh))
            txt = "DEnum [%s]" % ";\n      ".join(vs)
            self.field_counts[mangled] = len(d["variants"])
        self.schema[mangled] = txt


def split_top(s):
    parts, cur, depth = [], "", 0
    for c in s:
        if c in "<([":
            depth += 1
        elif c in ">)]":
            depth -= 1
        if c == "," and depth == 0:
            parts.append(cur.strip())
            cur = ""
        else:
            cur += c
    if cur.strip():
        parts.append(cur.strip())
    return parts


def coq_ident(s, ctx):
    if s.startswith("r#"):
        die("%s: raw identifier %s" % (ctx, s))
    if not re.fullmatch(r"[A-Za-z_][A-Za-z0-9_]*", s):
        die("%s: identifier %r" % (ctx, s))
    return s


# ---------------------------------------------------------------------------

def cargo_serde_features(repo):
    path = os.path.join(repo, "Cargo.toml")
    txt = open(path).read()
    m = re.search(r'^\s*serde\s*=\s*(.+)$', txt, re.M)
    if not m:
        die("%s: no `serde = ...` dependency line" % path)
    line = m.group(1)
    fm = re.search(r'features\s*=\s*\[([^\]]*)\]', line)
    feats = re.findall(r'"([^"]*)"', fm.group(1)) if fm else []
    optional = bool(re.search(r'optional\s*=\s*true', line))
    # the cargo feature named after an optional dependency exists implicitly
    # unless [features] uses the dep: syntax for it
    fsec = re.search(r'^\[features\]\s*$(.*?)(?=^\[|\Z)', txt, re.M | re.S)
    explicit = fsec.group(1) if fsec else ""
    return dict(line=line.strip(), features=feats, optional=optional,
                features_section=explicit.strip())


def write_if_changed(path, text):
    old = open(path).read() if os.path.exists(path) else None
    if old != text:
        os.makedirs(os.path.dirname(path), exist_ok=True)
        with open(path, "w") as f:
            f.write(text)
        return True
    return False


def main(argv):
    repo, out, check = DEFAULT_REPO, DEFAULT_OUT, False
    args = argv[1:]
    while args:
        a = args.pop(0)
        if a == "--repo":
            repo = args.pop(0)
        elif a == "--out":
            out = args.pop(0)
        elif a == "--check":
            check = True
        elif a in ("-h", "--help"):
            print(__doc__)
            return 0
        else:
            sys.stderr.write("usage: regen_schema.py [--repo DIR] [--out FILE] [--check]\n")
            return 64

    defs, skipped = [], []
    for rel in SOURCES:
        path = os.path.join(repo, rel)
        src = open(path, encoding="utf-8").read()
        d, s = Parser(tokenize(src, rel), rel).items()
        defs.extend(d)
        skipped.extend(dict(x, file=rel) for x in s)

    # attribute analysis, per Rust definition
    info = {}
    for d in defs:
        what = "%s %s" % (d["kind"], d["name"])
        a = analyse_attrs(d["attrs"], what, d["file"])
        serde_attrs = [dict(level="container", on=d["name"], cfg=c, attr=t) for c, t in a["serde"]]
        if d["kind"] == "enum":
            for vname, (shape, fs), vattrs, _ in d["variants"]:
                check_no_cfg(vattrs, "variant %s::%s" % (d["name"], vname), d["file"])
                va = analyse_attrs(vattrs, "variant %s::%s" % (d["name"], vname), d["file"])
                if va["derive_groups"]:
                    die("%s:%d: derive on variant %s::%s" % (d["file"], d["line"], d["name"], vname))
                serde_attrs += [dict(level="variant", on="%s::%s" % (d["name"], vname), cfg=c, attr=t)
                                for c, t in va["serde"]]
                for i, f in enumerate(fs):
                    fattrs = f[2] if shape == "struct" else f[1]
                    fname = f[0] if shape == "struct" else str(i)
                    on = "%s::%s.%s" % (d["name"], vname, fname)
                    check_no_cfg(fattrs, "field " + on, d["file"])
                    fa = analyse_attrs(fattrs, "field " + on, d["file"])
                    serde_attrs += [dict(level="field", on=on, cfg=c, attr=t) for c, t in fa["serde"]]
        else:
            for i, f in enumerate(d["fields"]):
                fattrs = f[2] if d["kind"] == "struct" else f[1]
                fname = f[0] if d["kind"] == "struct" else str(i)
                on = "%s.%s" % (d["name"], fname)
                check_no_cfg(fattrs, "field " + on, d["file"])
                fa = analyse_attrs(fattrs, "field " + on, d["file"])
                serde_attrs += [dict(level="field", on=on, cfg=c, attr=t) for c, t in fa["serde"]]
        both, desc = derive_status(a)
        any_serde = bool(desc["serialize_under"] or desc["deserialize_under"] or serde_attrs)
        info[d["name"]] = dict(both=both, derive=desc, serde_attrs=serde_attrs, any_serde=any_serde)

    if ROOT_TYPE not in info:
        die("root type %s is not defined in %s" % (ROOT_TYPE, ", ".join(SOURCES)))

    # translate: the root, then every non-generic type that has anything to do with serde
    tr = Translator(defs)
    seeds = [ROOT_TYPE] + [d["name"] for d in defs
                           if not d["params"] and info[d["name"]]["any_serde"] and d["name"] != ROOT_TYPE]
    for s in seeds:
        tr.ty(("path", [s], [], 0), {}, "seed " + s, set())
    not_translated = [d["name"] for d in defs
                      if d["name"] not in set(tr.origin.values())]
    for n in not_translated:
        d = tr.defs[n]
        if info[n]["any_serde"] and d["params"]:
            die("%s:%d: generic type %s derives serde but is never instantiated"
                % (d["file"], d["line"], n))

    # reachable set from the root
    reach, todo = [], [ROOT_TYPE]
    while todo:
        n = todo.pop(0)
        if n in reach:
            continue
        reach.append(n)
        todo.extend(sorted(tr.deps[n]))

    cargo = cargo_serde_features(repo)
    if "derive" not in cargo["features"]:
        die("Cargo.toml: serde without the \"derive\" feature: %s" % cargo["line"])
    if tr.uses_rc and "rc" not in cargo["features"]:
        die("Cargo.toml: Rc/Arc fields need serde's \"rc\" feature: %s" % cargo["line"])

    # ---- Coq output
    lines = []
    lines.append("(* GENERATED by tools/regen_schema.py from %s of the crate's working\n"
                 "   tree (and Cargo.toml).  Do not edit. *)" % ", ".join(SOURCES))
    lines.append("From Coq Require Import List String Bool.")
    lines.append("From GoSyn Require Import Serde.")
    lines.append("From GoSyn.proofs Require Import SerdeProofs.")
    lines.append("Import ListNotations.")
    lines.append("Open Scope string_scope.")
    lines.append("")
    lines.append("Definition repo_schema : schema := [")
    ents = []
    for n in tr.order:
        ents.append('  (* %s:%d *)\n  ("%s",\n    %s)' % (
            tr.defs[tr.origin[n]]["file"], tr.defs[tr.origin[n]]["line"], n, tr.schema[n]))
    lines.append(";\n".join(ents))
    lines.append("].")
    lines.append("")
    lines.append("(* per type: (derives Serialize and Deserialize in one cfg_attr(feature = \"serde\", ..),\n"
                 "              no serde(...) attribute on the type, its variants or its fields) *)")
    lines.append("Definition repo_flags : flags_t := [")
    fl = []
    for n in tr.order:
        i = info[tr.origin[n]]
        fl.append('  ("%s", (%s, %s))' % (n, "true" if i["both"] else "false",
                                          "false" if i["serde_attrs"] else "true"))
    lines.append(";\n".join(fl))
    lines.append("].")
    lines.append("")
    lines.append('Definition repo_root_name : string := "%s".' % ROOT_TYPE)
    lines.append("Definition repo_root : ty := TNamed repo_root_name.")
    lines.append("")
    lines.append("(* the types reachable from the root *)")
    lines.append("Definition repo_reachable : list string := [")
    lines.append(";\n".join('  "%s"' % n for n in reach))
    lines.append("].")
    lines.append("")
    lines.append("Lemma repo_schema_wf : wf_schema repo_schema = true.")
    lines.append("Proof. vm_compute. reflexivity. Qed.")
    lines.append("")
    lines.append("Lemma repo_root_wf : wf_ty repo_schema repo_root = true.")
    lines.append("Proof. vm_compute. reflexivity. Qed.")
    lines.append("")
    lines.append("Lemma repo_reachable_closed :")
    lines.append("  closed_ok repo_schema repo_flags repo_reachable = true /\\")
    lines.append("  memb repo_root_name repo_reachable = true.")
    lines.append("Proof. split; vm_compute; reflexivity. Qed.")
    lines.append("")
    lines.append("(* every type reachable from the root is defined, derives both traits under the")
    lines.append("   serde feature and carries no serde attribute *)")
    lines.append("Lemma repo_reachable_ok : forall n, reachable repo_schema repo_root_name n ->")
    lines.append("  In n repo_reachable /\\ (exists d, lookup n repo_schema = Some d) /\\")
    lines.append("  flag_ok repo_flags n = true.")
    lines.append("Proof.")
    lines.append("  destruct repo_reachable_closed as [Hc Hr].")
    lines.append("  exact (closed_reachable _ _ _ _ Hc Hr).")
    lines.append("Qed.")
    lines.append("")
    lines.append("(* C20 at the crate's root type: every well-typed File tree survives")
    lines.append("   serialise / deserialise, and re-serialises to identical output *)")
    lines.append("Theorem repo_roundtrip : forall v, has_type repo_schema repo_root v ->")
    lines.append("  de repo_schema repo_root (ser repo_schema repo_root v) = Some v.")
    lines.append("Proof. intros v H. exact (roundtrip _ repo_schema_wf v _ repo_root_wf H). Qed.")
    lines.append("Print Assumptions repo_roundtrip.")
    lines.append("")
    lines.append("Theorem repo_reserialize : forall v v', has_type repo_schema repo_root v ->")
    lines.append("  de repo_schema repo_root (ser repo_schema repo_root v) = Some v' ->")
    lines.append("  ser repo_schema repo_root v' = ser repo_schema repo_root v.")
    lines.append("Proof. intros v v' H. exact (reserialize _ _ v v' repo_schema_wf repo_root_wf H). Qed.")
    lines.append("Print Assumptions repo_reserialize.")
    lines.append("")
    lines.append("(* the serde dependency: %s *)" % cargo["line"].replace("*)", "* )"))
    lines.append("Definition repo_serde_features : list string := [%s]." %
                 "; ".join('"%s"' % f for f in cargo["features"]))
    lines.append("Definition repo_uses_rc : bool := %s." % ("true" if tr.uses_rc else "false"))
    lines.append("Lemma repo_rc_feature : repo_uses_rc = true -> memb \"rc\" repo_serde_features = true.")
    lines.append("Proof. intros _. vm_compute. reflexivity. Qed.")
    lines.append("")
    changed = write_if_changed(out, "\n".join(lines))

    # ---- JSON summary
    types = []
    for n in tr.order:
        d = tr.defs[tr.origin[n]]
        i = info[d["name"]]
        types.append(dict(
            name=n, rust_name=d["name"], kind=d["kind"], file=d["file"], line=d["line"],
            count=tr.field_counts[n],
            derives_both_under_serde_feature=i["both"],
            derive=i["derive"],
            serde_attributes=i["serde_attrs"],
            reachable_from_root=n in reach,
            mentions=sorted(tr.deps[n])))
    all_attrs = [a for d in defs for a in info[d["name"]]["serde_attrs"]]
    summary = dict(
        sources=SOURCES,
        root=ROOT_TYPE,
        output=out,
        output_changed=changed,
        rust_definitions=len(defs),
        schema_types=len(tr.order),
        generic_definitions=[dict(name=d["name"], params=d["params"],
                                  instances=[n for n in tr.order if tr.origin[n] == d["name"]])
                             for d in defs if d["params"]],
        reachable_from_root=reach,
        reachable_count=len(reach),
        types_without_serde=[dict(name=n, file=tr.defs[n]["file"], line=tr.defs[n]["line"])
                             for n in not_translated],
        in_schema_but_unreachable=[n for n in tr.order if n not in reach],
        not_deriving_both=[n for n in tr.order if not info[tr.origin[n]]["both"]],
        serde_attributes=all_attrs,
        not_roundtrippable=tr.not_roundtrippable,
        notes=sorted(tr.notes),
        cargo_serde=cargo,
        skipped_items=dict((k, sum(1 for x in skipped if x["kind"] == k))
                           for k in sorted(set(x["kind"] for x in skipped))),
        types=types)
    json.dump(summary, sys.stdout, indent=1)
    sys.stdout.write("\n")
    if check:
        # the same conditions the generated lemmas check by vm_compute
        bad = []
        bad += ["serde attribute on %s: %s" % (a["on"], a["attr"]) for a in all_attrs]
        bad += ["%s does not derive Serialize and Deserialize in one cfg_attr(feature = \"serde\")" % n
                for n in reach if not info[tr.origin[n]]["both"]]
        bad += tr.not_roundtrippable
        for b in bad:
            sys.stderr.write("regen_schema: CHECK FAILED: %s\n" % b)
        if bad:
            return 1
    return 0


if __name__ == "__main__":
    sys.exit(main(sys.argv))
