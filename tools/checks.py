"""The per-property checks.  Every check follows the protocol of DESIGN.md §2(D):
 1. build the harness from /repo's working tree, regenerate the tables, make the
    property's Coq targets (theorems, pins, regenerated obligations);
 2. hygiene: no Admitted/Axiom/..., Print Assumptions of every property theorem;
 3. run the property's families through implementation, extracted model and the
    extracted spec oracle; a failing input gives VIOLATION with that input as
    replay; a broken obligation or correspondence without a failing input gives
    VIOLATION ... no-failing-input-found."""
import json
import os
import re
import sys

import vlib
from vlib import TieBroken, MachineryFault

ALPHABETS = {
    "num": "01789aefpxXoObB_.+-i",
    "str": "a\\'\"`nxuU0378DF\n日\U0001F600",
    "utf8": "a_0.+<-&^=/*\"'`\n é日\U0001F600",
}


def decode(alpha, idx):
    k = len(alpha)
    ln, count = 0, 1
    while idx >= count:
        idx -= count
        ln += 1
        count *= k
    chars = []
    for _ in range(ln):
        chars.append(alpha[idx % k])
        idx //= k
    return "".join(reversed(chars))


def wrap(kind, s):
    return {"bare": s, "squote": "'" + s + "'", "dquote": '"' + s + '"', "bquote": "`" + s + "`"}[kind]


def total_upto(k, maxlen):
    return sum(k ** i for i in range(maxlen + 1))


# ---------------------------------------------------------------- common steps

def prepare(run, debug=False):
    gv = vlib.build_harness("release")
    try:
        vlib.regen(gv)
        gm = vlib.build_model()
    except TieBroken as e:
        # a regenerated table obligation (or the extraction) no longer checks against /repo's working tree.  The
        # model built last (of the code as it was) still serves the SEARCH for a failing input: every candidate is
        # judged by the spec-side oracle against the crate, never by the model alone.
        gm = os.path.join(vlib.WORK, "gm")
        if not os.path.exists(gm):
            raise
        run.oblige(e.what, False)
        run.pending_broken = [(e.what + " (searching for a failing input with the model built last)", e.log)]
    gvd = vlib.build_harness("debug") if debug else None
    return gv, gm, gvd


MORE_PROPS = {"theories/props/C15.v": ["theories/props/C15_state.v", "theories/props/C15_indep.v"],
              "theories/props/C12.v": ["theories/props/C12_nested.v"],
              "theories/props/C05.v": ["theories/props/C05_leaves.v", "theories/props/C05_tokens.v"],
              "theories/props/C14.v": ["theories/props/C14_roundtrip.v", "theories/props/C02_roundtrip.v"],
              "theories/props/C02.v": ["theories/props/C14_roundtrip.v", "theories/props/C02_roundtrip.v"],
              "theories/props/C03.v": ["theories/props/C14_roundtrip.v", "theories/props/C03_shapes.v", "theories/props/C02_roundtrip.v"],
              "theories/props/C01.v": ["theories/props/C01_depth.v"],
              "theories/props/C13.v": ["theories/props/C13_trailing.v", "theories/props/C13_optsep.v", "theories/props/C13_optsep_struct.v"],
              "theories/props/C16.v": ["theories/props/C16_errors.v", "theories/props/C16_tokens.v"]}


def prove(run, props_file, extra_targets=(), gen_targets=(), allow_axioms=()):
    """make the property's Coq targets; returns the list of broken obligations"""
    broken = []
    targets = []
    have_props = os.path.exists(os.path.join(vlib.COQ, props_file))
    if have_props:
        targets.append(props_file[:-2] + ".vo")
        pin = props_file.replace("props/", "pins/").replace(".v", "_pin.v")
        if os.path.exists(os.path.join(vlib.COQ, pin)):
            targets.append(pin[:-2] + ".vo")
    more = [m for m in MORE_PROPS.get(props_file, []) if os.path.exists(os.path.join(vlib.COQ, m))]
    targets += [m[:-2] + ".vo" for m in more]
    targets += list(extra_targets) + list(gen_targets)
    ok, log = vlib.coq_make(targets)
    failed = vlib.coq_failed_files(log) if not ok else []
    for t in targets:
        base = t[:-3]
        bad = (not ok) and (any(base in f for f in failed) or not os.path.exists(os.path.join(vlib.COQ, t)))
        run.oblige("coq:" + t, not bad)
        if bad:
            broken.append(("coq:" + t, log[-3000:]))
    issues = vlib.hygiene()
    run.oblige("hygiene: no Admitted/admit/Axiom/Parameter/Conjecture/unguarded Variable/guard switches in coq/theories", not issues)
    if issues:
        broken.append(("hygiene", "\n".join(issues)))
    if have_props and not any(b[0].startswith("coq:" + props_file[:-2]) for b in broken):
        thms = vlib.theorems_in(props_file)
        module = props_file[len("theories/"):-2].replace("/", ".")
        try:
            res = vlib.print_assumptions(run.prop, module, thms)
            for m in more:
                if not any(b[0].startswith("coq:" + m[:-2]) for b in broken):
                    t2 = vlib.theorems_in(m)
                    res.update(vlib.print_assumptions(run.prop + "_more", m[len("theories/"):-2].replace("/", "."), t2))
                    thms = thms + t2
        except TieBroken as e:
            res = {}
            broken.append(("assumptions", e.log))
        for t in thms:
            txt = res.get(t, "missing")
            closed = "Closed under the global context" in txt
            if not closed:
                axioms = re.findall(r"^(\S+)\s*:", txt, re.M)
                closed = bool(axioms) and all(a in allow_axioms for a in axioms)
            run.oblige("theorem %s (Print Assumptions: %s)" % (t, "closed" if "Closed" in txt else txt.strip()[:80]), closed)
            if not closed:
                broken.append(("assumptions of " + t, txt))
        run.extra["theorems"] = thms
    return broken


def conclude(run, broken):
    """obligations broken but no failing input exhibited by the families"""
    broken = list(broken) + list(getattr(run, "pending_broken", []))
    if broken and not any(not no_input for _, no_input in run.violations):
        run.violation({"kind": "obligation-broken",
                       "what": [b[0] for b in broken],
                       "log": "\n----\n".join(b[1] for b in broken)[-6000:]}, no_input=True)


# ---------------------------------------------------------------- exhaustive lexical families

def enum_family(run, gv, gm, alpha, wrapk, mode, total, label):
    """both sides enumerate indices [0,total); compare block hashes; judge differences"""
    nshard = vlib.NPROC * 2
    per = ((total + nshard - 1) // nshard + 1023) // 1024 * 1024
    ranges = [(lo, min(lo + per, total)) for lo in range(0, total, per)]
    cmds = []
    for lo, hi in ranges:
        cmds.append([gm, "enum", alpha, wrapk, mode, str(lo), str(hi)])
        cmds.append([gv, "enum", alpha, wrapk, mode, str(lo), str(hi)])
    res = vlib.par(cmds, timeout=3000)
    mblocks, iblocks, oracle_bad = {}, {}, []
    positives = 0
    for k, (rc, out, err) in enumerate(res):
        side = "model" if k % 2 == 0 else "impl"
        if rc != 0:
            if side == "model":
                raise MachineryFault("model enumeration died: " + err[-500:])
            # the crate took the process down (abort / segfault: what undefined behaviour looks like from outside):
            # bisect the shard for the input that does it
            lo, hi = ranges[k // 2]
            while hi - lo > 1:
                mid = (lo + hi) // 2
                r1, _, _ = vlib.sh([gv, "enum", alpha, wrapk, mode, str(lo), str(mid)], timeout=3000)
                if r1 != 0:
                    hi = mid
                else:
                    lo = mid
            r1, _, e1 = vlib.sh([gv, "enum", alpha, wrapk, mode, str(lo), str(hi)], timeout=3000)
            if r1 != 0:
                s_ = wrap(wrapk, decode(ALPHABETS[alpha], lo))
                run.violation({"kind": "impl-vs-spec", "family": label, "index": lo, "input": s_,
                               "oracle": "the harness process died (exit status %s) while the crate scanned this input: %s" % (r1, (e1 or err)[-300:])})
                raise TieBroken("implementation harness died during %s enumeration (input located: %r)" % (label, s_), err[-2000:])
            raise TieBroken("implementation harness died during %s enumeration" % label, err[-2000:])
        for ln in out.splitlines():
            if ln.startswith("ORACLE "):
                oracle_bad.append(ln)
            elif ln.startswith("STATS "):
                positives += int(re.search(r"positives=(\d+)", ln).group(1))
            else:
                lo, h = ln.split()
                (mblocks if side == "model" else iblocks)[int(lo)] = h
    if set(mblocks) != set(iblocks):
        raise MachineryFault("block structure differs between model and implementation enumeration")
    diff_blocks = sorted(lo for lo in mblocks if mblocks[lo] != iblocks[lo])
    run.cov["evaluations"] += total
    run.cov["distinct_nontrivial"] += positives
    fam = {"family": label, "alphabet": ALPHABETS[alpha], "wrap": wrapk, "projection": mode,
           "inputs": total, "exhaustive": True, "spec_positive_inputs": positives,
           "blocks": len(mblocks), "blocks_differing": len(diff_blocks)}
    run.extra.setdefault("families", []).append(fam)
    alpha_s = ALPHABETS[alpha]
    # (a) the model contradicts the spec oracle: with impl == model this is a real failure
    for ln in oracle_bad[:10]:
        idx = int(ln.split()[1])
        s = wrap(wrapk, decode(alpha_s, idx))
        run.violation({"kind": "impl-vs-spec", "family": label, "index": idx, "input": s,
                       "detail": ln, "note": "model and implementation agree with each other here unless listed below"})
    # (b) implementation differs from the model: locate inputs, ask the oracle
    found = 0
    nojudge = []
    for lo in diff_blocks[:6]:
        hi = min(lo + 1024, total)
        (rc1, o1, e1), (rc2, o2, e2) = vlib.par([[gm, "enum", alpha, wrapk, mode, str(lo), str(hi), "verbose"],
                                                 [gv, "enum", alpha, wrapk, mode, str(lo), str(hi), "verbose"]])
        ml = {int(l.split(" ", 1)[0]): l.split(" ", 1)[1] for l in o1.splitlines() if l and l[0].isdigit() and " " in l}
        il = {int(l.split(" ", 1)[0]): l.split(" ", 1)[1] for l in o2.splitlines() if l and l[0].isdigit() and " " in l}
        differing = [i for i in sorted(il) if ml.get(i) != il.get(i)]
        if not differing:
            continue
        jin = "".join("%d\t%s\n" % (i, il[i]) for i in differing)
        rc, jo, je = vlib.sh([gm, "judge", alpha, wrapk], input=jin, timeout=600)
        verdict = {int(l.split(" ", 2)[0]): l.split(" ", 2)[1:] for l in jo.splitlines() if l}
        for i in differing:
            s = wrap(wrapk, decode(alpha_s, i))
            v = verdict.get(i, ["OK"])
            panicked = il[i].startswith("PANIC")
            if v[0] == "BAD" or panicked:
                if found < 5:
                    run.violation({"kind": "impl-vs-spec", "family": label, "index": i, "input": s,
                                   "impl": il[i], "model": ml.get(i), "oracle": " ".join(v)})
                found += 1
            else:
                # the literal recogniser has no opinion on a string that is not ONE literal: ask the spec lexer
                # whether the crate's token sequence (or its refusal) is the spec's
                msg = None
                try:
                    msg = pfam.tokens_vs_spec(s, il[i])
                except Exception:
                    msg = None
                if msg:
                    if found < 5:
                        run.violation({"kind": "impl-vs-spec", "family": label, "index": i, "input": s,
                                       "impl": il[i], "model": ml.get(i), "oracle": msg})
                    found += 1
                else:
                    nojudge.append({"index": i, "input": s, "impl": il[i], "model": ml.get(i)})
    if diff_blocks and not found:
        run.violation({"kind": "correspondence-broken", "family": label,
                       "what": "implementation and model differ on projection '%s' but the spec oracle accepts the implementation's output on every differing input examined" % mode,
                       "differing_blocks": len(diff_blocks), "examples": nojudge[:10]}, no_input=True)
    return fam


def sample_inputs(alpha, wrapk, total, n=6):
    step = max(1, total // n)
    return [wrap(wrapk, decode(ALPHABETS[alpha], i)) for i in range(step // 2, total, step)][:n]


def replay_lex(run, replay, gv, gm, mode="tokens"):
    obj = json.load(open(replay))
    if "input" not in obj:
        print("replay file names a broken obligation/correspondence, not an input: " + str(obj.get("what")))
        return
    s = obj["input"]
    il = vlib.run_records(gv, "tokens", [s])[0]
    ml = vlib.run_records(gm, "tokens", [s])[0]
    print("input : %r\nimpl  : %s\nmodel : %s" % (s, il, ml))
    if "index" in obj and "family" in obj:
        fam = obj["family"].split(":")
        if len(fam) == 3:
            rc, jo, je = vlib.sh([gm, "judge", fam[1], fam[2]], input="%d\t%s\n" % (obj["index"], il))
            print("oracle: " + jo.strip())
            if " BAD " in jo or il.startswith("PANIC"):
                run.violation(dict(obj, replayed=True))


def long_literal_family(run, gv, gm, kind, cands, label):
    """structured longer literal candidates (beyond the exhaustive sweep): crate token line == model token line, and
    the extracted spec oracle (proved equivalent to the spec relation) judges the crate's answer"""
    cands = sorted(set(cands))
    il = vlib.run_records(gv, "tokens", cands)
    rc, out, err = vlib.sh([gm, "lit", kind], input=vlib.frame(cands), timeout=1200)
    if rc != 0:
        raise MachineryFault("model lit mode died: " + err[-300:])
    ml = out.split("\n")
    if ml and ml[-1] == "":
        ml.pop()
    if len(ml) != len(cands):
        raise MachineryFault("model lit mode: %d answers for %d candidates" % (len(ml), len(cands)))
    bad = 0
    diff = []
    pos = 0
    for s_, a, mb in zip(cands, il, ml):
        b, _, verdict = mb.rpartition("\t")
        single = re.match(r"^0:([NFMRS])(\S*) \d+:O; \| EOF", a)
        is_lit = bool(single) and pfam.unesc(single.group(2)) == s_
        spec = int(verdict)
        if spec:
            pos += 1
        if bool(spec) != is_lit or (spec and single.group(1) != chr(spec)):
            bad += 1
            if bad <= 3:
                run.violation({"kind": "impl-vs-spec", "family": label, "input": s_, "impl": a,
                               "oracle": "spec says %s, the crate scans: %s" % (("a %s literal" % chr(spec)) if spec else "not one literal", a[:120])})
        elif pfam.proj_full(a).split(" | ")[0:2] != b.split(" | ")[0:2]:
            diff.append({"input": s_, "impl": a, "model": b})
    run.cov["evaluations"] += len(cands)
    run.cov["distinct_nontrivial"] += pos
    run.extra.setdefault("families", []).append({"family": label, "inputs": len(cands), "spec_positive_inputs": pos,
                                                  "oracle_failures": bad, "model_differs": len(diff)})
    if diff and not bad:
        run.violation({"kind": "correspondence-broken", "family": label, "examples": diff[:5],
                       "what": "crate and model token lines differ on longer literals; the spec oracle accepts the crate everywhere"}, no_input=True)


def long_string_candidates(rng, n):
    hexd = "0123456789abcdefABCDEF"
    specials = ["D7FF", "D800", "DBFF", "DC00", "DFFF", "E000", "FFFF", "0000", "0041", "10FFFF", "110000", "00D800", "00DFFF",
                "00E000", "0010FFFF", "00110000", "0000D800", "0000DFFF", "0000D7FF", "0000E000", "FFFFFFFF", "7FFFFFFF"]

    def esc():
        k = rng.randrange(10)
        if k == 0:
            return "\\" + rng.choice("abfnrtv\\'\"")
        if k == 1:
            return "\\" + "".join(rng.choice("01234567") for _ in range(rng.choice([1, 2, 3, 3, 3, 4])))
        if k == 2:
            return "\\x" + "".join(rng.choice(hexd) for _ in range(rng.choice([1, 2, 2, 2, 3])))
        if k == 3:
            return "\\u" + "".join(rng.choice(hexd) for _ in range(rng.choice([3, 4, 4, 4, 5])))
        if k == 4:
            return "\\U" + "".join(rng.choice(hexd + "000000") for _ in range(rng.choice([7, 8, 8, 8, 9])))
        if k == 5:
            sp = rng.choice(specials)
            return ("\\u" + sp[-4:]) if len(sp) <= 4 else ("\\U" + sp.rjust(8, "0")[-8:])
        if k == 6:
            return rng.choice(["\\377", "\\400", "\\000", "\\xff", "\\x", "\\u12", "\\U0010FFFF", "\\U00110000", "\\UFFFFFFFF"])
        return rng.choice(["a", "Z", " ", "é", "日", "\U0001F600", "0", "`", "\t"])
    out = []
    for _ in range(n):
        body = "".join(esc() for _ in range(1 + rng.randrange(4)))
        q = rng.choice(["'", '"', '"', "`"])
        if q == "'" and rng.random() < 0.7:
            body = esc()
        out.append(q + body + q)
        if rng.random() < 0.1:
            out.append(q + body)            # unterminated
        if rng.random() < 0.1:
            out.append(q + body + "\n" + q)  # raw newline inside
    # every printable ASCII character directly after a backslash (the spec's escape table is abfnrtv\\'" + digits xuU)
    for c in map(chr, range(32, 127)):
        out += ["'\\" + c + "'", '"\\' + c + '"', '"a\\' + c + 'b"']
    for sp in specials:
        for q in ("'", '"'):
            out.append(q + "\\u" + sp[-4:].rjust(4, "0") + q)
            out.append(q + "\\U" + sp.rjust(8, "0")[-8:] + q)
            out.append(q + "a\\U" + sp.rjust(8, "0")[-8:] + "b" + q)
    return out


def long_number_candidates(rng, n):
    out = []
    digs = {"": "0123456789", "0x": "0123456789abcdefABCDEF", "0X": "0123456789abcdefABCDEF", "0b": "01", "0B": "01", "0o": "01234567",
            "0O": "01234567", "0": "01234567"}
    for _ in range(n):
        pre = rng.choice(list(digs))

        def run_(k=None):
            return "".join(rng.choice(digs[pre] + ("_" if rng.random() < 0.3 else "")) for _ in range(k or 1 + rng.randrange(6)))
        s_ = pre + run_()
        if rng.random() < 0.5:
            s_ += "." + (run_() if rng.random() < 0.8 else "")
        if rng.random() < 0.5:
            s_ += rng.choice("eEpP") + rng.choice(["", "+", "-"]) + "".join(rng.choice("0123456789_") for _ in range(rng.randrange(4)))
        if rng.random() < 0.3:
            s_ += "i"
        out.append(s_)
    # every digit and hex letter at the first and the second digit position of every base (digit-class tables)
    for pre in ("0b", "0B", "0o", "0O", "0x", "0X", "0", "", "0b1", "0o1", "0x1", "01", "1", "0b_", "0x.", "1.", "1e", "0x1p"):
        for ch in "0123456789abcdefABCDEFgG_":
            out += [pre + ch, pre + ch + "1", pre + ch + "i"]
    out += ["1\u0663", "12\u0663\u0664", "4\uff12", "0\U0001D7CE", "1.\u0663", "1e\u0663", "0x\uff11", "7\u0667\n", "\u0663", "1_\u0663"]
    out += ["0x15e", "0xBadFace", "0XE", "0xdead_beef", "0x1e+2", "0x1p-2", "0xep1", "0x.ep1", "1e5", "0e0", "0777", "0o7_7", "0b1_0",
            "1_000.000_1e+1_0", "0x_1F", "0_7", "09.5", "09e1", "089i", "0x1P1i", "1__0", "1_", "0x1.p1", "0x1.8p", ".5e-3i"]
    return out


# ---------------------------------------------------------------- C09

def check_c09(run, replay):
    run.trusted = vlib.BASE_TRUST
    gv, gm, _ = prepare(run)
    if replay:
        return replay_lex(run, replay, gv, gm)
    broken = prove(run, "theories/props/C09.v", gen_targets=["gen/GenClasses.vo"])
    maxlen = 5 if run.tier == "quick" else 6
    total = total_upto(20, maxlen)
    enum_family(run, gv, gm, "num", "bare", "toks", total, "F-num:num:bare")
    long_literal_family(run, gv, gm, "num", long_number_candidates(__import__("random").Random(seed_of(run)), budget(run, 20000, 200000)),
                        "F-num-long")
    # the same literals behind multi-byte text (character index vs byte offset): every string <= 3 that starts a number
    # and a sample of the longer candidates, after five prefixes; judged by the spec lexer, compared with the model
    fam = Families(run, gv, gm)
    nums = [decode(ALPHABETS["num"], i) for i in range(total_upto(20, 3))]
    nums = [n for n in nums if n and (n[0].isdigit() or n[0] == ".")]
    nums += long_number_candidates(__import__("random").Random(seed_of(run) + 1), budget(run, 1500, 15000))
    cases = [pfam.Case(pre + n + post, "F-num-after-multibyte") for n in sorted(set(nums))
             for pre, post in (("\u00e9 ", ""), ("\u65e5\u672c = ", "\n"), ("/*\U0001F600*/", ";"), ("\"\u00e9\" + ", " // \u00e9"), ("x\n\t\u65e5 := ", " \u00e9"))]
    impl, mod, toks = fam.exec(cases, mode="tokens")
    fam.judge(cases, impl, mod, toks, "full", oracle_tokens, "numeric literals after multi-byte text")
    run.extra.setdefault("families", []).extend(dict(v, family=k) for k, v in sorted(fam.fam_stats.items()))
    if fam.corr_broken and not any(not ni for _, ni in run.violations):
        broken.append(("correspondence on F-num-after-multibyte", json.dumps(fam.corr_broken[:3])[:3000]))
    run.cov["rule"] = ("exhaustive: every string of length <= %d over {0 1 7 8 9 a e f p x X o O b B _ . + - i} "
                       "scanned by the crate (hook) and by the extracted model, projection tokens+EOF/ERR, block hashes compared; "
                       "the extracted spec classifier (regex transcription of the EBNF) judges every string: a string that is a "
                       "numeric literal per spec must scan as exactly that literal with that kind, any other string must not; "
                       "non-trivial = strings that are numeric literals per spec" % maxlen)
    run.cov["exhaustive"] = True
    run.cov["samples"] = sample_inputs("num", "bare", total)
    conclude(run, broken)


# ---------------------------------------------------------------- C10

def check_c10(run, replay):
    run.trusted = vlib.BASE_TRUST
    gv, gm, _ = prepare(run)
    if replay:
        return replay_lex(run, replay, gv, gm)
    broken = prove(run, "theories/props/C10.v", gen_targets=["gen/GenClasses.vo"])
    maxlen = 4 if run.tier == "quick" else 5
    total = total_upto(18, maxlen)
    for w in ("squote", "dquote", "bquote"):
        enum_family(run, gv, gm, "str", w, "toks", total, "F-str:str:" + w)
    cands = long_string_candidates(__import__("random").Random(seed_of(run)), budget(run, 20000, 200000))
    long_literal_family(run, gv, gm, "rune", [c for c in cands if c.startswith("'")], "F-str-long:rune")
    long_literal_family(run, gv, gm, "string", [c for c in cands if not c.startswith("'")], "F-str-long:string")
    run.cov["rule"] = ("exhaustive: every literal body of length <= %d over {a \\ ' \" ` n x u U 0 3 7 8 D F newline U+65E5 U+1F600} "
                       "inside each of the three quote kinds, scanned by the crate (hook) and by the extracted model, projection "
                       "tokens+EOF/ERR, block hashes compared; the extracted spec recogniser (regex transcription of the EBNF and its "
                       "prose constraints) judges every string: a well-formed literal must scan as exactly one literal token with "
                       "verbatim text, anything else must not; non-trivial = well-formed literals" % maxlen)
    run.cov["exhaustive"] = True
    run.cov["samples"] = sample_inputs("str", "squote", total, 3) + sample_inputs("str", "dquote", total, 3)
    conclude(run, broken)


# ---------------------------------------------------------------- C17

def unsafe_inventory():
    """every `unsafe` / unchecked conversion in the crate's non-test sources"""
    found = []
    for f in sorted(os.listdir(os.path.join(vlib.REPO, "src"))):
        if not f.endswith(".rs"):
            continue
        src = open(os.path.join(vlib.REPO, "src", f)).read()
        src = re.sub(r"//[^\n]*", "", src)
        fn = None
        for i, ln in enumerate(src.splitlines(), 1):
            m = re.search(r"\bfn\s+(\w+)", ln)
            if m:
                fn = m.group(1)
            if re.search(r"\bunsafe\b|_unchecked\b|\btransmute\b|\bfrom_raw_parts\b|\bMaybeUninit\b|\bstatic\s+mut\b", ln):
                found.append((f, fn, ln.strip()))
    return found


def panics_family(run, gv, alpha, total, label):
    nshard = vlib.NPROC
    per = (total + nshard - 1) // nshard
    ranges = [(lo, min(lo + per, total)) for lo in range(0, total, per)]
    res = vlib.par([[gv, "enum", alpha, "bare", "panics", str(lo), str(hi)] for lo, hi in ranges], timeout=3000)
    n = 0
    hits = []
    for rc, out, err in res:
        if rc != 0:
            raise TieBroken("implementation harness died during %s" % label, err[-2000:])
        for ln in out.splitlines():
            if ln.startswith("DONE "):
                n += int(ln.split()[1])
            elif ln:
                hits.append(ln)
    run.cov["evaluations"] += n
    run.extra.setdefault("families", []).append({"family": label, "inputs": total, "programs_per_input": 3,
                                                  "executions": n, "exhaustive": True, "panics": len(hits)})
    for ln in hits[:5]:
        idx, k, msg = ln.split(" ", 2)
        s = decode(ALPHABETS[alpha], int(idx))
        ctx = ["{}", "package p; var _ = {}", "package p; func f() {{ {} }}"][int(k)].format(s)
        run.violation({"kind": "panic", "family": label, "index": int(idx), "input": ctx, "impl": msg})
    return hits


def _file_lines(gv, d, texts, bom):
    """write each text (optionally behind a byte order mark) to d/<i>.go and parse it through gosyn::parse_file"""
    os.makedirs(d, exist_ok=True)
    paths = []
    for i, t in enumerate(texts):
        pth = os.path.join(d, "%d.go" % i)
        with open(pth, "wb") as f:
            f.write((b"\xef\xbb\xbf" if bom else b"") + t.encode("utf-8"))
        paths.append(pth)
    out = vlib.run_records(gv, "file", paths)
    return [re.sub(r" ?path=\S*", "", ln) for ln in out]


def bom_files_family(run, gv, maxlen):
    """the scanner's other constructor (from_file: read, strip a byte order mark, build the same tables):
    every string of the utf8 alphabet up to maxlen as a variable initialiser in a file with and without a
    byte order mark, with the assertion compiled in; the two must parse alike and neither may panic"""
    import shutil
    total = total_upto(len(ALPHABETS["utf8"]), maxlen)
    texts = ["package p; var _ = " + decode(ALPHABETS["utf8"], i) for i in range(total)]
    base = os.path.join(vlib.WORK, "c17files")
    shutil.rmtree(base, ignore_errors=True)
    try:
        plain = _file_lines(gv, os.path.join(base, "plain"), texts, False)
        bom = _file_lines(gv, os.path.join(base, "bom"), texts, True)
    finally:
        shutil.rmtree(base, ignore_errors=True)
    bad = 0
    for t, a, b in zip(texts, plain, bom):
        msg = None
        if "PANIC" in a or "PANIC" in b:
            msg = "panic while parsing the file: " + (b if "PANIC" in b else a)[:200]
        elif a != b:
            msg = "a file with a byte order mark parses differently from the same file without it"
        if msg:
            bad += 1
            if bad <= 3:
                run.violation({"kind": "file", "family": "F-utf8-files", "file_text": t, "bom": "PANIC" in b or a != b, "impl": msg,
                               "plain": a[:300], "with_bom": b[:300]})
    run.cov["evaluations"] += 2 * total
    run.extra.setdefault("families", []).append({"family": "F-utf8-files (parse_file, with and without BOM)", "inputs": total,
                                                  "executions": 2 * total, "exhaustive": True, "failures": bad})


def check_c17(run, replay):
    run.trusted = vlib.BASE_TRUST + ["the cfg(gosyn_verif) assertion std::str::from_utf8(part).is_ok() in next_nstr"]
    gv, gm, gvd = prepare(run, debug=True)
    if replay:
        obj = json.load(open(replay))
        if "file_text" in obj:
            import shutil
            base = os.path.join(vlib.WORK, "c17replay")
            a = _file_lines(gv, os.path.join(base, "plain"), [obj["file_text"]], False)[0]
            b = _file_lines(gv, os.path.join(base, "bom"), [obj["file_text"]], True)[0]
            shutil.rmtree(base, ignore_errors=True)
            print("file text: %r\nplain : %s\nbom   : %s" % (obj["file_text"], a[:300], b[:300]))
            if "PANIC" in a or "PANIC" in b or a != b:
                run.violation(dict(obj, replayed=True))
            return
        if "input" in obj:
            rc, out, err = vlib.sh([gv, "outcome"], input=vlib.frame([obj["input"]]))
            print("input: %r\nimpl : %s" % (obj["input"], out.strip()))
            if "PANIC" in out:
                run.violation(dict(obj, replayed=True))
        return
    broken = prove(run, "theories/props/C17.v")
    inv = unsafe_inventory()
    expected = [("scanner.rs", "next_nstr")]
    ok_inv = [(f, fn) for f, fn, _ in inv] == expected
    run.oblige("unsafe inventory of src/*.rs = exactly one unchecked conversion, in Scanner::next_nstr (the modelled one)", ok_inv)
    if not ok_inv:
        broken.append(("unsafe-inventory", "found: %r, modelled: %r" % (inv, expected)))
    maxlen = 4 if run.tier == "quick" else 5
    total = total_upto(len(ALPHABETS["utf8"]), maxlen)
    enum_family(run, gv, gm, "utf8", "bare", "toks", total, "F-utf8:utf8:bare")
    panics_family(run, gv, "utf8", total, "F-utf8-panics-release")
    panics_family(run, gvd, "utf8", total_upto(len(ALPHABETS["utf8"]), maxlen - 1), "F-utf8-panics-debug")
    bom_files_family(run, gv, 3 if run.tier == "quick" else 4)
    # characters whose encodings sit at the edges of the UTF-8 byte classes (lead bytes C2, DF, E0, EF, F0, F4;
    # continuation bytes 80 and BF): every string <= 3 over them and the token-forming ASCII characters, scanned and
    # parsed with the assertion compiled in, compared with the model and judged by the spec lexer
    edge = "a+<=\"' \u0080\u00bf\u07ff\u0800\u5fff\ufffd\uffff\U00010000\U0003ffff\U0010ffff"
    famu = Families(run, gv, gm)
    ecases = []
    for i in range(total_upto(len(edge), 3 if run.tier == "quick" else 4)):
        w = decode(edge, i)
        ecases.append(pfam.Case(w, "F-utf8-edges"))
    impl_e, mod_e, toks_e = famu.exec(ecases, mode="tokens")
    famu.judge(ecases, impl_e, mod_e, toks_e, "full", oracle_tokens, "byte-class edge characters at every offset of a token")
    pcs = [pfam.Case("package p; var _ = " + c.src, "F-utf8-edges-parse") for c in ecases] + \
        [pfam.Case("package p; func f() { " + c.src + " }", "F-utf8-edges-parse") for c in ecases[:: 3]]
    impl_p, mod_p, toks_p = famu.exec(pcs)
    famu.judge(pcs, impl_p, mod_p, toks_p, "outcome", None, "the same strings parsed")
    run.extra.setdefault("families", []).extend(dict(v, family=k) for k, v in sorted(famu.fam_stats.items()))
    if famu.corr_broken and not any(not ni for _, ni in run.violations):
        broken.append(("correspondence on F-utf8-edges", json.dumps(famu.corr_broken[:3])[:3000]))
    # a source type whose AsRef<str> answers differently on every call (safe, caller-defined): the tables and the
    # stored text must come from ONE reading; the result must be the parse of the first answer, without a panic
    firsts = ["package p; var x = aaaa + bbbb", "x + y*z", "package p\nfunc f() { a <<= 1; b &^= 2 }", "a.b(c)[d]", "\u65e5 := \"\u00e9\""]
    laters = ["\u65e5" * 12, "\u00e9x" * 10, "a\U0001F600" * 8, "", "\u00bf\uffff" * 9, "package p"]
    recs = [f + "\x01" + l for f in firsts for l in laters]
    got = vlib.run_records(gv, "fickle", recs)
    want = vlib.run_records(gv, "parse", [r.split("\x01")[0] for r in recs])
    nf = 0
    for r, g_, w_ in zip(recs, got, want):
        calls, _, line = g_.partition(" ")
        if "PANIC" in g_ or "DIED" in g_ or line != w_:
            nf += 1
            if nf <= 3:
                run.violation({"kind": "impl-vs-spec", "family": "F-fickle-source", "input": r, "impl": g_[:300], "expected": w_[:300],
                               "oracle": "a source whose AsRef<str> changes between calls: the result must be the parse of the first answer "
                               "(as_ref calls: %s), got: %s" % (calls, g_[:160])})
    run.cov["evaluations"] += len(recs)
    run.extra.setdefault("families", []).append({"family": "F-fickle-source", "inputs": len(recs), "failures": nf})
    run.cov["distinct_nontrivial"] = sum(1 for i in range(min(total, 200000)) if any(ord(c) > 127 for c in decode(ALPHABETS["utf8"], i)))
    run.cov["rule"] = ("exhaustive: every string of length <= %d over 1-, 2-, 3- and 4-byte characters, operator characters, digits, quotes, "
                       "blank and newline; scanned alone (crate vs extracted model) and parsed as a variable initialiser and as a statement "
                       "with the cfg(gosyn_verif) UTF-8 assertion compiled into next_nstr (release and debug); a panic is a failure; "
                       "non-trivial = strings containing a multi-byte character (counted over the first 200000 indices)" % maxlen)
    run.cov["exhaustive"] = True
    run.cov["samples"] = sample_inputs("utf8", "bare", total)
    conclude(run, broken)


# ---------------------------------------------------------------- parser-level families

import pfam  # noqa: E402


def known_entries(prop):
    return [k for k in vlib.known_findings() if k.get("status") == "known" and prop in k.get("properties", [k.get("property")])]


def classify_known(prop, case, msg, line):
    """is this failing case an instance of a listed known finding? -> entry or None"""
    for k in known_entries(prop):
        fn = KNOWN_CLASSIFIERS.get(k["id"])
        if fn is not None and fn(case, msg or "", line or ""):
            return k
    return None


class Families:
    """runs case lists through the crate (gv) and the extracted model (gm) and judges them"""

    def __init__(self, run, gv, gm):
        self.run, self.gv, self.gm = run, gv, gm
        self.failing = 0
        self.corr_broken = []
        self.fam_stats = {}
        self.nontrivial = set()

    def exec(self, cases, mode="parse", tokens=False, model=True):
        srcs = [c.src for c in cases]
        impl = vlib.run_records(self.gv, mode, srcs)
        mod = vlib.run_records(self.gm, mode, srcs) if model else [None] * len(srcs)
        toks = vlib.run_records(self.gv, "tokens", srcs) if tokens else [None] * len(srcs)
        return impl, mod, toks

    def judge(self, cases, impl, mod, toks, proj, oracle, what, nontrivial=None, max_replays=4):
        """oracle(case, impl_line, token_line) -> None | message.  proj: projection compared with the model."""
        run = self.run
        pf = pfam.PROJ[proj]
        seen_msgs = {}
        flagged = set()
        for i, c in enumerate(cases):
            st = self.fam_stats.setdefault(c.family, {"inputs": 0, "accepted": 0, "rejected": 0, "oracle_failures": 0,
                                                      "model_differs": 0})
            st["inputs"] += 1
            oc = pfam.outcome(impl[i])
            st["accepted" if oc == "OK" else "rejected"] += 1
            if oc in ("PANIC", "DIED", "EMPTY"):
                msg = "implementation did not return: " + impl[i][:200]
            else:
                try:
                    msg = oracle(c, impl[i], toks[i]) if oracle else None
                except Exception as e:   # malformed canonical output
                    raise MachineryFault("oracle crashed on %r: %r" % (c.src[:200], e))
            if nontrivial is None or nontrivial(c, impl[i]):
                self.nontrivial.add(hash(c.src))
            if msg:
                st["oracle_failures"] += 1
                flagged.add(i)
                k = classify_known(run.prop, c, msg, impl[i])
                if k is not None:
                    run.known_finding("%s: %s (e.g. %r)" % (k["id"], k["what"], k.get("witness", "")[:80]))
                    continue
                key = re.sub(r"[0-9]+", "N", msg)[:60]
                seen_msgs[key] = seen_msgs.get(key, 0) + 1
                if seen_msgs[key] == 1 and self.failing < max_replays:
                    self.failing += 1
                    run.violation({"kind": "impl-vs-spec", "family": c.family, "what": what, "input": c.src,
                                   "style": c.style, "oracle": msg, "impl": impl[i][:3000],
                                   "model": (mod[i] or "")[:3000]})
        if mod[0] is not None:
            for i, c in enumerate(cases):
                if pf(impl[i]) != pf(mod[i]):
                    self.fam_stats[c.family]["model_differs"] += 1
                    if i not in flagged:
                        self.corr_broken.append({"input": c.src, "family": c.family, "projection": proj,
                                                 "impl": impl[i][:1500], "model": mod[i][:1500]})
        run.cov["evaluations"] += len(cases)

    def finish(self, broken):
        """correspondence differences without a failing input -> no-failing-input-found"""
        run = self.run
        run.cov["distinct_nontrivial"] += len(self.nontrivial)
        run.extra.setdefault("families", []).extend(dict(v, family=k) for k, v in sorted(self.fam_stats.items()))
        if self.corr_broken and not any(not ni for _, ni in run.violations):
            run.violation({"kind": "correspondence-broken",
                           "what": "crate and model differ on a compared projection; the spec oracle accepts the crate's output on every differing input, so no failing input is exhibited",
                           "count": len(self.corr_broken), "examples": self.corr_broken[:5]}, no_input=True)
        run.oblige("correspondence: crate == extracted model on the compared projection for every generated input", not self.corr_broken)
        conclude(run, broken)


def budget(run, quick, thorough):
    return quick if run.tier == "quick" else thorough


def seed_of(run):
    return run.seed % 1000003


def replay_parse(run, replay, gv, gm, mode="parse"):
    obj = json.load(open(replay))
    if "input" not in obj:
        print("replay file names a broken obligation/correspondence, not an input: " + str(obj.get("what")))
        return None
    s = obj["input"]
    il = vlib.run_records(gv, obj.get("mode", mode), [s])[0]
    ml = vlib.run_records(gm, obj.get("mode", mode), [s])[0]
    tl = vlib.run_records(gv, "tokens", [s])[0]
    print("input : %r\nimpl  : %s\nmodel : %s" % (s, il[:2000], ml[:2000]))
    return pfam.Case(s, obj.get("family", "replay"), style=obj.get("style")), il, ml, tl


def oracle_positions(c, line, tl):
    t = pfam.tree_of(line)
    if t is None:
        return None
    msg = pfam.positions_ok(c.src, t)
    if msg:
        return msg
    # comment text: the listed comments and every comment attached to a node stand at their offset
    so = pfam.split_ok(line)
    where = [("File.comments", pfam.parse_comments(so[1]))]
    todo = [t]
    while todo:
        x = todo.pop()
        if x.docs:
            d = " ".join(x.docs)
            where.append((x.tag, pfam.parse_comments(d[2:-1] if d.startswith("#[") and d.endswith("]") else "")))
        todo.extend(x.kids)
    for w, cs in where:
        for p, text in cs:
            if c.src[p:p + len(text)] != text:
                return "comment %r of %s is recorded at @%d where the source has %r" % (text[:30], w, p, c.src[p:p + min(len(text), 30)])
        # siblings in source order: each list of comments is strictly increasing in position
        ps = [p for p, _ in cs]
        if any(a >= b for a, b in zip(ps, ps[1:])):
            return "comments of %s are not in source order: positions %r" % (w, ps[:12])
    return None


def oracle_accounted(c, line, tl):
    t = pfam.tree_of(line)
    if t is None:
        return None
    toks, _ = pfam.parse_token_line(tl)
    return pfam.accounted(c.src, t, toks)


def oracle_comments(c, line, tl):
    if not line.startswith("OK "):
        return None
    toks, _ = pfam.parse_token_line(tl)
    return pfam.comments_ok(line, toks)


def parser_check(prop, props_file, proj, oracle, what, rule, families, tokens=True, gen_targets=(),
                 nontrivial=None, extra=None):
    def check(run, replay):
        run.trusted = vlib.BASE_TRUST
        gv, gm, _ = prepare(run)
        if replay:
            r = replay_parse(run, replay, gv, gm)
            if r:
                c, il, ml, tl = r
                msg = oracle(c, il, tl) if oracle else None
                print("oracle: %s" % msg)
                if msg and classify_known(prop, c, msg, il) is None:
                    run.violation({"kind": "impl-vs-spec", "input": c.src, "oracle": msg, "replayed": True})
            return
        broken = prove(run, props_file, gen_targets=gen_targets)
        fam = Families(run, gv, gm)
        cases = families(run)
        impl, mod, toks = fam.exec(cases, tokens=tokens)
        fam.judge(cases, impl, mod, toks, proj, oracle, what, nontrivial=nontrivial)
        if extra:
            extra(run, fam, gv, gm)
        run.cov["rule"] = rule
        run.cov["samples"] = [c.src[:300] for c in cases[:: max(1, len(cases) // 5)]][:5]
        fam.finish(broken)
    return check


def fam_valid_mut_soup(nv, nm, ns, styles=("random", "comments", "crlf")):
    def f(run):
        n = budget(run, nv, nv * 6)
        progs, hit, labels = pfam.gen_programs(seed_of(run), n)
        run.extra["generator_coverage"] = {"labels_hit": len(hit & labels), "labels": len(labels)}
        cases = pfam.valid_cases(progs, styles)
        if nm:
            cases += pfam.mutant_cases(progs, nm)
            small, _, _ = pfam.gen_programs(seed_of(run) + 7, budget(run, 60, 400), budgets=(8, 12, 15))
            cases += pfam.systematic_mutants(small)
        if ns:
            cases += pfam.soup_cases(seed_of(run), budget(run, ns, ns * 6))
        return cases
    return f


def accepted(c, line):
    return line.startswith("OK ")


check_c05 = parser_check(
    "C05", "theories/props/C05.v", "positions", oracle_positions,
    "every position in the tree is the char offset of the lexeme it names",
    "generated valid programs (grammar-directed generator, every production x context) in random / comment-laden / CRLF layouts with "
    "multi-byte identifiers, strings and comments, plus 1-3 token mutations of them and token soup; every ACCEPTED input is judged: "
    "each position must hold the lexeme its node names (table in tools/pfam.py), pairs open before close, inner children strictly "
    "between, identifier/literal leaves in source order; crate and model compared on the tree with all positions; non-trivial = accepted inputs",
    lambda run: fam_valid_mut_soup(250, 2, 300)(run) + pfam.position_directed_cases() + pfam.comment_injection_cases() + pfam.line_end_comment_cases(), nontrivial=accepted)

def order_cases():
    """the order the grammar fixes between top-level parts: package clause, imports, other declarations"""
    decls = ["var x int", "func f() {}", "type T int", "const c = 1", "var (\n\ta = 1\n)", "func (r R) m() {}"]
    imps = ["import \"fmt\"", "import (\n\t\"a\"\n\tb \"c\"\n)", "import . \"d\"", "import ()", "import _ \"e\""]
    out = []
    for d in decls:
        for i in imps:
            out.append(pfam.Case("package p\n\n%s\n\n%s\n" % (d, i), "F-order"))
            out.append(pfam.Case("package p\n\n%s\n\n%s\n\n%s\n" % (imps[0], d, i), "F-order"))
            out.append(pfam.Case("package p\n\n%s\n\n%s\n" % (i, d), "F-order"))
            out.append(pfam.Case("%s\n\npackage p\n\n%s\n" % (i, d), "F-order"))
            out.append(pfam.Case("package p; %s; %s; package q" % (i.replace("\n", " ").replace("( ", "(").replace("\t", ""), d), "F-order"))
    # what follows a branch keyword on its line is a label, the next statement, or an error: never dropped
    for kw in ("break", "continue", "goto", "fallthrough", "return"):
        for rest in ("x", "x; y()", "x <- 1", "x++", "x.y()", "x, y = 1, 2", "x := 1", "\n\tx()", "; x()", "L\n\tz()", "1", "x y", "(x)"):
            for ctx in ("func f() { for { %s } }", "func f() { switch { case a: %s\n\tcase b: } }", "func f() { L: for { select { case <-c: %s } } }"):
                out.append(pfam.Case("package p\n" + ctx % (kw + " " + rest) + "\n", "F-branch"))
    return out


check_c06 = parser_check(
    "C06", "theories/props/C06.v", "positions", oracle_accounted,
    "identifier/literal tokens == leaves of the tree; brackets nested; package clause first",
    "generated valid programs, 1-3 token deletions/insertions/duplications/swaps/replacements of them, token soup; for every ACCEPTED "
    "input the scanner's token dump (hook) is compared with the leaves of the returned tree (same text, same offset, each once, in order), "
    "the bracket tokens must nest and the first token must be `package`; non-trivial = accepted inputs",
    lambda run: fam_valid_mut_soup(200, 6, 1500, styles=("random", "dense"))(run) + pfam.text_mutants() + order_cases() +
    [pfam.Case(c.src, "F-params") for c in pfam.param_cases()] + pfam.bom_cases(), nontrivial=accepted)

check_c11 = parser_check(
    "C11", "theories/props/C11.v", "comments", oracle_comments,
    "File.comments holds every comment token exactly once, in order, verbatim",
    "generated valid programs rendered with comments in random gaps (style comments: line and general comments, multi-byte, "
    "inside type-parameter lists, interface and struct bodies, at line ends) and accepted mutants; the comment tokens of the hook's "
    "token dump must equal File.comments (offset and text); non-trivial = accepted inputs containing at least one comment",
    lambda run: fam_valid_mut_soup(300, 1, 0, styles=("comments", "comments", "random"))(run) + pfam.comment_injection_cases() + pfam.line_end_comment_cases() + pfam.bom_cases(),
    nontrivial=lambda c, l: l.startswith("OK ") and ("/*" in c.src or "//" in c.src))



# ---------------------------------------------------------------- C04

def check_c04(run, replay):
    run.trusted = vlib.BASE_TRUST
    gv, gm, _ = prepare(run)
    if replay:
        r = replay_parse(run, replay, gv, gm, mode="expr")
        return
    broken = prove(run, "theories/props/C04.v", gen_targets=["gen/GenPrec.vo"])
    fam = Families(run, gv, gm)
    cases = pfam.ops_cases(quadruples=(run.tier == "thorough"), seed=seed_of(run),
                           nrandom=budget(run, 2000, 20000))
    impl, mod, toks = fam.exec(cases, mode="expr")
    for c in cases:
        c.note = "expr"
    fam.judge(cases, impl, mod, toks, "shape", pfam.oracle_expected_shape,
              "operators group by the spec's five precedence levels, left associative; unary binds tighter")
    ctx = pfam.ops_context_cases()
    impl_c, mod_c, toks_c = fam.exec(ctx)
    fam.judge(ctx, impl_c, mod_c, toks_c, "shape", pfam.oracle_contains_shape, "the same grouping on every path into the expression parser")
    cases = cases + ctx
    run.cov["rule"] = ("exhaustive: every sequence of 1, 2, 3%s of the 19 binary operators over distinct operands, every unary operator "
                       "in every operand slot of every binary operator, every unary operator before every postfix form and before every "
                       "unary operator; plus random mixtures with one parenthesised sub-range; parsed through Parser::expression by crate "
                       "and model; oracle: shunting-yard grouping by the spec's table; non-trivial = all (distinct expressions)"
                       % (", 4" if run.tier == "thorough" else ""))
    run.cov["exhaustive"] = True
    run.cov["samples"] = [c.src for c in cases[:: max(1, len(cases) // 6)]][:6]
    for c in cases:
        fam.nontrivial.add(hash(c.src))
    fam.finish(broken)


# ---------------------------------------------------------------- C07 / C08 (scanner-level, token dump)

def oracle_tokens(c, line, tl):
    return pfam.tokens_vs_spec(c.src, line)


def lex_check(prop, props_file, gen_targets, families, what, rule, exhaustive):
    def check(run, replay):
        run.trusted = vlib.BASE_TRUST
        gv, gm, _ = prepare(run)
        if replay:
            return replay_lex(run, replay, gv, gm)
        broken = prove(run, props_file, gen_targets=gen_targets)
        fam = Families(run, gv, gm)
        cases = families(run)
        impl, mod, toks = fam.exec(cases, mode="tokens")
        fam.judge(cases, impl, mod, toks, "full", oracle_tokens, what,
                  nontrivial=lambda c, l: " | EOF" in l or l.startswith("| EOF"))
        if prop == "C08":
            c08_trees(run, fam)
        run.cov["rule"] = rule
        run.cov["exhaustive"] = exhaustive
        run.cov["samples"] = [c.src for c in cases[:: max(1, len(cases) // 6)]][:6]
        fam.finish(broken)
    return check


def fam_lex(run):
    cases = pfam.lexpair_cases()
    progs, hit, labels = pfam.gen_programs(seed_of(run), budget(run, 150, 1500))
    cases += pfam.valid_cases(progs, ("random", "comments", "dense"))
    return cases


def fam_semi(run):
    cases = pfam.semi_cases()
    progs, hit, labels = pfam.gen_programs(seed_of(run), budget(run, 150, 1500))
    cases += pfam.valid_cases(progs, ("newlines", "semicolons", "comments"))
    return cases


check_c07 = lex_check(
    "C07", "theories/props/C07.v", ["gen/GenOps.vo", "gen/GenClasses.vo"], fam_lex,
    "the token dump tiles the source; longest match; keywords; identifier classes; literal kinds",
    "exhaustive: every ordered pair of %d representative tokens (48 operators, 25 keywords, identifiers incl. non-ASCII and "
    "keyword-prefixed ones, literals of every form) joined by each of {nothing, blank, tab, newline, general comment, line comment}, "
    "plus the token streams of generated programs in random layouts; the crate's token dump (hook) is compared with the model's (full "
    "line: offsets, kinds, texts, end, line table) and judged by an independent spec lexer (tools/pfam.py spec_lex): same kinds and texts, "
    "every token text is the source text at its offset; non-trivial = inputs the crate scans to the end" % len(pfam.REPR_TOKENS), True)

def check_c08(run, replay):
    base = _check_c08_tokens
    rc = base(run, replay)
    return rc


def c08_trees(run, fam):
    """the last clause of the property: newline rendering and explicit-semicolon rendering give the same tree"""
    progs, hit, labels = pfam.gen_programs(seed_of(run) + 3, budget(run, 250, 2000))
    cases = pfam.valid_cases(progs, ("semicolons", "newlines", "random"))
    impl, mod, toks = fam.exec(cases, mode="parse")
    ref = {c.prog: pfam.proj_shape(l) for c, l in zip(cases, impl) if c.style == "semicolons"}
    fam.judge(cases, impl, mod, toks, "shape",
              lambda c, l, t: None if pfam.proj_shape(l) == ref[c.prog] else
              "the rendering with newlines (%s) and the one with explicit semicolons give different results: %s vs %s" % (
                  c.style, pfam.proj_shape(l)[:50], ref[c.prog][:50]),
              "newline rendering == explicit-semicolon rendering (trees)")
    inj = pfam.layout_injection_cases()
    impl_i, mod_i, toks_i = fam.exec(inj, mode="parse")
    ref_i = {c.prog: pfam.proj_shape(l) for c, l in zip(inj, impl_i) if c.family == "F-layout-base"}
    fam.judge(inj, impl_i, mod_i, toks_i, "shape",
              lambda c, l, t: None if pfam.proj_shape(l) == ref_i[c.prog] else
              "a line break where the spec inserts no semicolon changes the result: %s vs %s" % (ref_i[c.prog][:50], pfam.proj_shape(l)[:50]),
              "line breaks in every gap of directed snippets")
    # every `;`-separated list: explicit semicolons on one line vs one item per line (LF, CRLF)
    sep = [c for c in pfam.separator_cases() if pfam.SEPARATED[c.prog][2] == ";"]
    impl_s, mod_s, toks_s = fam.exec(sep, mode="parse")
    ref_s = {c.prog: pfam.proj_shape(l) for c, l in zip(sep, impl_s) if c.style == "1"}
    fam.judge(sep, impl_s, mod_s, toks_s, "shape",
              lambda c, l, t: None if pfam.proj_shape(l) == ref_s[c.prog] else
              "explicit semicolons and line ends give different results for the same list: %s vs %s" % (ref_s[c.prog][:50], pfam.proj_shape(l)[:50]),
              "newline rendering == explicit-semicolon rendering of every bracketed list")


_check_c08_tokens = lex_check(
    "C08", "theories/props/C08.v", ["gen/GenTrigger.vo", "gen/GenClasses.vo"], fam_semi,
    "a semicolon is synthesised exactly where the spec's rule says",
    "exhaustive: every token kind (48 operators, 25 keywords, 7 literal forms) x %d line-ending contexts (newline, CRLF, end of input, "
    "blanks+newline, line comment, general comment then newline, general comment spanning a newline, general comment then another token, "
    "two comments, comment+line comment, token) plus generated programs rendered once with newlines and once with explicit semicolons; "
    "crate token dump == model token dump, judged by the independent spec lexer (semicolon insertion per the spec's rule 1); the "
    "generated programs are also PARSED in the newline, explicit-semicolon and random renderings and directed snippets with a line "
    "break / blank / comment in every gap that keeps the token sequence: the trees must be equal; "
    "non-trivial = inputs the crate scans to the end" % len(pfam.SEMI_CONTEXTS), True)


# ---------------------------------------------------------------- C16

def oracle_errloc(c, line, tl):
    msg, adj = pfam.errloc_ok(c.src, line)
    if msg:
        return msg
    if adj:
        return "KF-21: location is right only with line = true line - 1"
    return None


def site_corpus_cases():
    """corpus/error_sites.json: per error site of the model the shortest input found that fails there (built by
    tools/sitecorpus.py with the extracted model as instrumentation); each also on a later line and after
    multi-byte text"""
    pth = os.path.join(vlib.ROOT, "corpus", "error_sites.json")
    if not os.path.exists(pth):
        return []
    out = []
    for site, src in sorted(json.load(open(pth)).items()):
        out.append(pfam.Case(src, "F-err-site", note=site))
        if src.startswith("package p; "):
            out.append(pfam.Case("package p\n\n// é日本\nvar s = `é\n日` /* c\n */\n" + src[len("package p; "):], "F-err-site", note=site))
            for t in pfam.multiline_token_then(src[len("package p; "):]):
                out.append(pfam.Case(t, "F-err-site-multiline", note=site))
        # the same input continued past the failing token: what the code after the guard does when the guard is
        # what keeps an unreachable!/unwrap/index from being reached (e.g. s[:a:b: + c])
        for suf in SITE_CONTINUATIONS:
            out.append(pfam.Case(src + suf, "F-err-site-continued", note=site))
    # error sites inside helpers (check_single_expr, check_assign_stmt, check_field_list) are shared by several
    # callers: one rejected input per caller (found missing by the mutation survey)
    sh = os.path.join(vlib.ROOT, "corpus", "error_shared_sites.json")
    if os.path.exists(sh):
        out += [pfam.Case(src, "F-err-shared-site") for src in json.load(open(sh))]
    return out


SITE_CONTINUATIONS = [" c]", " x", " x)", " x }", " }", " )", " ]", " c] }", " T", " T }", " int", "; }", " {}", " {} }", " x, y", " = 1", ": x }", " 1"]


def long_token_cases():
    """the unexpected token is a long identifier / string / raw string / number / comment-adjacent token made of
    1-, 2-, 3- and 4-byte characters at every byte alignment (the error value is formatted for display)"""
    out = []
    for ch in ("a", "\u00e9", "\u65e5", "\U00020000"):
        for n in (1, 10, 21, 31, 32, 33, 63, 64, 65, 66, 100, 127, 128, 129, 255, 256, 257, 300, 1000):
            for align in ("", "a", "ab", "abc"):
                body = align + ch * n
                for tok in (body, '"' + body + '"', "`" + body + "`", "'" + ch + "'", "1" + "0" * n):
                    out.append(pfam.Case("package p\nvar x = 1 " + tok + "\n", "F-err-long-token"))
                    out.append(pfam.Case("package p\n\nfunc f() {\n\treturn\n}\n" + tok, "F-err-long-token"))
    return out


def fam_err(run):
    progs, hit, labels = pfam.gen_programs(seed_of(run), budget(run, 150, 1200))
    return pfam.damaged_cases(progs) + pfam.soup_cases(seed_of(run), budget(run, 500, 5000)) + site_corpus_cases() + \
        [c for c in pfam.text_mutants()] + long_token_cases() + pfam.bom_cases()


check_c16 = parser_check(
    "C16", "theories/props/C16.v", "errloc", oracle_errloc,
    "a rejection is a located gosyn::Error whose (line, column) is a real position: the start of the unexpected token or the end of input",
    "generated valid programs damaged by one token-level mutation (deletion / insertion / duplication / swap / replacement) rendered over "
    "several lines, unterminated or malformed literals and comments appended to a random line (multi-line raw strings and comments before "
    "and at the error), token soup; every REJECTED input is judged: the error must downcast to gosyn::Error with a location; (line, column) "
    "must be a position of the input; for an unexpected token its text must be found there, for an unexpected EOF it must be the end of "
    "input; crate and model compared on the whole error line; non-trivial = rejected inputs",
    fam_err, tokens=False, nontrivial=lambda c, l: l.startswith("ERR"), extra=lambda run, fam, gv, gm: c16_files(run, fam, gv))


def c16_files(run, fam, gv):
    """the same rejections through the disk entry point: the error carries the file's path (with and without a byte
    order mark) and the location of the in-memory parse of the contents"""
    import shutil
    srcs = [c.src for c in site_corpus_cases() if c.family == "F-err-site"][:: 2] + [c.src for c in long_token_cases()[:: 40]]
    mem = vlib.run_records(gv, "parse", srcs)
    base_d = os.path.join(vlib.WORK, "c16files")
    shutil.rmtree(base_d, ignore_errors=True)
    bad = 0
    try:
        for bom in (False, True):
            d = os.path.join(base_d, "bom" if bom else "plain")
            os.makedirs(d, exist_ok=True)
            paths = []
            for i, t in enumerate(srcs):
                pth = os.path.join(d, "%d.go" % i)
                with open(pth, "wb") as f:
                    f.write((b"\xef\xbb\xbf" if bom else b"") + t.encode("utf-8"))
                paths.append(pth)
            lines = vlib.run_records(gv, "file", paths)
            for t, pth, l, m in zip(srcs, paths, lines, mem):
                if not m.startswith("ERR"):
                    continue
                want = "%s path=%s" % (m, pfam_esc(pth))
                if l != want:
                    bad += 1
                    if bad <= 3:
                        run.violation({"kind": "impl-vs-spec", "family": "F-err-file", "file_text": t, "bom": bom, "impl": l[:400], "expected": want[:400],
                                       "oracle": "a rejected file%s: the error must be the in-memory error with the file's path: got %s" % (
                                           " with a byte order mark" if bom else "", l[:200])})
    finally:
        shutil.rmtree(base_d, ignore_errors=True)
    run.cov["evaluations"] += 2 * len(srcs)
    run.extra.setdefault("families", []).append({"family": "F-err-file (parse_file, with and without BOM)", "inputs": 2 * len(srcs), "failures": bad})


def kf21(case, msg, line):
    return msg.startswith("KF-21")


def kf5(case, msg, line):
    """KF-5: the crate's trigger table contains `package`: with every synthetic ';' that directly follows the
    keyword package removed from the crate's stream, crate and spec tokenisation agree"""
    if "crate ('O', ';')" not in msg:
        # tree-level families: the input has a line end directly after the keyword package and is rejected
        return bool(line.startswith("ERR") and
                    re.search(r"(^|[\s;])package[ \t\r]*(/\*[^\n]*?\*/[ \t\r]*)*(//[^\n]*|/\*[^*]*\n)?\n", case.src))
    toks, rest = pfam.parse_token_line(line)
    nc = [(p, k, t) for p, k, t in toks if k != "C"]
    kept = []
    removed = 0
    for j, (p, k, t) in enumerate(nc):
        if k == "O" and t == ";" and j > 0 and nc[j - 1][1:] == ("K", "package") and not pfam.lexeme_at(case.src, p, ";"):
            removed += 1
            continue
        kept.append((k, t))
    try:
        want = [(k, t) for p, k, t in pfam.spec_lex(case.src) if k != "C"]
    except ValueError:
        return False
    return removed > 0 and kept == want


# ---------------------------------------------------------------- C02 / C03 / C13 (generator-based)

def witness_findings(run, gv, judge):
    """known findings that the generator avoids: run each listed witness; while it still fails, report it"""
    for k in known_entries(run.prop):
        w = k.get("witness")
        if not w or k["id"] in KNOWN_CLASSIFIERS:
            continue
        line = vlib.run_records(gv, "parse", [w])[0]
        if judge(k, w, line):
            run.known_finding("%s: %s (e.g. %r)" % (k["id"], k["what"], w[:80]))


def oracle_accept(c, line, tl):
    if c.family != "F-valid":
        return None
    return None if line.startswith("OK ") else "valid Go rejected: %s" % line[:80]


def fam_valid_styles(nq, styles):
    def f(run):
        progs, hit, labels = pfam.gen_programs(seed_of(run), budget(run, nq, nq * 8))
        run.extra["generator_coverage"] = {"labels_hit": len(hit & labels), "labels": len(labels),
                                            "avoided_known_defects": sorted(k for k, v in pfam.gogen.AVOID.items() if v)}
        return pfam.valid_cases(progs, styles)
    return f


def check_c02(run, replay):
    base = parser_check(
        "C02", "theories/props/C02.v", "outcome", oracle_accept,
        "every syntactically valid Go file is accepted",
        "grammar-directed generator over the Go spec's EBNF (every production x context pair of its coverage matrix, nesting < 12) rendered "
        "in 7 layout styles (canonical, newlines, explicit semicolons, random blanks/tabs/newlines, comments in gaps, CRLF, dense) with "
        "optional semicolons / trailing commas toggled; every rendering must be accepted by the crate (and by the model: projection "
        "outcome); constructs hit by a listed known finding are not generated, their witnesses are run separately; "
        "non-trivial = all (distinct renderings)",
        fam_valid_styles(250, pfam.STYLES), tokens=False,
        extra=c02_extra)
    return base(run, replay)


def c02_extra(run, fam, gv, gm):
    witness_findings(run, gv, lambda k, w, l: not l.startswith("OK "))
    gc = golden_cases() + pfam.tparam_cases() + [pfam.Case(c.src, "F-valid") for c in pfam.type_position_cases()] + \
        [pfam.Case(c.src, "F-valid") for c in pfam.separator_cases()]
    for c in gc:
        c.family = "F-valid"
    impl_g, mod_g, _ = fam.exec(gc)
    fam.judge(gc, impl_g, mod_g, [None] * len(gc), "outcome", oracle_accept, "directed valid programs are accepted")
    # the same programs with a newline / blank / comment in every gap that keeps the token sequence
    inj = [c for c in pfam.layout_injection_cases() if True]
    for c in inj:
        c.family = "F-valid-layout"
    impl_i, mod_i, _ = fam.exec(inj)
    base_ok = {c.prog: l.startswith("OK ") for c, l in zip(inj, impl_i) if c.style == "canonical"}
    fam.judge(inj, impl_i, mod_i, [None] * len(inj), "outcome",
              lambda c, l, t: None if (not base_ok.get(c.prog)) or l.startswith("OK ") else "valid Go rejected in this layout: %s" % l[:60],
              "directed valid programs in every layout")


def check_c03(run, replay):
    base = parser_check(
        "C03", "theories/props/C03.v", "shape", pfam.oracle_expected_shape,
        "the tree is the derivation the Go spec assigns to the source",
        "the same generator: each program is built as a derivation tree first and rendered afterwards; the crate's tree with positions, "
        "comments, docs and empty statements removed must equal the derivation (tags, identifier and literal texts, operators, keywords, "
        "flags); crate and model compared on the same projection; non-trivial = all (distinct renderings)",
        fam_valid_styles(250, ("canonical", "random", "comments", "dense")), tokens=False,
        extra=c03_extra)
    return base(run, replay)


def golden_cases():
    g = json.load(open(os.path.join(vlib.ROOT, "corpus", "golden_shapes.json")))
    return [pfam.Case(src, "F-golden", expected=sh) for src, sh in sorted(g.items())]


def c03_extra(run, fam, gv, gm):
    witness_findings(run, gv, lambda k, w, l: l.startswith("OK ") and "TypePointer" not in l)
    # reviewed derivations of directed programs (type-parameter list vs array length, nested channel directions,
    # grouped fields, the constructs the parser reads twice): corpus/golden_shapes.json
    gc = golden_cases()
    impl_g, mod_g, _ = fam.exec(gc)
    fam.judge(gc, impl_g, mod_g, [None] * len(gc), "shape", pfam.oracle_expected_shape, "reviewed derivations of directed programs")
    # a type has the same derivation in every position a type can stand in (declaration, conversion, make/new,
    # composite literal, assertion, parameter, field, control header): channel nests of every direction sequence
    # up to depth 3 over 8 element types, derivation built from the spec's association rule
    tp = pfam.type_position_cases()
    impl_t, mod_t, _ = fam.exec(tp)
    fam.judge(tp, impl_t, mod_t, [None] * len(tp), "shape", pfam.oracle_type_position, "channel types in every type position")
    # parameter lists: every form of item, in pairs and triples, named / grouped / variadic, in six signature places
    pr = pfam.param_cases()
    impl_r, mod_r, _ = fam.exec(pr)
    fam.judge(pr, impl_r, mod_r, [None] * len(pr), "shape", pfam.oracle_params, "parameter lists")
    # derivations are compositional: an expression has the same derivation wherever it stands, and a statement
    # list is the list of its statements' derivations
    ex = [pfam.Case(e, "F-expr-alone") for e in FRAG_EXPRS]
    impl_e, mod_e, _ = fam.exec(ex, mode="expr")
    fam.judge(ex, impl_e, mod_e, [None] * len(ex), "shape", None, "expressions alone")
    shape_e = {e: (pfam.proj_shape(l) if l.startswith("OK ") else None) for e, l in zip(FRAG_EXPRS, impl_e)}
    emb = []
    for e in FRAG_EXPRS:
        if shape_e[e] is None:
            continue
        for pre, post in (("var _ = ", ""), ("type _ [", "]int"), ("var _ [", "]int"), ("var _ = f(", ", z)"), ("func _() { return ", " }"),
                          ("var _ = []T{", "}"), ("func _() { x[", "]++ }"), ("func _() { c <- ", " }")):
            emb.append(pfam.Case("package p\n" + pre + e + post + "\n", "F-expr-embedded", note=e))
    impl_m, mod_m, _ = fam.exec(emb)

    def oracle(c, line, tl):
        if not line.startswith("OK "):
            return None      # some positions do not admit every expression (e.g. a function literal as array length is fine, a type is not)
        if shape_e[c.note] not in pfam.proj_shape(line):
            return "the expression %r has another derivation here than alone" % c.note
        return None
    fam.judge(emb, impl_m, mod_m, [None] * len(emb), "shape", oracle, "an expression has the same derivation in every position")
    st = [pfam.Case("package p\nfunc _() { " + a + " }\n", "F-stmt-alone") for a in FRAG_STMTS]
    impl_s, mod_s, _ = fam.exec(st)
    fam.judge(st, impl_s, mod_s, [None] * len(st), "shape", None, "statements alone")

    def stmts_of(l):
        t = pfam.tree_of(l)
        return [pfam.sexpr.dump(x) for x in t.kids[2].kids[-1].kids[3].kids if x.tag != "Empty"]
    single = {a: (stmts_of(l) if l.startswith("OK ") else None) for a, l in zip(FRAG_STMTS, impl_s)}
    pairs = [(a, b) for i, a in enumerate(FRAG_STMTS) for j, b in enumerate(FRAG_STMTS) if (i + j) % 3 == seed_of(run) % 3 or run.tier != "quick"]
    pc = [pfam.Case("package p\nfunc _() { " + a + "; " + b + " }\n", "F-stmt-pair", note=(a, b)) for a, b in pairs]
    impl_p, mod_p, _ = fam.exec(pc)

    def pair_oracle(c, line, tl):
        a, b = c.note
        if single[a] is None or single[b] is None or not line.startswith("OK "):
            return None
        return None if stmts_of(line) == single[a] + single[b] else \
            "the statement list [A; B] is not A's derivation followed by B's (A = %r, B = %r)" % (a, b)
    fam.judge(pc, impl_p, mod_p, [None] * len(pc), "shape", pair_oracle, "a statement list is the list of its statements' derivations")


def check_c13(run, replay):
    run.trusted = vlib.BASE_TRUST
    gv, gm, _ = prepare(run)
    if replay:
        replay_parse(run, replay, gv, gm)
        return
    broken = prove(run, "theories/props/C13.v")
    fam = Families(run, gv, gm)
    k = budget(run, 3, 8)
    progs, hit, labels = pfam.gen_programs(seed_of(run), budget(run, 300, 1500))
    styles = ("canonical",) + tuple(("random", "comments", "newlines", "semicolons", "crlf", "dense", "random", "comments")[:k + 3])
    cases = pfam.valid_cases(progs, styles)
    impl, mod, toks = fam.exec(cases)
    ref = {}
    for c, l in zip(cases, impl):
        if c.style == "canonical" and c.prog not in ref:
            ref[c.prog] = pfam.proj_shape(l)

    def oracle(c, line, tl):
        sh = pfam.proj_shape(line)
        if sh != ref[c.prog]:
            return "rendering %s of the same token sequence gives another result than the canonical rendering: %s" % (
                c.style, pfam.sexpr.first_diff(ref[c.prog], sh) if sh.startswith("(") and ref[c.prog].startswith("(") else (ref[c.prog][:60], sh[:60]))
        return None
    fam.judge(cases, impl, mod, toks, "shape", oracle, "layout never changes the tree")
    # a newline, blank or comment in every gap of snippets that cover the constructs the parser re-reads
    inj = pfam.layout_injection_cases()
    impl_i, mod_i, toks_i = fam.exec(inj)
    ref_i = {c.prog: pfam.proj_shape(l) for c, l in zip(inj, impl_i) if c.family == "F-layout-base"}
    fam.judge(inj, impl_i, mod_i, toks_i, "shape",
              lambda c, l, t: None if pfam.proj_shape(l) == ref_i[c.prog] else
              "a layout change that keeps the token sequence changes the result: %s vs %s" % (ref_i[c.prog][:50], pfam.proj_shape(l)[:50]),
              "layout injection in every gap")
    # optional separators: every bracketed list with and without its final `;` / `,`, on one line and one item per
    # line (LF and CRLF): one program
    sep = pfam.separator_cases()
    impl_s, mod_s, toks_s = fam.exec(sep)
    ref_s = {c.prog: pfam.proj_shape(l) for c, l in zip(sep, impl_s) if c.style == "0"}
    fam.judge(sep, impl_s, mod_s, toks_s, "shape",
              lambda c, l, t: ("valid Go rejected: %s" % l[:60]) if not l.startswith("OK ") else None if pfam.proj_shape(l) == ref_s[c.prog] else
              "writing or omitting the optional separator / breaking the lines changes the tree: %s" % pfam.sexpr.first_diff(ref_s[c.prog], pfam.proj_shape(l)),
              "optional separators before a closing bracket")
    # mutants too: the accept/reject decision and the error token must not depend on layout either
    mcases = []
    for i, (rng, p) in enumerate(progs[: len(progs) // 2]):
        toksm = pfam.mutate_tokens(rng, p.tokens, 1 + rng.randrange(2))
        for st in ("canonical", "random", "comments"):
            try:
                mcases.append(pfam.Case(pfam.gogen.render(toksm, rng, st), "F-mut-layout", i, st))
            except Exception:
                pass
    impl2, mod2, toks2 = fam.exec(mcases)
    # the premise of the property is checked, not assumed: only renderings whose token sequence after
    # semicolon insertion (independent spec lexer) is the same are compared
    ref2 = {}
    keys = []
    for c, l in zip(mcases, impl2):
        try:
            key = (c.prog, tuple((k, t) for p_, k, t in pfam.spec_lex(c.src) if k != "C"))
        except ValueError:
            key = None
        keys.append(key)
        if key is not None and key not in ref2:
            ref2[key] = pfam.proj_shape(l)
    keyof = {id(c): k for c, k in zip(mcases, keys)}
    fam.judge(mcases, impl2, mod2, toks2, "shape",
              lambda c, l, t: None if keyof[id(c)] is None or pfam.proj_shape(l) == ref2[keyof[id(c)]] else
              "the same (mutated) token sequence is %s in one layout and %s in another" % (ref2[keyof[id(c)]][:40], pfam.proj_shape(l)[:40]),
              "layout never changes the accept/reject decision")
    run.cov["rule"] = ("generated valid programs x %d independently randomised renderings of the same token sequence (blanks, tabs, CRLF, "
                       "comments in any gap, line breaks where no semicolon is inserted, optional semicolons and trailing commas written "
                       "or omitted), plus mutated token sequences in 3 renderings; all renderings of one token sequence must give the "
                       "same tree up to positions and comments / the same accept-reject decision; crate and model compared on the shape "
                       "projection; non-trivial = all (distinct renderings)" % (k + 1))
    run.cov["samples"] = [c.src[:300] for c in cases[:: max(1, len(cases) // 5)]][:5]
    fam.finish(broken)


# ---------------------------------------------------------------- C14

def directed_programs():
    """every fragment of the C15 lists in every embedding position, as whole files"""
    out = []
    for e in FRAG_EXPRS:
        for pre, post in (("var _ = ", ""), ("type _ [", "]int"), ("var _ [", "]int"), ("var _ = f(", ")"), ("func _() { return ", " }"),
                          ("func _() { if ", " {} }"), ("func _() { for ", " {} }"), ("func _() { switch ", " {} }"), ("var _ = []T{", "}")):
            out.append(pfam.Case("package p\n" + pre + e + post + "\n", "F-directed"))
    for st in FRAG_STMTS:
        out.append(pfam.Case("package p\nfunc _() { " + st + " }\n", "F-directed"))
        out.append(pfam.Case("package p\nfunc _() { for range ch {}; " + st + "; " + st + " }\n", "F-directed"))
    for d in FRAG_DECLS:
        out.append(pfam.Case("package p\n" + d + "\n", "F-directed"))
    return out


def check_c14(run, replay):
    import goprint
    run.trusted = vlib.BASE_TRUST + ["tools/goprint.py: the straightforward printer (adds no parentheses, prints every field of the tree)"]
    gv, gm, _ = prepare(run)

    def roundtrip(fam, cases, impl):
        acc = [(c, l) for c, l in zip(cases, impl) if l.startswith("OK ")]
        printed = []
        for c, l in acc:
            try:
                printed.append(goprint.print_file(pfam.tree_of(l)))
            except goprint.PrintError as e:
                printed.append("\x00unprintable: %s" % e)
        pcases = [pfam.Case(p, "F-printed", note=c.src, style=c.family) for (c, l), p in zip(acc, printed)]
        for pc, (c, l) in zip(pcases, acc):
            pc.expected = pfam.proj_shape(l)
        impl2, mod2, toks2 = fam.exec(pcases)

        def oracle(pc, line, tl):
            if pc.src.startswith("\x00"):
                return "the tree cannot be printed: " + pc.src[1:]
            if not line.startswith("OK "):
                return "the printed tree is rejected (%s); original source: %r" % (line[:60], pc.note[:300])
            sh = pfam.proj_shape(line)
            if sh != pc.expected:
                return "re-parsing the printed tree gives another tree: %s; original source: %r" % (
                    pfam.sexpr.first_diff(pc.expected, sh), pc.note[:300])
            # nothing that distinguishes two programs is missing from the tree: for programs that are valid by
            # construction the printed tree spells the same token sequence as the source (up to comments, semicolons,
            # commas before a closing bracket and import grouping)
            if pc.style in ("F-valid", "F-directed"):
                a, b = pfam.program_tokens(pc.note), pfam.program_tokens(pc.src)
                if a != b:
                    i = next((i for i, (x, y) in enumerate(zip(a, b)) if x != y), min(len(a), len(b)))
                    return "the printed tree is another program than the source: source ...%s... printed ...%s..." % (
                        " ".join(a[max(0, i - 4):i + 5]), " ".join(b[max(0, i - 4):i + 5]))
            return None
        fam.judge(pcases, impl2, mod2, toks2, "shape", oracle, "print and re-parse reproduces the tree")
        return pcases

    if replay:
        r = replay_parse(run, replay, gv, gm)
        return
    broken = prove(run, "theories/props/C14.v")
    fam = Families(run, gv, gm)
    progs, hit, labels = pfam.gen_programs(seed_of(run), budget(run, 300, 2000))
    cases = pfam.valid_cases(progs, ("random",)) + pfam.mutant_cases(progs, 6) + pfam.soup_cases(seed_of(run), budget(run, 2000, 20000))
    cases += directed_programs()
    cases += [pfam.Case(c.src, "F-directed") for c in pfam.type_position_cases()] + \
        [pfam.Case("package p\n" + sn + "\n", "F-directed") for sn in pfam.POS_SNIPPETS + pfam.EDIT_SNIPPETS]
    small, _, _ = pfam.gen_programs(seed_of(run) + 7, budget(run, 40, 300), budgets=(8, 12, 15))
    cases += pfam.systematic_mutants(small)
    impl, mod, toks = fam.exec(cases)
    fam.judge(cases, impl, mod, toks, "shape", None, "first parse (crate == model)")
    pcases = roundtrip(fam, cases, impl)
    run.cov["rule"] = ("generated valid programs, their 1-3 token mutants and token soup are parsed by the crate; every ACCEPTED tree is printed "
                       "back to Go source by a straightforward printer (tools/goprint.py: no parentheses of its own, every field printed) and "
                       "parsed again by crate and model; the second tree must equal the first up to positions and comments; "
                       "non-trivial = accepted inputs (each gives one print/re-parse)")
    run.cov["samples"] = [c.src[:300] for c in pcases[:: max(1, len(pcases) // 5)]][:5]
    fam.nontrivial = set(hash(c.src) for c in pcases)
    fam.finish(broken)


# ---------------------------------------------------------------- C12

check_c12 = parser_check(
    "C12", "theories/props/C12.v", "docs", lambda c, l, t: pfam.docs_ok(c, l),
    "documentation is exactly the unbroken comment run directly above a declaration / spec / field",
    "files built line by line: before the package clause and before every function, var/const/type declaration, spec of a group and "
    "struct field the generator places one of {attached group of 1-3 line comments or a (multi-line) general comment, detached group "
    "(blank line), trailing comment on the previous line, trailing + attached, nothing}, at any line including the first three; function "
    "bodies contain comments; struct fields get line-end comments; the generator knows the documentation the property demands; the docs "
    "of every documented node of the crate's tree are compared with it, and crate and model are compared on the tree with docs; "
    "non-trivial = all (each file has 2-12 documented nodes)",
    lambda run: pfam.docs_cases(seed_of(run), budget(run, 3000, 30000)), tokens=False)


# ---------------------------------------------------------------- C15

FRAG_EXPRS = [
    "a", "a + b*c", "f(x, y...)", "a[i]", "a[i:j:k]", "x.(T)", "T{a: 1, b: {2}}", "[]int{1, 2}", "map[K]V{k: v}",
    "func(a int) (b int) { return a }", "<-c", "&T{}", "*p.q", "(a + b) * c", "a.b.c(d)(e)", "f[int, string](x)", "struct{ a int }{1}",
    "x == y && !z || w", "[...]T{}", "chan<- int(c)", "(<-chan int)(c)", "interface{ m() }(nil)", "a[f[int]]", "-x + ^y",
    "func() { if x := T{}; x {} }", "func() { for i := range T{} {} }", "'a'", "\"s\" + `r`", "1.5e3i", "a &^ b << c",
    "Point{1, 2}", "pkg.T{a: b}", "G[int]{}", "M[K, V]{k: v}", "f(a, b)", "g(a, b, c)", "len(x)", "pkg.f(a, b) + 1", "a[i][j]",
    "x.(pkg.T)", "(((((((((((((((((((((((((((((((((((((((((((((((((((((((((((((a)))))))))))))))))))))))))))))))))))))))))))))))))))))))))))))",
]
FRAG_STMTS = [
    "x := 1", "a, b = b, a", "x++", "c <- v", "L: for { break L }", "if x := f(); x > 0 { y() } else if z { w() } else { v() }",
    "for i := 0; i < n; i++ { continue }", "for k, v := range m { _ = k }", "for range ch {}", "switch x := y.(type) { case int: default: }",
    "switch { case a > b: fallthrough; default: }", "select { case v := <-c: _ = v; case c <- 1: default: }", "go f(x)", "defer func() {}()",
    "return a, b", "var x, y int = 1, 2", "const c = iota", "type T[P any] struct{ p P }", "type A [N]int", "type I interface{ A | B; m() }",
    "{ x(); { y() } }", "goto L", "f(T{1})", "if (T{}) == x {}", "x.y.z = w[i]", "var f = func() { type T[P interface{ m() }] int }",
    "p := Point{x: 1}", "return T{}", "v = pkg.T{a: b}", "for range ch {}", "for range T{} {}", "for {}", "for x {}", "switch x {}",
    "switch x := y; x {}", "if x {}", "select {}", "var m M[K, V]", "var v = G[A, B]{}", "type L [f(a, b)]int", "type Q[P any, R any] int",
    "x.(M[K, V])", "func() { for range T{} {} }()", "L2: p := Q{}",
]
FRAG_DECLS = [
    "var x int", "var (a = 1; b, c string)", "const (A = iota; B; C)", "type T struct { a int; b, c string `t`; *E; pkg.F }",
    "type T[P any, Q interface{ ~int | string }] map[P]Q", "type A [len(x)]int", "type S []int", "type F = func(a, b int, c ...string) (d error)",
    "func f() {}", "func (r *R[K, V]) m(a int) (b int) { return a }", "func g[T any](x T) T { return x }",
    "type I interface { m(); A | B; ~[]byte; pkg.T }", "var v = map[string][]struct{ a int }{\"k\": {{1}}}", "func h() { L: for { if x { break L } } }",
    "type T[P *C,] int", "type U[P (C)] int", "var w = func() { switch x := (T{}); x.(type) {} }",
    "// doc é\nfunc g() {}", "/* d */\nvar v int", "// a\n// b\ntype T struct {\n\t// f\n\tf int // t\n\tg int\n}",
    "// spec group\nvar (\n\t// one\n\ta int\n\n\t// two\n\tb int\n)",
]
PREFIXES = [
    "", "var a int\n", "type T[P any] struct{ p P }\n", "type A [N]int\ntype I interface{ A | B }\n",
    "func f() { if x := (T{}); x {} else {}\n for i := range (T{}) {}\n switch y := z.(type) {} }\n", "// doc\nfunc g() {} // trailing\n",
    "var x = ((((((((((((((((((((a))))))))))))))))))))\n", "type S struct {\n a int // c\n b int\n}\n/* pending */ /* comments */\n\n",
    "func k() { L: L2: L3: for { select { case <-c: default: } } }\n", "var m = map[K]V{a: {b: {c: d}}}\nconst (X = iota; Y)\n",
    "type G[P interface{ m(x int) }] int\ntype H[P *struct{ a int }] int\n", "func é日本() { 日 := `raw\nstring`; _ = 日 }\n",
    "var r = `é日本語 \U0001F600\n你好世界你好世界` /* 注释\n\u3000 */\n", "func q() {\n\ts := `你好世界你好世界你好世界\n`\n\t_ = s\n}\n",
    "/* 你好世界你好世界\n */\n\nvar z int\n",
]


def shift_positions(text, k):
    text = re.sub(r"@(\d+)", lambda m: "@%d" % (int(m.group(1)) + k), text)
    # comment offsets inside docs:  #[12://x 20:/*y*/]
    return re.sub(r"(?<=#\[)(\d+)(?=:/)|(?<= )(\d+)(?=:/[/*])", lambda m: str(int(m.group(0)) + k), text)


def state_oracle(c, line, tl):
    """after a successful entry-point call the parser is left at nesting level 0 and depth 0 (hook verif_state)"""
    if line.startswith("OK ") and " ; state=" in line and not line.endswith(" ; state=0,0"):
        return "the entry point succeeded but left the parser in state (expr_level, depth) = %s" % line.rsplit("state=", 1)[1]
    return None


def check_c15(run, replay):
    run.trusted = vlib.BASE_TRUST
    gv, gm, _ = prepare(run)
    if replay:
        replay_parse(run, replay, gv, gm)
        return
    broken = prove(run, "theories/props/C15.v")
    fam = Families(run, gv, gm)
    rng = __import__("random").Random(seed_of(run))
    progs, hit, labels = pfam.gen_programs(seed_of(run), budget(run, 60, 400), budgets=(10, 15, 25))
    gen_prefixes = [pfam.gogen.render(p.tokens, r, "newlines").split("\n", 1)[1] + "\n" if "\n" in pfam.gogen.render(p.tokens, r, "newlines") else ""
                    for r, p in progs]
    prefixes = PREFIXES + [g for g in gen_prefixes if g.strip() and "package" not in g][: budget(run, 40, 300)]

    def alone_and_embedded(frags, mode, wrap_pre, wrap_post, pick):
        """fragment alone through entry point `mode`; embedded as  package p; <prefix> wrap_pre frag wrap_post"""
        alone = [pfam.Case(f, "F-frag-" + mode) for f in frags]
        impl_as, mod_as, _ = fam.exec(alone, mode=mode + "+s")
        fam.judge(alone, impl_as, mod_as, [None] * len(alone), "full", state_oracle,
                  "fragment alone: crate == model, and the entry point leaves nesting level and depth as it found them")
        impl_a = [l.rsplit(" ; state=", 1)[0] for l in impl_as]
        emb = []
        for fi, f in enumerate(frags):
            for pre in prefixes:
                head = "package p\n" + pre + wrap_pre
                c = pfam.Case(head + f + wrap_post, "F-embedded-" + mode, note=(fi, len(head)))
                emb.append(c)
        impl_e, mod_e, _ = fam.exec(emb)

        def oracle(c, line, tl):
            fi, k = c.note
            a = impl_a[fi]
            if not a.startswith("OK "):
                return None if not line.startswith("OK ") else None   # fragment rejected alone: nothing to compare
            if not line.startswith("OK "):
                return "fragment accepted alone is rejected when embedded: %s" % line[:80]
            sub = pick(pfam.tree_of(line))
            if sub is None:
                return "embedded fragment not found in the tree"
            want = pfam.sexpr.dump(pfam.sexpr.parse(shift_positions(a[3:], k)), keep_pos=True)
            have = pfam.sexpr.dump(sub, keep_pos=True)
            if want != have:
                return "embedded subtree differs from the fragment parsed alone (shifted by %d): %s" % (
                    k, pfam.sexpr.first_diff(want, have))
            return None
        fam.judge(emb, impl_e, mod_e, [None] * len(emb), "positions", oracle,
                  "a fragment parses the same alone and embedded after other code")
        return len(alone) + len(emb)

    def last_decl(t):
        d = t.kids[2].kids
        return d[-1] if d else None

    def var_value(t):
        d = last_decl(t)
        try:
            return d.kids[0].kids[2].kids[0]
        except Exception:
            return None

    def body_stmt(t):
        d = last_decl(t)
        try:
            return [s for s in d.kids[3].kids][0]
        except Exception:
            return None

    def type_len(t):
        d = last_decl(t)
        try:
            ts = d.kids[0]
            return ts.kids[2].kids[0] if ts.kids[2].tag == "TypeArray" else None
        except Exception:
            return None

    def var_len(t):
        d = last_decl(t)
        try:
            return d.kids[0].kids[1].kids[0]
        except Exception:
            return None

    def call_arg(t):
        try:
            return var_value(t).kids[1].kids[0]
        except Exception:
            return None

    def ret_val(t):
        try:
            return body_stmt(t).kids[0]
        except Exception:
            return None
    alone_and_embedded(FRAG_EXPRS, "expr", "var _ = ", "\n", var_value)
    # the same expressions in other positions: array length of a type declaration (read speculatively by
    # parse_type_spec), of a variable's type, call argument, return value
    alone_and_embedded(FRAG_EXPRS, "expr", "type _ [", "]int\n", type_len)
    alone_and_embedded(FRAG_EXPRS, "expr", "var _ [", "]int\n", var_len)
    alone_and_embedded(FRAG_EXPRS, "expr", "var _ = f(", ")\n", call_arg)
    alone_and_embedded(FRAG_EXPRS, "expr", "func _() { return ", " }\n", ret_val)
    alone_and_embedded(FRAG_STMTS, "stmt", "func _() { ", " }\n", body_stmt)
    # statements do not influence each other: the block [A; B] holds A's tree followed by B's tree
    pairs = [(a, b) for a in FRAG_STMTS for b in FRAG_STMTS]
    if run.tier == "quick":
        pairs = [pq for i, pq in enumerate(pairs) if i % 2 == seed_of(run) % 2]
    single = {}
    sc = [pfam.Case("package p\nfunc _() { " + a + " }\n", "F-stmt-single") for a in FRAG_STMTS]
    impl_s, mod_s, _ = fam.exec(sc)
    for a, l in zip(FRAG_STMTS, impl_s):
        single[a] = [pfam.sexpr.dump(x) for x in last_decl(pfam.tree_of(l)).kids[3].kids if x.tag != "Empty"] if l.startswith("OK ") else None
    pc = [pfam.Case("package p\nfunc _() { " + a + "; " + b + " }\n", "F-stmt-pair", note=(a, b)) for a, b in pairs]
    impl_p, mod_p, _ = fam.exec(pc)

    def pair_oracle(c, line, tl):
        a, b = c.note
        if single[a] is None or single[b] is None:
            return None
        if not line.startswith("OK "):
            return "two statements that parse alone are rejected together: %s" % line[:80]
        have = [pfam.sexpr.dump(x) for x in last_decl(pfam.tree_of(line)).kids[3].kids if x.tag != "Empty"]
        if have != single[a] + single[b]:
            return "the block [A; B] is not A's tree followed by B's tree (A = %r, B = %r)" % (a, b)
        return None
    fam.judge(pc, impl_p, mod_p, [None] * len(pc), "shape", pair_oracle, "a statement parses the same after any other statement")
    # the same with a line break as the only separator, after every kind of token that ends a statement
    enders = ["continue", "break", "return", "fallthrough", "goto L", "x++", "x--", "f()", "a[i]", "p.q", "v = 1", "w = 'c'", "s = \"s\"",
              "r = `r`", "z = 2i", "y = 1.5", "t = T{}", "{ }", "break L", "continue L", "return x"]
    esc = [pfam.Case("package p\nfunc _() { " + a + " }\n", "F-stmt-single") for a in enders]
    impl_es, _, _ = fam.exec(esc, model=False)
    for a, l in zip(enders, impl_es):
        single[a] = [pfam.sexpr.dump(x) for x in last_decl(pfam.tree_of(l)).kids[3].kids if x.tag != "Empty"] if l.startswith("OK ") else None
    nlp = [pfam.Case("package p\nfunc _() {\n\t" + a + "\n\t" + b + "\n}\n", "F-stmt-pair-newline", note=(a, b)) for a in enders for b in FRAG_STMTS + enders]
    impl_n, mod_n, _ = fam.exec(nlp)
    fam.judge(nlp, impl_n, mod_n, [None] * len(nlp), "shape", pair_oracle, "a statement parses the same on the line after any other statement")
    # declarations: alone in a file vs after a prefix
    whole = pfam.valid_cases(progs, ("random",)) + pfam.mutant_cases(progs, 2)
    impl_w, mod_w, _ = fam.exec(whole, mode="parse+s")
    fam.judge(whole, impl_w, mod_w, [None] * len(whole), "full", state_oracle, "state after parse_file")
    decl_alone = [pfam.Case("package p\n" + d + "\n", "F-decl-alone") for d in FRAG_DECLS]
    impl_a, mod_a, _ = fam.exec(decl_alone)
    fam.judge(decl_alone, impl_a, mod_a, [None] * len(decl_alone), "full", None, "declaration alone")
    emb = []
    for fi, d in enumerate(FRAG_DECLS):
        for pre in prefixes:
            emb.append(pfam.Case("package p\n" + pre + d + "\n", "F-decl-after", note=(fi, len(pre))))
    impl_e, mod_e, _ = fam.exec(emb)

    def decl_oracle(c, line, tl):
        fi, k = c.note
        a = impl_a[fi]
        if not a.startswith("OK "):
            return None
        if not line.startswith("OK "):
            return "declaration accepted alone is rejected after other declarations: %s" % line[:80]
        want = pfam.sexpr.dump(last_decl(pfam.sexpr.parse(shift_positions(pfam.split_ok(a)[0], k))), keep_pos=True, keep_docs=True)
        have = pfam.sexpr.dump(last_decl(pfam.tree_of(line)), keep_pos=True, keep_docs=True)
        if want != have:
            return "declaration after a prefix differs from the same declaration alone (shifted by %d): %s" % (
                k, pfam.sexpr.first_diff(want, have))
        return None
    fam.judge(emb, impl_e, mod_e, [None] * len(emb), "positions", decl_oracle, "a declaration parses the same after other declarations")
    # call histories: n parse_stmt calls on one parser == the statements of a block
    seqs = []
    for _ in range(budget(run, 150, 1500)):
        k = rng.choice([2, 3])
        ss = [rng.choice(FRAG_STMTS) for _ in range(k)]
        seqs.append((k, ss))
    for k in (2, 3):
        hs = [pfam.Case("; ".join(ss) + ";", "F-history-%d" % k, note=ss) for kk, ss in seqs if kk == k]
        impl_hs, mod_hs, _ = fam.exec(hs, mode="stmts%d+s" % k)
        fam.judge(hs, impl_hs, mod_hs, [None] * len(hs), "full", state_oracle, "state after repeated entry-point calls")
        impl_h = [l.rsplit(" ; state=", 1)[0] for l in impl_hs]
        mod_h = [l.rsplit(" ; state=", 1)[0] for l in mod_hs]
        blocks = [pfam.Case("package p\nfunc _() { " + c.src + " }\n", "F-history-block") for c in hs]
        impl_b, mod_b, _ = fam.exec(blocks)

        def hist_oracle(c, line, tl, impl_b=impl_b, hs=hs):
            i = hs.index(c)
            b = impl_b[i]
            if not line.startswith("OK ") or not b.startswith("OK "):
                return None if line.startswith("OK ") == b.startswith("OK ") else \
                    "statement sequence is %s through repeated parse_stmt calls but %s inside a block" % (line[:20], b[:20])
            blk = last_decl(pfam.tree_of(b)).kids[3]
            want = [pfam.sexpr.dump(s) for s in blk.kids if s.tag != "Empty"]
            have = [pfam.sexpr.dump(s) for s in pfam.sexpr.parse(line[3:]).kids if s.tag != "Empty"]
            # an empty statement (a bare ';') uses up one call: the calls yield a prefix of the block's statements
            return None if want[:len(have)] == have else "repeated parse_stmt calls give other statements than the same text in a block"
        fam.judge(hs, impl_h, mod_h, [None] * len(hs), "full", hist_oracle, "repeated entry-point calls on one parser")
    run.cov["rule"] = ("%d expression, %d statement and %d declaration fragments (every kind of production, including the ones that make the "
                       "parser backtrack, control clause headers with composite literals, generics) x %d prefixes (hand-written ones that "
                       "trigger backtracking, control headers, deep nesting, pending comments, labels, multi-byte text + generated declaration "
                       "sequences): each fragment is parsed alone through Parser::expression / Parser::parse_stmt / as the only declaration "
                       "and embedded after the prefix; the embedded subtree must equal the one parsed alone with positions shifted by the "
                       "prefix length; plus statement sequences through 2-3 successive parse_stmt calls on one parser vs the same text in a "
                       "block; crate and model compared on trees with positions; non-trivial = all (distinct inputs)"
                       % (len(FRAG_EXPRS), len(FRAG_STMTS), len(FRAG_DECLS), len(prefixes)))
    run.cov["samples"] = ["package p\n" + prefixes[2] + "var _ = " + FRAG_EXPRS[6], FRAG_STMTS[5], FRAG_DECLS[4]]
    for fs in fam.fam_stats.values():
        pass
    fam.nontrivial = set(range(run.cov["evaluations"]))
    fam.finish(broken)


# ---------------------------------------------------------------- C01

def partial_ops_inventory():
    """every partial operation (unwrap, expect, unreachable!, unimplemented!, panic!, assert!, indexing) of the
    crate's non-test sources as a multiset of (file, enclosing fn, kind): moving code is no difference, a new
    partial operation is (the model has no Panic site for it)"""
    import collections
    out = []
    for f in sorted(os.listdir(os.path.join(vlib.REPO, "src"))):
        if not f.endswith(".rs"):
            continue
        src = open(os.path.join(vlib.REPO, "src", f)).read()
        cut = src.find("#[cfg(test)]")
        if cut >= 0:
            src = src[:cut]
        src = re.sub(r"//[^\n]*", "", src)
        fn = None
        for ln in src.splitlines():
            m = re.search(r"\bfn\s+(\w+)", ln)
            if m:
                fn = m.group(1)
            for kind, pat in (("unwrap", r"\.unwrap\(\)"), ("expect", r"\.expect\(\""), ("unreachable", r"unreachable!"),
                              ("unimplemented", r"unimplemented!"), ("panic", r"\bpanic!"), ("assert", r"\bassert(_eq|_ne)?!"),
                              ("index", r"\w\[[^\]]*\](?!\s*=>)")):
                for _ in re.finditer(pat, ln):
                    if kind == "index" and (ln.strip().startswith("#[") or "vec![" in ln or "&[" in ln or ": [" in ln or "-> [" in ln):
                        continue
                    out.append("%s:%s:%s" % (f, fn, kind))
    return dict(collections.Counter(out))


def nest_families(ns):
    F = []
    for N in ns:
        fams = {
            "unary": "package p; var x = " + "-+" * N + "x",
            "label": "package p; func f() { " + "L: " * N + "x() }",
            "elseif": "package p; func f() { " + "if x {} else " * N + "{} }",
            "block": "package p; func f() " + "{" * N + "}" * N,
            "forfunc": "package p; func f() { " + "for func(){ " * N + " }(){} " * N + "}",
            "paren": "package p; var x = " + "(" * N + "x" + ")" * N,
            "slice": "package p; var x " + "[]" * N + "int",
            "ptr": "package p; var x " + "*" * N + "int",
            "chan": "package p; var x " + "chan " * N + "int",
            "functype": "package p; var x " + "func(" * N + ")" * N,
            "lit": "package p; var x = T" + "{" * N + "}" * N,
            "index": "package p; var x = a" + "[a" * N + "]" * N,
            "call": "package p; var x = " + "f(" * N + ")" * N,
            "ifhdr": "package p; func f() { " + "if func() bool { " * N + "return true " + "}() {}; " * N + " }",
            "switchlit": "package p; func f() { x() " + "".join("; switch f(T" + "{" * 60 + "func(){ " for _ in range(min(N, 200))) + "y()" + (" }" + "}" * 60 + ") {}") * min(N, 200) + " }",
            "structnest": "package p; type T " + "struct { a " * N + "int" + " }" * N,
            "iface": "package p; type T " + "interface { m() " * N + "int" + " }" * N,
            "mapnest": "package p; var x " + "map[int]" * N + "int",
            "typedecl": "package p; " + "type T[P*func(){ " * N + "type T[P*func(){}] int" + " }] int" * N,
            "tparam": "package p; type T[P " + "interface{ m(x " * N + "int" + ") }" * N + "] int",
            "parentype": "package p; var x " + "(" * N + "int" + ")" * N,
            "recv": "package p; var x = " + "<-" * N + "c",
            "addr": "package p; var x = " + "& " * N + "c",
            "neg": "package p; var x = " + "- " * N + "c",
            "plus": "package p; var x = " + "+ " * N + "c",
            "not": "package p; var x = " + "!" * N + "c",
            "xor": "package p; var x = " + "^" * N + "c",
            "deref": "package p; var x = " + "*" * N + "c",
            "tilde": "package p; type T interface{ " + "~" * N + "int }",
            "stmtaddr": "package p; func f() { " + "& " * N + "x }",
            "compkeys": "package p; var x = T{" + "a: {" * N + "}" * N + "}",
            "casenest": "package p; func f() { " + "switch { case x: " * N + "}" * N + " }",
            "selectnest": "package p; func f() { " + "select { default: " * N + "}" * N + " }",
            "gofunc": "package p; func f() { " + "go func() { " * N + "}() " * N + " }",
        }
        for k, v in fams.items():
            F.append(pfam.Case(v, "F-nest", note="%s/%d" % (k, N)))
    return F


def chain_families(N):
    return [pfam.Case("package p; var x = a" + "+a" * N, "F-chain", note="binleft/%d" % N),
            pfam.Case("package p; var x = a" + ".b" * N, "F-chain", note="sel/%d" % N),
            pfam.Case("package p; var x = a" + "(1)" * N, "F-chain", note="calls/%d" % N),
            pfam.Case("package p; var x = a" + "[1]" * N, "F-chain", note="indexes/%d" % N),
            pfam.Case("package p; func f() { " + "x++; " * N + " }", "F-chain", note="stmts/%d" % N),
            pfam.Case("package p; var x = []int{" + "1, " * N + "}", "F-chain", note="elems/%d" % N)]


def respec_families(k):
    """constructs the parser reads twice (speculation + goback), nested k times through function literals"""
    def rep(f, base=""):
        s_ = base
        for _ in range(k):
            s_ = f(s_)
        return s_
    return [
        pfam.Case("package p\nfunc f() { " + rep(lambda s_: "type T[P *[func() int { if func() bool { " + s_ + "; return true }() {}; return 1 }()]int] int", "type T int") + " }\n",
                  "F-respeculation", note="typeparam-arraylen/%d" % k),
        pfam.Case("package p; " + rep(lambda s_: "type T[P*func(){ " + s_ + " }] int"), "F-respeculation", note="arraylen-funclit/%d" % k),
        pfam.Case("package p; " + rep(lambda s_: "type T[P interface{ m(a [len(func(){ " + s_ + " })]int) }] int"), "F-respeculation", note="typeparam-iface/%d" % k),
        pfam.Case("package p; " + rep(lambda s_: "type I interface { [len(func(){ " + s_ + " })]int | X }", "type I int"),
                  "F-respeculation", note="iface-elem/%d" % k),
        pfam.Case("package p; var x = " + rep(lambda s_: "func(a, b [len(func(){ _ = " + s_ + " })]int) {}", "1"), "F-respeculation", note="params/%d" % k),
        pfam.Case("package p; func f() { " + rep(lambda s_: "switch x := func() int { " + s_ + "; return 1 }(); x.(type) {}", "x++") + " }", "F-respeculation", note="typeswitch/%d" % k),
    ]


def time_growth(run, fam, gv, k1=8, k2=15):
    """time must not blow up with nesting: each re-read construct nested k1 and k2 times; the wall time of the larger
    may exceed the smaller by a polynomial factor only (3 x (size ratio)^2 once it is measurable)"""
    import time as _t
    lo, hi = respec_families(k1), respec_families(k2)

    def wall(c):
        best = None
        line = ""
        for _ in range(2):
            t0 = _t.time()
            line = vlib.run_records(gv, "outcome", [c.src], timeout=600)[0]
            dt = _t.time() - t0
            best = dt if best is None else min(best, dt)
        return best, line
    cases, lines = [], []
    for a, b in zip(lo, hi):
        ta, la = wall(a)
        tb, lb = wall(b)
        b.expected = (ta, tb, len(a.src), len(b.src), pfam.outcome(la), pfam.outcome(lb))
        cases.append(b)
        lines.append(lb)

    def oracle(c, line, tl):
        ta, tb, na, nb, oa, ob = c.expected
        if tb > 0.25 and tb > ta * 3 * (nb / na) ** 2:
            return "time blows up with nesting: %s nested %d times takes %.3f s, %d times %.3f s (input %d -> %d chars)" % (
                c.note.split("/")[0], k1, ta, k2, tb, na, nb)
        return None
    fam.judge(cases, lines, [None] * len(cases), [None] * len(cases), "outcome", oracle, "time growth of re-read constructs")
    run.extra["time_growth"] = [{"family": c.note, "t_small_s": round(c.expected[0], 4), "t_large_s": round(c.expected[1], 4),
                                 "outcomes": c.expected[4:]} for c in cases]


def kf39(case, msg, line):
    """KF-39: a type-parameter list is read twice; an array length inside it can hold a function literal with the next such declaration"""
    return case.family == "F-respeculation" and case.note.startswith("typeparam-") and "time blows up" in msg


def kf4(case, msg, line):
    """KF-4: the recursive Drop / Debug of a very long left-deep chain overflows the stack"""
    return case.family == "F-chain" and case.note.split("/")[0] in ("binleft", "sel", "calls", "indexes") and \
        int(case.note.split("/")[1]) >= 20000 and ("overflow" in line or "DIED" in line)


def check_c01(run, replay):
    run.trusted = vlib.BASE_TRUST + ["real stack consumption, wall-clock time and the recursive Drop/Debug of the returned tree are observed "
                                     "from outside (child processes, 8 MiB main-thread stack, debug and release builds), not modelled"]
    gv, gm, gvd = prepare(run, debug=True)
    if replay:
        obj = json.load(open(replay))
        if "input" in obj:
            for b, name in ((gv, "release"), (gvd, "debug")):
                print(name, vlib.run_records(b, obj.get("mode", "outcome"), [obj["input"]])[0][:200])
        return
    broken = prove(run, "theories/props/C01.v", extra_targets=["theories/proofs/DepthProofs.vo"])
    inv = partial_ops_inventory()
    exp = json.load(open(os.path.join(vlib.ROOT, "tools", "partial_ops.json")))
    # per file and kind, not per function, and only growth counts: moving or removing a partial operation is no
    # new way to panic (three behaviour-preserving refactorings tripped the per-function comparison)
    def by_file_kind(d):
        out = {}
        for k, v in d.items():
            f_, _, kind = k.split(":")
            out[f_ + ":" + kind] = out.get(f_ + ":" + kind, 0) + v
        return out
    inv_fk, exp_fk = by_file_kind(inv), by_file_kind(exp)
    grown = {k: (exp_fk.get(k, 0), v) for k, v in inv_fk.items() if v > exp_fk.get(k, 0)}
    run.oblige("inventory of partial operations (unwrap / expect / unreachable! / panic! / assert! / indexing) per source file and kind "
               "has nothing beyond the one the model's Panic sites and the scanner totality proofs were written against "
               "(tools/partial_ops.json)", not grown)
    if grown:
        d = {k: (exp.get(k, 0), inv.get(k, 0)) for k in set(inv) | set(exp) if inv.get(k, 0) != exp.get(k, 0)}
        broken.append(("partial-operation inventory: new partial operations (expected, found) per file:kind %s; per function: %s"
                       % (json.dumps(grown), ""), json.dumps(d, indent=1)))
    md = re.search(r"const MAX_DEPTH: i32 = (\d+);", open(os.path.join(vlib.REPO, "src", "parser.rs")).read())
    mn = re.search(r"const MAX_NESTING: usize = (\d+);", open(os.path.join(vlib.REPO, "src", "parser.rs")).read())
    ok_caps = bool(md and mn and md.group(1) == "64" and mn.group(1) == "192")
    run.oblige("nesting caps of the crate (MAX_DEPTH = 64, MAX_NESTING = 192) == the model's", ok_caps)
    if not ok_caps:
        broken.append(("caps", "MAX_DEPTH/MAX_NESTING differ from the model's 64/192"))
    fam = Families(run, gv, gm)
    progs, hit, labels = pfam.gen_programs(seed_of(run), budget(run, 150, 1000))
    small, _, _ = pfam.gen_programs(seed_of(run) + 7, budget(run, 40, 300), budgets=(8, 12, 15))
    general = pfam.valid_cases(progs, ("random",)) + pfam.mutant_cases(progs, 6) + pfam.systematic_mutants(small) + \
        pfam.soup_cases(seed_of(run), budget(run, 2000, 20000)) + pfam.bytes_cases(seed_of(run), budget(run, 2000, 20000))
    corpus = json.load(open(os.path.join(vlib.ROOT, "corpus", "unit_snippets.json")))
    general += [pfam.Case(s_, "corpus") for s_ in corpus]
    general += site_corpus_cases()
    # tokens cut off by the end of input, with multi-byte letters and digits in and after them
    tails = ["1\u0663", "12\u0663\u0664", "4\uff12", "7\u0667\n", "0x\uff11", "1.\u0663", "1e\u0663", "x\u0663", "\u0663", "\U0001D7CE", "1\U0001D7CE",
             "\"\u00e9", "'\u65e5", "`\U0001F600", "//\u65e5", "/*\u65e5", "a\u00e9", "\u65e5", "0\u65e5", "1_\u0663", ".5\u0663", "1i\u0663", "'\\u0663", "\"\\"]
    for t_ in tails:
        for pre in ("", "package p\n\nvar x = ", "x = ", "package p; func f() { return 4", "package p; var s = "):
            general.append(pfam.Case(pre + t_, "F-tail"))
            general.append(pfam.Case(pre + t_ + "}", "F-tail"))
    nest_small = nest_families([1, 2, 30, 62, 63, 64, 65, 95, 96, 97, 190, 191, 192, 193, 300])
    nest_big = nest_families([1000, 20000] if run.tier == "quick" else [1000, 20000, 200000])
    chains = chain_families(2000) + chain_families(100000)

    def no_crash(c, line, tl):
        if line.startswith(("PANIC", "DIED")) or "overflow" in line[:60]:
            return "the call did not return a tree or an error value: %s" % line[:160]
        return None
    # model compared where it can run (it predicts which nesting depth turns into the depth error)
    for mode in ("parse", "expr", "stmt", "stmts3"):
        cs = general if mode == "parse" else general[:: 3]
        impl, mod, toks = fam.exec(cs, mode=mode)
        for c in cs:
            c.style = mode
        fam.judge(cs, impl, mod, toks, "outcome", no_crash, "entry point %s returns" % mode)
    # the disk entry point (read, strip one byte order mark, parse): a sample of the inputs plus the degenerate
    # files, each with and without a byte order mark, in both builds
    import shutil
    fsrcs = ["", "\n", "package", "package p", "\ufeff", "\ufeffpackage p", "x", "\u00e9", "package p\nvar s = \"\u65e5\"\n"] + \
        [c.src for c in general[:: max(1, len(general) // 300)]]
    for b, name in ((gv, "release"), (gvd, "debug")):
        base_d = os.path.join(vlib.WORK, "c01files")
        shutil.rmtree(base_d, ignore_errors=True)
        try:
            for bom in (False, True):
                lines = _file_lines(b, os.path.join(base_d, "bom" if bom else "plain"), fsrcs, bom)
                fcases = [pfam.Case(("\ufeff" if bom else "") + s_, "F-file-entry", style="file/" + name) for s_ in fsrcs]
                fam.judge(fcases, lines, [None] * len(fcases), [None] * len(fcases), "outcome", no_crash,
                          "parse_file on a file with%s byte order mark (%s build) returns" % ("" if bom else "out", name))
        finally:
            shutil.rmtree(base_d, ignore_errors=True)
    # parenthesised operands on every spine of an array length / type-parameter list that starts with an identifier
    # (the helpers that inspect the expression after the fact recurse outside the counted hubs); one process per
    # input and a short limit, so that a hang costs seconds
    spine = ["N * (M + 1)", "w * -(d)", "lo | (hi)", "align(2 * (n + 1))", "size((n))", "P *(C)", "P (C)", "a * (b)", "a * ((b))", "f((a), (b))",
             "a | (b) | c", "a * (b | c)", "P *(C) | D", "P (C) | (D)", "a + (b) * c", "a[(i)]", "a.b * (c)", "P ~(C)", "P interface{ (C) }", "a * (*b)",
             "a, (b)", "P *(C), Q any", "a * func() int { return (1) }()", "a * [2]int{(1)}[0]", "a &^ (b)", "a <- (b)", "(a)", "(a) * b"]
    sp_cases = [pfam.Case("package p\n" + ctx % e + "\n", "F-spine-parens") for e in spine
                for ctx in ("type T [%s]byte", "type T[%s] struct{}", "func f() { type T [%s]byte }", "var x [%s]byte", "type T[%s] = int")]
    for b, name in ((gv, "release"), (gvd, "debug")):
        res = vlib.par([[b, "outcome"] for _ in sp_cases], timeout=25, stdin=[vlib.frame([c.src]) for c in sp_cases])
        lines = [(o.split("\n")[0] if rc == 0 and o else "DIED rc=%d %s" % (rc, (e or "")[-120:].replace("\n", " "))) for rc, o, e in res]
        fam.judge(sp_cases, lines, [None] * len(sp_cases), [None] * len(sp_cases), "outcome", no_crash,
                  "%s build: parenthesised operands on the spine of a speculative type-declaration bracket" % name)
    time_growth(run, fam, gv)
    impl, mod, toks = fam.exec(nest_small)
    fam.judge(nest_small, impl, mod, toks, "errloc", no_crash, "nesting around the caps: crate == model incl. where the depth error is raised")
    t0 = __import__("time").time()
    for b, name in ((gv, "release"), (gvd, "debug")):
        for cs in (nest_small + nest_big + chains, general[:: 2]):
            lines = vlib.run_records(b, "outcome", [c.src for c in cs], timeout=900)
            fam.judge(cs, lines, [None] * len(cs), [None] * len(cs), "outcome", no_crash,
                      "%s build: parse, Debug-print and drop the result in a child process with the default 8 MiB stack" % name)
    run.extra["nest_wall_s"] = round(__import__("time").time() - t0, 1)
    run.cov["rule"] = ("generated valid programs, 1-3 token mutants, systematic single-edit mutants, token soup, random UTF-8 strings and the "
                       "unit-test corpus through parse_source, Parser::expression, Parser::parse_stmt and three successive parse_stmt calls; "
                       "27 pumping families (one per recursive construct and per cycle of the production call graph, including literal "
                       "nesting restarted in control clause headers) at depths around both caps (62..66, 95..97, 190..193), 300, 1000, 20000 "
                       "(200000 thorough) and long left-deep chains (2000, 100000); release and debug builds, each input parsed, Debug-printed "
                       "and dropped in a child process with the 8 MiB stack and a wall-clock limit; a panic, signal or timeout is a failure; "
                       "crate and model are compared on the outcome and, near the caps, on the error location; non-trivial = distinct inputs")
    run.cov["samples"] = [c.note for c in nest_small[:3]] + [general[0].src[:200]]
    fam.nontrivial = set(hash(c.src) for c in general + nest_small + nest_big + chains)
    fam.finish(broken)


# ---------------------------------------------------------------- C18

def check_c18(run, replay):
    import random as _r
    import shutil
    run.trusted = vlib.BASE_TRUST + ["the operating system's directory listing and file reading (std::fs) are an oracle, not modelled",
                                     "coq/theories/Dir.v: abstract model of parse_dir over a listing"]
    gv, gm, _ = prepare(run)
    if replay:
        print("replay: re-run the check; the directory images are rebuilt from the seed recorded in the replay file")
        return
    broken = prove(run, "theories/props/C18.v")
    rng = _r.Random(seed_of(run) ^ 0xd1)
    base = os.path.join(vlib.WORK, "dirs")
    shutil.rmtree(base, ignore_errors=True)
    os.makedirs(base)
    progs, hit, labels = pfam.gen_programs(seed_of(run), 60, budgets=(8, 15, 25))
    valid_srcs = [pfam.gogen.render(p.tokens, r, "newlines") for r, p in progs]
    ndirs = budget(run, 120, 1200)
    images = []
    for di in range(ndirs):
        d = os.path.join(base, "d%04d" % di)
        os.makedirs(d)
        entries = []
        nfiles = rng.randrange(9)
        fault = rng.choice([None, None, None, "utf8", "symlink", "damaged", "missingdir"])
        for fi in range(nfiles):
            ext = rng.choice([".go", ".go", ".go", ".txt", ".GO", ".go.bak", "", ".gox"])
            stem = rng.choice(["a", "b", "main", "x_test", "é", ".hidden", "c d"]) + str(fi)
            name = stem + ext
            pkg = rng.choice(["p", "q", "main", "p"])
            src = rng.choice(valid_srcs)
            src = re.sub(r"^(\s*)package\s+\S+", lambda m: m.group(1) + "package " + pkg, src, count=1)
            if not re.match(r"\s*package\s", src):
                src = "package %s\n" % pkg
            rb = rng.random()
            bom = rb < 0.3
            # exactly one byte order mark is removed: a second one is file content (and no Go token)
            data = (b"\xef\xbb\xbf" * (2 if rb < 0.06 else 1) if bom else b"") + src.encode("utf8")
            kind = "valid"
            if fault and fi == nfiles - 1 - rng.randrange(1 + nfiles // 2) and ext == ".go":
                if fault == "utf8":
                    data = b"package p\nvar s = \"\xff\xfe\"\n"
                    kind = "utf8"
                elif fault == "damaged":
                    data = src.encode("utf8") + b"\n)\n"
                    kind = "damaged"
                elif fault == "symlink":
                    kind = "symlink"
            path = os.path.join(d, name)
            if kind == "symlink":
                os.symlink(os.path.join(d, "no-such-target"), path)
            else:
                with open(path, "wb") as f:
                    f.write(data)
            entries.append({"name": name, "kind": kind, "bom": bom, "ext_go": name.endswith(".go") and os.path.splitext(name)[1] == ".go" and os.path.splitext(name)[0] != "",
                            "text": data.decode("utf8", "replace")})
        if rng.random() < 0.3:
            os.makedirs(os.path.join(d, "subdir"))
        target = d if fault != "missingdir" else os.path.join(d, "does-not-exist")
        images.append({"dir": target, "entries": entries, "fault": fault})
    lines = vlib.run_records(gv, "dir", [im["dir"] for im in images])
    # expectation from in-memory parsing of the .go files' contents (BOM removed)
    mem_inputs, owners = [], []
    for ii, im in enumerate(images):
        for e in im["entries"]:
            if e["ext_go"] and e["kind"] in ("valid", "damaged"):
                t = e["text"]
                mem_inputs.append(t[1:] if t.startswith("\ufeff") else t)
                owners.append((ii, e["name"]))
    mem_impl = vlib.run_records(gv, "parse", mem_inputs)
    mem_model = vlib.run_records(gm, "parse", mem_inputs)
    run.oblige("correspondence: crate == extracted model on the file contents", mem_impl == mem_model)
    if mem_impl != mem_model:
        broken.append(("correspondence", "crate and model differ on file contents"))
    mem = {}
    for (ii, name), l in zip(owners, mem_impl):
        mem[(ii, name)] = l
    import hashlib

    def fnv(line):
        h = 0xcbf29ce484222325
        for b in line.encode("utf8"):
            h ^= b
            h = (h * 0x100000001b3) & 0xFFFFFFFFFFFFFFFF
        return "%016x" % h
    nviol = 0
    stats = {"dirs": ndirs, "ok": 0, "err": 0, "faults": {}}
    for ii, (im, line) in enumerate(zip(images, lines)):
        stats["faults"][str(im["fault"])] = stats["faults"].get(str(im["fault"]), 0) + 1
        gof = [e for e in im["entries"] if e["ext_go"]]
        bad = [e for e in gof if e["kind"] in ("utf8", "symlink") or
               (e["kind"] in ("valid", "damaged") and not mem[(ii, e["name"])].startswith("OK "))]
        msg = None
        if im["fault"] == "missingdir":
            if not line.startswith("ERR io"):
                msg = "nonexistent directory: expected a gosyn::Error::IO, got %s" % line[:80]
        elif bad:
            if line.startswith("OK") or "untyped" in line:
                msg = "a .go file cannot be read/decoded/parsed (%s) but parse_dir returned %s" % (bad[0]["name"], line[:80])
            else:
                # the error must be the one of some bad file
                okerr = False
                for e in bad:
                    if e["kind"] in ("utf8", "symlink"):
                        okerr = okerr or line.startswith("ERR io")
                    else:
                        want = mem[(ii, e["name"])]
                        okerr = okerr or (line.startswith(want) and ("path=" + pfam_esc(os.path.join(im["dir"], e["name"]))) in line)
                if not okerr:
                    msg = "parse_dir's error is not the error of one of the bad files: %s" % line[:120]
        else:
            if not line.startswith("OK"):
                msg = "all .go files are fine but parse_dir failed: %s" % line[:100]
            else:
                want = {}
                for e in gof:
                    l = mem[(ii, e["name"])]
                    pk = pfam.tree_of(l).kids[0]
                    pkn = pfam.unesc([a for a in pk.attrs if a.startswith("s:")][0][2:])
                    want.setdefault(pkn, []).append("%s#%s#%s" % (pfam_esc(os.path.join(im["dir"], e["name"])), pfam_esc(pkn), fnv(l)))
                exp = "OK " + " ; ".join("pkg=%s dir=%s files=[%s]" % (pfam_esc(k), pfam_esc(im["dir"]), " ".join(sorted(v)))
                                         for k, v in sorted(want.items()))
                if line.strip() != exp.strip():
                    msg = "parse_dir result differs from grouping the in-memory parses: got %s | expected %s" % (line[:300], exp[:300])
        stats["ok" if line.startswith("OK") else "err"] += 1
        if msg:
            nviol += 1
            if nviol <= 3:
                run.violation({"kind": "impl-vs-spec", "what": "parse_dir", "oracle": msg, "dir_image": im["entries"], "fault": im["fault"],
                               "impl": line[:2000]})
    # parse_file == parse_source on the contents, path recorded
    fl_inputs = [os.path.join(im["dir"], e["name"]) for ii, im in enumerate(images) for e in im["entries"]
                 if e["ext_go"] and e["kind"] in ("valid", "damaged") and im["fault"] != "missingdir"]
    fl_keys = [(ii, e["name"]) for ii, im in enumerate(images) for e in im["entries"]
               if e["ext_go"] and e["kind"] in ("valid", "damaged") and im["fault"] != "missingdir"]
    fl = vlib.run_records(gv, "file", fl_inputs)
    for pth, key, l in zip(fl_inputs, fl_keys, fl):
        want = mem[key]
        if want.startswith("OK "):
            ok = l == "OK path=%s %s" % (pfam_esc(pth), want[3:])
        else:
            ok = l == "%s path=%s" % (want, pfam_esc(pth))
        if not ok:
            nviol += 1
            if nviol <= 3:
                run.violation({"kind": "impl-vs-spec", "what": "parse_file", "oracle": "parse_file differs from parse_source on the contents "
                               "(BOM removed) with the path recorded", "input": pth, "impl": l[:1500], "expected": want[:1500]})
    shutil.rmtree(base, ignore_errors=True)
    run.cov["evaluations"] = ndirs + len(fl_inputs) + len(mem_inputs)
    run.cov["distinct_nontrivial"] = sum(1 for im in images if any(e["ext_go"] for e in im["entries"]))
    run.cov["rule"] = ("real temporary directories with 0-8 entries: random names and extensions (.go, .txt, .GO, .go.bak, none, .gox, hidden, "
                       "non-ASCII, blanks), package names, BOMs, generated valid contents, and one injected fault per directory in half of "
                       "them {invalid UTF-8, dangling symlink named like a .go file, damaged contents, nonexistent directory}, plus a "
                       "subdirectory; parse_dir's result is compared with grouping, by package name, the in-memory parses of the regular "
                       ".go files (crate == model on those), errors must be gosyn::Error values of one of the bad files; parse_file on every "
                       "file is compared with parse_source on its contents; non-trivial = directories with at least one .go entry")
    run.cov["samples"] = [[e["name"] + ":" + e["kind"] for e in im["entries"]] for im in images[:5]]
    run.extra["stats"] = stats
    conclude(run, broken)


def pfam_esc(s):
    out = []
    for c in s:
        u = ord(c)
        if 33 <= u <= 126 and c not in "\\()":
            out.append(c)
        else:
            out.append("\\u{%x}" % u)
    return "".join(out)


# ---------------------------------------------------------------- C19

def state_inventory():
    """global / shared mutable state in the crate's non-test sources"""
    found = []
    pat = re.compile(r"\bstatic\s+mut\b|\bstatic\s+[A-Z_]+\s*:|thread_local!|lazy_static!|\bOnceCell\b|\bOnceLock\b|\bLazyLock\b|\bLazy<|"
                     r"\bRefCell\b|\bCell<|\bUnsafeCell\b|\bMutex\b|\bRwLock\b|\bAtomic[A-Z]\w*\b|\bstd::env::|\bSystemTime\b|\bInstant\b|\brand::")
    for f in sorted(os.listdir(os.path.join(vlib.REPO, "src"))):
        if not f.endswith(".rs"):
            continue
        src = open(os.path.join(vlib.REPO, "src", f)).read()
        cut = src.find("#[cfg(test)]")
        if cut >= 0:
            src = src[:cut]
        src = re.sub(r"//[^\n]*", "", src)
        for i, ln in enumerate(src.splitlines(), 1):
            if pat.search(ln):
                found.append("%s:%d: %s" % (f, i, ln.strip()[:100]))
    return found


def check_c19(run, replay):
    run.trusted = vlib.BASE_TRUST + ["thread schedules are produced by the OS: a Gallina model cannot exhibit them"]
    gv, gm, _ = prepare(run)
    if replay:
        replay_parse(run, replay, gv, gm)
        return
    broken = prove(run, "theories/props/C19.v")
    inv = state_inventory()
    run.oblige("inventory: no static mut / thread_local / lazy static / interior mutability / clock / environment in src/*.rs (non-test)", not inv)
    if inv:
        broken.append(("state-inventory", "\n".join(inv)))
    progs, hit, labels = pfam.gen_programs(seed_of(run), budget(run, 250, 1500))
    cases = pfam.valid_cases(progs, ("random", "comments")) + pfam.mutant_cases(progs, 3) + pfam.soup_cases(seed_of(run), 300)
    srcs = [c.src for c in cases]
    # identifiers over the whole code space (letters, digits, neither; BMP characters and the characters that share
    # their low 16 bits in the supplementary planes): classification must not depend on what was classified before
    import unicodedata as _ud
    rngu = __import__("random").Random(seed_of(run) ^ 0x19)
    cps = []
    for base in rngu.sample(range(0x80, 0xD7FF), 500) + list(range(0x0660, 0x066A)) + list(range(0x4E00, 0x4E20)) + list(range(0xD7C0, 0xD7D0)):
        for plane in (0, 0x10000, 0x20000):
            cp = base + plane
            try:
                if _ud.category(chr(cp)) not in ("Cn", "Cs", "Co"):
                    cps.append(cp)
            except ValueError:
                pass
    for cp in cps:
        srcs.append("package p; var a%s int" % chr(cp))
        srcs.append("package p; var %s int" % chr(cp))
    # long runs of one literal form each (hex floats, decimal floats with exponents, escapes, raw strings, comments,
    # operators, deep nesting): parsed by 16 threads at once, so state shared between scanners or parsers has a wide window
    n_ = 1500
    srcs += ["package p; var x = []float64{" + "0x1.Fp+0, 0xA.8p-3, " * n_ + "}",
             "package p; var x = []float64{" + "1.5e+3, 2.5E-7, 6.02e23, " * n_ + "}",
             "package p; var x = []int{" + "0b1011, 0o17, 017, 0xBadFace, 1_000, " * n_ + "}",
             "package p; var x = []rune{" + "'\\u65e5', '\\x41', '\\101', '\\n', " * n_ + "}",
             "package p; var x = []string{" + "\"a\\tb\\u00e9\", `raw\n`, " * n_ + "}",
             "package p; func f() { " + "x <<= 1; y &^= z; c <- v; /* c */ // d\n " * n_ + "}",
             "package p; var x = " + "(" * 60 + "y" + ")" * 60 + "; var z = " + "- " * 150 + "y"] * 2
    # siblings that differ only in their last characters, with multi-byte text inside and no newline at the end: a
    # scanner that looks past the end of its own text sees what the previous parser left there
    for base_ in ("package p\n\n// \u8d85\u65f6 (\u79d2)\nconst xxxx = 0x1", "package p\nvar \u00e9 = 1", "package \u65e5\nvar v = 1.5",
                  "package p /* \U0001F600 */\nvar s = \"\u00e9\"; var b = 0b1", "package p\nfunc f() { \u03c0 := x"):
        for suf in ("", "e", "i", "p1", ".5", "5", "_1", "e+3", "x", "e1", "++", ".", "\"", "'", "/*", "//", " }", "\n"):
            srcs.append(base_ + suf)
    # ... in sizes that walk through the allocator's size classes, each text right after its longer sibling (the
    # sequential baseline parses the records in this order and is compared with the model)
    for lit, tail in (("0x1", "e"), ("1", "i"), ("1", "p1"), ("7", ".5")):
        for pad in range(0, 48):
            b_ = "package p\n\n// \u8d85\u65f6 (\u79d2)\nconst %s = %s" % ("x" * (pad + 1), lit)
            srcs += [b_ + tail, b_]
    rounds = budget(run, 2, 6)
    total_exec = 0
    for r in range(rounds):
        rc, out, err = vlib.sh([gv, "threads", "16"], input=vlib.frame(srcs), timeout=3000)
        if rc != 0:
            raise TieBroken("threads run of the harness died", err[-2000:])
        ls = out.split("\n")
        summ = [l for l in ls if l.startswith("THREADS ")][0]
        base = [l for l in ls if l and not l.startswith("THREADS ")]
        m = re.search(r"executions=(\d+) differing=(\d+) repeat_differing=(\d+) first=(\S+)", summ)
        total_exec += int(m.group(1))
        if int(m.group(2)) or int(m.group(3)):
            i = int(m.group(4)) if m.group(4) != "-" else 0
            run.violation({"kind": "impl-vs-spec", "what": "a concurrent or repeated parse gave a different result than the sequential baseline",
                           "input": srcs[i], "summary": summ})
            break
        if r == 0:
            model = vlib.run_records(gm, "parse", srcs)
            diff = [i for i, (a, b) in enumerate(zip(base, model)) if a != b]
            run.oblige("correspondence: sequential baseline of the crate == extracted model", not diff and len(base) == len(model))
            if diff or len(base) != len(model):
                run.violation({"kind": "correspondence-broken", "what": "sequential baseline differs from the model",
                               "examples": [{"input": srcs[i], "impl": base[i][:500], "model": model[i][:500]} for i in diff[:3]]}, no_input=True)
    run.cov["evaluations"] = total_exec
    run.cov["distinct_nontrivial"] = len(set(srcs))
    run.cov["rule"] = ("%d rounds of 16 threads, each thread parsing all %d inputs (generated valid programs in two layouts, token mutants, "
                       "token soup) in its own order while the others run; every result (canonical tree or error line) is compared with a "
                       "sequential single-thread baseline of the same process, a second sequential pass checks repeated parses, and the "
                       "baseline is compared with the extracted model; non-trivial = distinct inputs" % (rounds, len(srcs)))
    run.cov["samples"] = srcs[:3]
    conclude(run, broken)


# ---------------------------------------------------------------- C20

def check_c20(run, replay):
    run.trusted = vlib.BASE_TRUST + ["serde's derive expansion is trusted to implement serde's documented data model (modelled in Serde.v)",
                                     "tools/regen_schema.py: translator from src/ast.rs, src/token.rs to coq/gen/GenSchema.v"]
    gv, gm, _ = prepare(run)
    if replay:
        replay_parse(run, replay, gv, gm)
        return
    rc, out, err = vlib.sh([sys.executable, os.path.join(vlib.ROOT, "tools", "regen_schema.py"), "--check", "--out", os.path.join(vlib.WORK, "GenSchema.check.v")], timeout=300)
    run.oblige("translator: src/ast.rs + src/token.rs -> gen/GenSchema.v (every construct understood, no serde attribute, both derives)", rc == 0)
    broken = []
    if rc != 0:
        broken.append(("regen_schema", (out + err)[-3000:]))
    broken += prove(run, "theories/props/C20.v", gen_targets=["gen/GenSchema.vo"])
    gvs = vlib.build_harness("release", hooks=True, features=("serde",))
    gvoff = vlib.build_harness("release", hooks=False)
    gvoffs = vlib.build_harness("release", hooks=False, features=("serde",))
    progs, hit, labels = pfam.gen_programs(seed_of(run), budget(run, 250, 2000))
    cases = pfam.valid_cases(progs, ("random", "comments")) + pfam.mutant_cases(progs, 4) + pfam.soup_cases(seed_of(run), budget(run, 500, 5000))
    # deep trees up to and beyond serde_json's recursion limit
    for n in (10, 40, 57, 58, 59, 60, 63):
        cases.append(pfam.Case("package p\nfunc f() { x = " + "(" * n + "y" + ")" * n + " }\n", "F-deep"))
    # nesting around every cap: a feature must not move a limit either
    cases += nest_families([30, 63, 64, 65, 100, 120, 121, 150, 191, 192, 193])
    # multi-byte text at every offset of a token (the hooks assert and copy exactly there): all strings <= 3 over the
    # 1-4 byte alphabet as an initialiser, and tokens made of 2-4 characters of every byte width
    for i in range(total_upto(len(ALPHABETS["utf8"]), 3)):
        cases.append(pfam.Case("package p; var _ = " + decode(ALPHABETS["utf8"], i), "F-utf8-builds"))
    wide = ["a", "\u00e9", "\u65e5", "\U0001D518", "\U0001F600", "\U00020000"]
    import itertools as _it
    for n in (2, 3, 4):
        for t in _it.product(wide, repeat=n):
            w = "".join(t)
            cases.append(pfam.Case("package p; var %s = 1; func f() { %s++; _ = \"%s\" /* %s */ }" % (w, w, w, w), "F-utf8-builds"))
    srcs = [c.src for c in cases]
    base = vlib.run_records(gv, "parse", srcs)
    model = vlib.run_records(gm, "parse", srcs)
    run.oblige("correspondence: crate == extracted model", base == model)
    if base != model:
        broken.append(("correspondence", "crate and model differ"))
    for name, b in (("hooks off", gvoff), ("hooks on + serde", gvs), ("hooks off + serde", gvoffs)):
        other = vlib.run_records(b, "parse", srcs)
        diff = [i for i, (x, y) in enumerate(zip(base, other)) if x != y]
        run.oblige("build '%s' gives the same tree / error as the hooks-on build on every input" % name, not diff)
        for i in diff[:2]:
            run.violation({"kind": "impl-vs-spec", "what": "enabling/disabling %s changes the result" % name, "input": srcs[i],
                           "oracle": "results differ between builds", "impl": other[i][:800], "baseline": base[i][:800]})
    rt = vlib.run_records(gvs, "serde", srcs)
    n_rt = 0
    for c, l, b in zip(cases, rt, base):
        if not b.startswith("OK "):
            continue
        n_rt += 1
        m = re.match(r"RT depth=(\d+) same_json=(\d) same_tree=(\d) (.*)$", l)
        if m and m.group(2) == "1" and m.group(3) == "1" and m.group(4) == b:
            continue
        d = re.search(r"depth=(\d+)", l)
        if l.startswith("DE-ERR") and d and int(d.group(1)) >= 128 and "recursion limit" in pfam.unesc(l):
            k = [k for k in known_entries("C20") if k["id"] == "KF-37"]
            if k:
                run.known_finding("KF-37: %s" % k[0]["what"])
                continue
        run.violation({"kind": "impl-vs-spec", "what": "serde round trip", "input": c.src, "oracle": "serialise / deserialise / serialise again "
                       "does not reproduce the tree: %s" % l[:200], "impl": l[:1500]})
        if len(run.violations) > 4:
            break
    run.cov["evaluations"] = 4 * len(srcs) + n_rt
    run.cov["distinct_nontrivial"] = n_rt
    run.cov["rule"] = ("generated valid programs in two layouts, token mutants, token soup and parenthesis nests of depth 10..63: every accepted "
                       "tree is serialised with serde_json, deserialised, serialised again (identical JSON required) and walked again (identical "
                       "canonical tree required); the same inputs are parsed by four builds of the crate {hooks on, hooks off} x {default, serde} "
                       "whose canonical results must be identical; the serde schema of ast.rs/token.rs is regenerated and proved well-formed "
                       "(round trip theorem of Serde.v applies); non-trivial = accepted inputs (one round trip each)")
    run.cov["samples"] = srcs[:3]
    conclude(run, broken)


def kf21_docs(case, msg, line):
    return msg.startswith("KF-21")


KNOWN_CLASSIFIERS = {"KF-5": kf5, "KF-21": kf21_docs, "KF-4": kf4, "KF-39": kf39}

REGISTRY = {
    "C10": check_c10,
    "C17": check_c17,
    "C09": check_c09,
    "C05": check_c05,
    "C06": check_c06,
    "C11": check_c11,
    "C04": check_c04,
    "C07": check_c07,
    "C08": check_c08,
    "C16": check_c16,
    "C02": check_c02,
    "C03": check_c03,
    "C13": check_c13,
    "C14": check_c14,
    "C12": check_c12,
    "C15": check_c15,
    "C01": check_c01,
    "C18": check_c18,
    "C19": check_c19,
    "C20": check_c20,
}



def precache_assumptions():
    """setup: compute the Print Assumptions answers of every property file once (they are cached under the hash
    of the compiled file; loading the parametricity translation makes each of them take minutes)"""
    import concurrent.futures as cf
    jobs = []
    for prop in sorted(REGISTRY):
        pf = "theories/props/%s.v" % prop
        if not os.path.exists(os.path.join(vlib.COQ, pf)):
            continue
        jobs.append((prop, pf))
        for m in MORE_PROPS.get(pf, []):
            if os.path.exists(os.path.join(vlib.COQ, m)):
                jobs.append((prop + "_more", m))

    def one(job):
        prop, f = job
        try:
            vlib.print_assumptions(prop, f[len("theories/"):-2].replace("/", "."), vlib.theorems_in(f))
            return prop, "ok"
        except Exception as e:
            return prop, "failed: %s" % e
    with cf.ThreadPoolExecutor(max_workers=8) as ex:
        for prop, r in ex.map(one, jobs):
            print("assumptions %s: %s" % (prop, r))
