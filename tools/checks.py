"""The per-property checks.  Every check follows the protocol of DESIGN.md §2(D):
 1. build the harness from /repo's working tree, regenerate the tables, make the
    property's Coq targets (theorems, pins, regenerated obligations);
 2. hygiene: no Admitted/Axiom/..., Print Assumptions of every property theorem;
 3. run the property's families through implementation, extracted model and the
    extracted spec oracle; a failing input gives VIOLATION with that input as
    replay; a broken obligation or correspondence without a failing input gives
    VIOLATION ... no-failing-input-found."""
import json
import os
import re

import vlib
from vlib import TieBroken, MachineryFault

ALPHABETS = {
    "num": "01789aefpxXoObB_.+-i",
    "str": "a\\'\"`nxuU0378DF\n日\U0001F600",
    "utf8": "a_0.+<-&^=/*\"'`\n é日\U0001F600",
}


def decode(alpha, idx):
    k = len(alpha)
    ln, count = 0, 1
    while idx >= count:
        idx -= count
        ln += 1
        count *= k
    chars = []
    for _ in range(ln):
        chars.append(alpha[idx % k])
        idx //= k
    return "".join(reversed(chars))


def wrap(kind, s):
    return {"bare": s, "squote": "'" + s + "'", "dquote": '"' + s + '"', "bquote": "`" + s + "`"}[kind]


def total_upto(k, maxlen):
    return sum(k ** i for i in range(maxlen + 1))


# ---------------------------------------------------------------- common steps

def prepare(run, debug=False):
    gv = vlib.build_harness("release")
    vlib.regen(gv)
    gm = vlib.build_model()
    gvd = vlib.build_harness("debug") if debug else None
    return gv, gm, gvd


def prove(run, props_file, extra_targets=(), gen_targets=(), allow_axioms=()):
    """make the property's Coq targets; returns the list of broken obligations"""
    broken = []
    targets = []
    have_props = os.path.exists(os.path.join(vlib.COQ, props_file))
    if have_props:
        targets.append(props_file[:-2] + ".vo")
        pin = props_file.replace("props/", "pins/").replace(".v", "_pin.v")
        if os.path.exists(os.path.join(vlib.COQ, pin)):
            targets.append(pin[:-2] + ".vo")
    targets += list(extra_targets) + list(gen_targets)
    ok, log = vlib.coq_make(targets)
    failed = vlib.coq_failed_files(log) if not ok else []
    for t in targets:
        base = t[:-3]
        bad = (not ok) and (any(base in f for f in failed) or not os.path.exists(os.path.join(vlib.COQ, t)))
        run.oblige("coq:" + t, not bad)
        if bad:
            broken.append(("coq:" + t, log[-3000:]))
    issues = vlib.hygiene()
    run.oblige("hygiene: no Admitted/admit/Axiom/Parameter/Conjecture/unguarded Variable/guard switches in coq/theories", not issues)
    if issues:
        broken.append(("hygiene", "\n".join(issues)))
    if have_props and not any(b[0].startswith("coq:" + props_file[:-2]) for b in broken):
        thms = vlib.theorems_in(props_file)
        module = props_file[len("theories/"):-2].replace("/", ".")
        try:
            res = vlib.print_assumptions(run.prop, module, thms)
        except TieBroken as e:
            res = {}
            broken.append(("assumptions", e.log))
        for t in thms:
            txt = res.get(t, "missing")
            closed = "Closed under the global context" in txt
            if not closed:
                axioms = re.findall(r"^(\S+)\s*:", txt, re.M)
                closed = bool(axioms) and all(a in allow_axioms for a in axioms)
            run.oblige("theorem %s (Print Assumptions: %s)" % (t, "closed" if "Closed" in txt else txt.strip()[:80]), closed)
            if not closed:
                broken.append(("assumptions of " + t, txt))
        run.extra["theorems"] = thms
    return broken


def conclude(run, broken):
    """obligations broken but no failing input exhibited by the families"""
    if broken and not any(not no_input for _, no_input in run.violations):
        run.violation({"kind": "obligation-broken",
                       "what": [b[0] for b in broken],
                       "log": "\n----\n".join(b[1] for b in broken)[-6000:]}, no_input=True)


# ---------------------------------------------------------------- exhaustive lexical families

def enum_family(run, gv, gm, alpha, wrapk, mode, total, label):
    """both sides enumerate indices [0,total); compare block hashes; judge differences"""
    nshard = vlib.NPROC * 2
    per = ((total + nshard - 1) // nshard + 1023) // 1024 * 1024
    ranges = [(lo, min(lo + per, total)) for lo in range(0, total, per)]
    cmds = []
    for lo, hi in ranges:
        cmds.append([gm, "enum", alpha, wrapk, mode, str(lo), str(hi)])
        cmds.append([gv, "enum", alpha, wrapk, mode, str(lo), str(hi)])
    res = vlib.par(cmds, timeout=3000)
    mblocks, iblocks, oracle_bad = {}, {}, []
    positives = 0
    for k, (rc, out, err) in enumerate(res):
        side = "model" if k % 2 == 0 else "impl"
        if rc != 0:
            if side == "model":
                raise MachineryFault("model enumeration died: " + err[-500:])
            raise TieBroken("implementation harness died during %s enumeration" % label, err[-2000:])
        for ln in out.splitlines():
            if ln.startswith("ORACLE "):
                oracle_bad.append(ln)
            elif ln.startswith("STATS "):
                positives += int(re.search(r"positives=(\d+)", ln).group(1))
            else:
                lo, h = ln.split()
                (mblocks if side == "model" else iblocks)[int(lo)] = h
    if set(mblocks) != set(iblocks):
        raise MachineryFault("block structure differs between model and implementation enumeration")
    diff_blocks = sorted(lo for lo in mblocks if mblocks[lo] != iblocks[lo])
    run.cov["evaluations"] += total
    run.cov["distinct_nontrivial"] += positives
    fam = {"family": label, "alphabet": ALPHABETS[alpha], "wrap": wrapk, "projection": mode,
           "inputs": total, "exhaustive": True, "spec_positive_inputs": positives,
           "blocks": len(mblocks), "blocks_differing": len(diff_blocks)}
    run.extra.setdefault("families", []).append(fam)
    alpha_s = ALPHABETS[alpha]
    # (a) the model contradicts the spec oracle: with impl == model this is a real failure
    for ln in oracle_bad[:10]:
        idx = int(ln.split()[1])
        s = wrap(wrapk, decode(alpha_s, idx))
        run.violation({"kind": "impl-vs-spec", "family": label, "index": idx, "input": s,
                       "detail": ln, "note": "model and implementation agree with each other here unless listed below"})
    # (b) implementation differs from the model: locate inputs, ask the oracle
    found = 0
    nojudge = []
    for lo in diff_blocks[:6]:
        hi = min(lo + 1024, total)
        (rc1, o1, e1), (rc2, o2, e2) = vlib.par([[gm, "enum", alpha, wrapk, mode, str(lo), str(hi), "verbose"],
                                                 [gv, "enum", alpha, wrapk, mode, str(lo), str(hi), "verbose"]])
        ml = {int(l.split(" ", 1)[0]): l.split(" ", 1)[1] for l in o1.splitlines() if l and l[0].isdigit() and " " in l}
        il = {int(l.split(" ", 1)[0]): l.split(" ", 1)[1] for l in o2.splitlines() if l and l[0].isdigit() and " " in l}
        differing = [i for i in sorted(il) if ml.get(i) != il.get(i)]
        if not differing:
            continue
        jin = "".join("%d\t%s\n" % (i, il[i]) for i in differing)
        rc, jo, je = vlib.sh([gm, "judge", alpha, wrapk], input=jin, timeout=600)
        verdict = {int(l.split(" ", 2)[0]): l.split(" ", 2)[1:] for l in jo.splitlines() if l}
        for i in differing:
            s = wrap(wrapk, decode(alpha_s, i))
            v = verdict.get(i, ["OK"])
            panicked = il[i].startswith("PANIC")
            if v[0] == "BAD" or panicked:
                if found < 5:
                    run.violation({"kind": "impl-vs-spec", "family": label, "index": i, "input": s,
                                   "impl": il[i], "model": ml.get(i), "oracle": " ".join(v)})
                found += 1
            else:
                nojudge.append({"index": i, "input": s, "impl": il[i], "model": ml.get(i)})
    if diff_blocks and not found:
        run.violation({"kind": "correspondence-broken", "family": label,
                       "what": "implementation and model differ on projection '%s' but the spec oracle accepts the implementation's output on every differing input examined" % mode,
                       "differing_blocks": len(diff_blocks), "examples": nojudge[:10]}, no_input=True)
    return fam


def sample_inputs(alpha, wrapk, total, n=6):
    step = max(1, total // n)
    return [wrap(wrapk, decode(ALPHABETS[alpha], i)) for i in range(step // 2, total, step)][:n]


def replay_lex(run, replay, gv, gm, mode="tokens"):
    obj = json.load(open(replay))
    if "input" not in obj:
        print("replay file names a broken obligation/correspondence, not an input: " + str(obj.get("what")))
        return
    s = obj["input"]
    il = vlib.run_records(gv, "tokens", [s])[0]
    ml = vlib.run_records(gm, "tokens", [s])[0]
    print("input : %r\nimpl  : %s\nmodel : %s" % (s, il, ml))
    if "index" in obj and "family" in obj:
        fam = obj["family"].split(":")
        if len(fam) == 3:
            rc, jo, je = vlib.sh([gm, "judge", fam[1], fam[2]], input="%d\t%s\n" % (obj["index"], il))
            print("oracle: " + jo.strip())
            if " BAD " in jo or il.startswith("PANIC"):
                run.violation(dict(obj, replayed=True))


# ---------------------------------------------------------------- C09

def check_c09(run, replay):
    run.trusted = vlib.BASE_TRUST
    gv, gm, _ = prepare(run)
    if replay:
        return replay_lex(run, replay, gv, gm)
    broken = prove(run, "theories/props/C09.v", gen_targets=["gen/GenClasses.vo"])
    maxlen = 5 if run.tier == "quick" else 6
    total = total_upto(20, maxlen)
    enum_family(run, gv, gm, "num", "bare", "toks", total, "F-num:num:bare")
    run.cov["rule"] = ("exhaustive: every string of length <= %d over {0 1 7 8 9 a e f p x X o O b B _ . + - i} "
                       "scanned by the crate (hook) and by the extracted model, projection tokens+EOF/ERR, block hashes compared; "
                       "the extracted spec classifier (regex transcription of the EBNF) judges every string: a string that is a "
                       "numeric literal per spec must scan as exactly that literal with that kind, any other string must not; "
                       "non-trivial = strings that are numeric literals per spec" % maxlen)
    run.cov["exhaustive"] = True
    run.cov["samples"] = sample_inputs("num", "bare", total)
    conclude(run, broken)


# ---------------------------------------------------------------- C10

def check_c10(run, replay):
    run.trusted = vlib.BASE_TRUST
    gv, gm, _ = prepare(run)
    if replay:
        return replay_lex(run, replay, gv, gm)
    broken = prove(run, "theories/props/C10.v", gen_targets=["gen/GenClasses.vo"])
    maxlen = 4 if run.tier == "quick" else 5
    total = total_upto(18, maxlen)
    for w in ("squote", "dquote", "bquote"):
        enum_family(run, gv, gm, "str", w, "toks", total, "F-str:str:" + w)
    run.cov["rule"] = ("exhaustive: every literal body of length <= %d over {a \\ ' \" ` n x u U 0 3 7 8 D F newline U+65E5 U+1F600} "
                       "inside each of the three quote kinds, scanned by the crate (hook) and by the extracted model, projection "
                       "tokens+EOF/ERR, block hashes compared; the extracted spec recogniser (regex transcription of the EBNF and its "
                       "prose constraints) judges every string: a well-formed literal must scan as exactly one literal token with "
                       "verbatim text, anything else must not; non-trivial = well-formed literals" % maxlen)
    run.cov["exhaustive"] = True
    run.cov["samples"] = sample_inputs("str", "squote", total, 3) + sample_inputs("str", "dquote", total, 3)
    conclude(run, broken)


# ---------------------------------------------------------------- C17

def unsafe_inventory():
    """every `unsafe` / unchecked conversion in the crate's non-test sources"""
    found = []
    for f in sorted(os.listdir(os.path.join(vlib.REPO, "src"))):
        if not f.endswith(".rs"):
            continue
        src = open(os.path.join(vlib.REPO, "src", f)).read()
        src = re.sub(r"//[^\n]*", "", src)
        fn = None
        for i, ln in enumerate(src.splitlines(), 1):
            m = re.search(r"\bfn\s+(\w+)", ln)
            if m:
                fn = m.group(1)
            if re.search(r"\bunsafe\b|_unchecked\b|\btransmute\b|\bfrom_raw_parts\b|\bMaybeUninit\b|\bstatic\s+mut\b", ln):
                found.append((f, fn, ln.strip()))
    return found


def panics_family(run, gv, alpha, total, label):
    nshard = vlib.NPROC
    per = (total + nshard - 1) // nshard
    ranges = [(lo, min(lo + per, total)) for lo in range(0, total, per)]
    res = vlib.par([[gv, "enum", alpha, "bare", "panics", str(lo), str(hi)] for lo, hi in ranges], timeout=3000)
    n = 0
    hits = []
    for rc, out, err in res:
        if rc != 0:
            raise TieBroken("implementation harness died during %s" % label, err[-2000:])
        for ln in out.splitlines():
            if ln.startswith("DONE "):
                n += int(ln.split()[1])
            elif ln:
                hits.append(ln)
    run.cov["evaluations"] += n
    run.extra.setdefault("families", []).append({"family": label, "inputs": total, "programs_per_input": 3,
                                                  "executions": n, "exhaustive": True, "panics": len(hits)})
    for ln in hits[:5]:
        idx, k, msg = ln.split(" ", 2)
        s = decode(ALPHABETS[alpha], int(idx))
        ctx = ["{}", "package p; var _ = {}", "package p; func f() {{ {} }}"][int(k)].format(s)
        run.violation({"kind": "panic", "family": label, "index": int(idx), "input": ctx, "impl": msg})
    return hits


def check_c17(run, replay):
    run.trusted = vlib.BASE_TRUST + ["the cfg(gosyn_verif) assertion std::str::from_utf8(part).is_ok() in next_nstr"]
    gv, gm, gvd = prepare(run, debug=True)
    if replay:
        obj = json.load(open(replay))
        if "input" in obj:
            rc, out, err = vlib.sh([gv, "outcome"], input=vlib.frame([obj["input"]]))
            print("input: %r\nimpl : %s" % (obj["input"], out.strip()))
            if "PANIC" in out:
                run.violation(dict(obj, replayed=True))
        return
    broken = prove(run, "theories/props/C17.v")
    inv = unsafe_inventory()
    expected = [("scanner.rs", "next_nstr")]
    ok_inv = [(f, fn) for f, fn, _ in inv] == expected
    run.oblige("unsafe inventory of src/*.rs = exactly one unchecked conversion, in Scanner::next_nstr (the modelled one)", ok_inv)
    if not ok_inv:
        broken.append(("unsafe-inventory", "found: %r, modelled: %r" % (inv, expected)))
    maxlen = 4 if run.tier == "quick" else 5
    total = total_upto(len(ALPHABETS["utf8"]), maxlen)
    enum_family(run, gv, gm, "utf8", "bare", "toks", total, "F-utf8:utf8:bare")
    panics_family(run, gv, "utf8", total, "F-utf8-panics-release")
    panics_family(run, gvd, "utf8", total_upto(len(ALPHABETS["utf8"]), maxlen - 1), "F-utf8-panics-debug")
    run.cov["distinct_nontrivial"] = sum(1 for i in range(min(total, 200000)) if any(ord(c) > 127 for c in decode(ALPHABETS["utf8"], i)))
    run.cov["rule"] = ("exhaustive: every string of length <= %d over 1-, 2-, 3- and 4-byte characters, operator characters, digits, quotes, "
                       "blank and newline; scanned alone (crate vs extracted model) and parsed as a variable initialiser and as a statement "
                       "with the cfg(gosyn_verif) UTF-8 assertion compiled into next_nstr (release and debug); a panic is a failure; "
                       "non-trivial = strings containing a multi-byte character (counted over the first 200000 indices)" % maxlen)
    run.cov["exhaustive"] = True
    run.cov["samples"] = sample_inputs("utf8", "bare", total)
    conclude(run, broken)


REGISTRY = {
    "C10": check_c10,
    "C17": check_c17,
    "C09": check_c09,
}
