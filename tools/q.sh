#!/bin/bash
# q.sh <mode> <source...> : run one source through impl (gv) and model (gm)
mode=$1; shift
src="$*"
n=$(printf '%s' "$src" | wc -c)
printf '%d\n%s\n' "$n" "$src" > /verif/.work/q.rec
echo "impl : $(/verif/.work/target/on/release/gv $mode < /verif/.work/q.rec)"
echo "model: $(/verif/.work/gm $mode < /verif/.work/q.rec)"
