//! file / directory entry points (C18), threads (C19), serde round trip (C20)
use crate::canon::{esc, fnv, guarded, FNV0};
use crate::walk;
use std::io::Write;

fn shape_hash(line: &str) -> String {
    format!("{:016x}", fnv(FNV0, line.as_bytes()))
}

/// "OK <path-recorded> <canonical line of the tree>" | error line
pub fn file_line(path: &str) -> String {
    match gosyn::parse_file(path) {
        Ok(f) => format!("OK path={} {} | {}", esc(&f.path.to_string_lossy()), walk::file(&f), walk::comments(&f.comments)),
        Err(e) => format!("{} path={}", walk::error_line(&e), esc(&error_path(&e))),
    }
}

fn error_path(e: &anyhow::Error) -> String {
    match e.downcast_ref::<gosyn::Error>() {
        Some(gosyn::Error::UnexpectedToken { path, .. }) | Some(gosyn::Error::Else { path, .. }) => {
            path.to_string_lossy().to_string()
        }
        _ => String::new(),
    }
}

/// "OK pkg=<name> dir=<path> files=[<path>#<hash of canonical line> ...] ; pkg=..." (packages and files sorted)
pub fn dir_line(path: &str) -> String {
    match gosyn::parse_dir(path) {
        Ok(m) => {
            let mut pkgs: Vec<_> = m.into_iter().collect();
            pkgs.sort_by(|a, b| a.0.cmp(&b.0));
            let mut out = vec![];
            for (name, pkg) in pkgs {
                let mut files: Vec<String> = pkg.files.iter().map(|f| {
                    let line = format!("OK {} | {}", walk::file(f), walk::comments(&f.comments));
                    format!("{}#{}#{}", esc(&f.path.to_string_lossy()), esc(&f.pkg_name.name), shape_hash(&line))
                }).collect();
                files.sort();
                out.push(format!("pkg={} dir={} files=[{}]", esc(&name), esc(&pkg.path.to_string_lossy()), files.join(" ")));
            }
            format!("OK {}", out.join(" ; "))
        }
        Err(e) => format!("{} path={}", walk::error_line(&e), esc(&error_path(&e))),
    }
}

/// sequential baseline, then `n` threads each parsing all records in its own order; every result is compared
/// the canonical line plus, for an error, the Debug rendering of the whole error value (every field the caller
/// can see: expected kinds in their order, actual token, path, location)
fn observe(r: &str) -> String {
    match gosyn::parse_source(r) {
        Ok(f) => format!("OK {} | {}", walk::file(&f), walk::comments(&f.comments)),
        Err(e) => format!("{}\u{1}{}", walk::error_line(&e), match e.downcast_ref::<gosyn::Error>() {
            Some(g) => format!("{:?}", g),
            None => format!("untyped: {}", e),
        }),
    }
}

fn canonical(observed: &str) -> &str {
    observed.split('\u{1}').next().unwrap_or(observed)
}

pub fn threads<W: Write>(n: usize, records: Vec<String>, out: &mut W) {
    let baseline: Vec<String> = records.iter().map(|r| guarded(|| observe(r))).collect();
    // a second sequential pass on a fresh set of parsers: repeated parses give the same result
    let mut repeat_diff = 0usize;
    let mut repeat_first: Option<usize> = None;
    for (i, r) in records.iter().enumerate() {
        if guarded(|| observe(r)) != baseline[i] {
            repeat_diff += 1;
            repeat_first.get_or_insert(i);
        }
    }
    let records = std::sync::Arc::new(records);
    let baseline = std::sync::Arc::new(baseline);
    let mut handles = vec![];
    for t in 0..n {
        let records = records.clone();
        let baseline = baseline.clone();
        handles.push(std::thread::Builder::new().stack_size(8 << 20).spawn(move || {
            let m = records.len();
            let mut diffs = vec![];
            // a different order per thread: stride coprime to m
            let mut stride = 2 * t + 1;
            while m > 0 && gcd(stride, m) != 1 {
                stride += 2;
            }
            for k in 0..m {
                let i = (k * stride + t * 7919) % m;
                let line = guarded(|| observe(&records[i]));
                if line != baseline[i] {
                    diffs.push(i);
                }
            }
            // parsers that are alive at the same time on one thread, dropped in either order: every third record
            // is parsed while a parser of its neighbour exists (and has read its first token or not)
            for k in (0..m).step_by(3) {
                let i = (k * stride + t * 7919) % m;
                let j = (i + 1) % m;
                let line = guarded(|| {
                    let mut held = gosyn::Parser::from(&records[j]);
                    if k % 2 == 0 {
                        let _ = held.parse_stmt();
                    }
                    let l = observe(&records[i]);
                    if k % 4 < 2 {
                        drop(held);
                        l
                    } else {
                        let l2 = l.clone();
                        drop(l);
                        drop(held);
                        l2
                    }
                });
                if line != baseline[i] {
                    diffs.push(i);
                }
                // and what the thread parses next, in both orders
                let again_i = guarded(|| observe(&records[i]));
                if again_i != baseline[i] {
                    diffs.push(i);
                }
                let again = guarded(|| observe(&records[j]));
                if again != baseline[j] {
                    diffs.push(j);
                }
            }
            diffs
        }).unwrap());
    }
    let mut total = 0usize;
    let mut first: Option<usize> = None;
    for h in handles {
        let d = h.join().unwrap();
        total += d.len();
        if first.is_none() {
            first = d.first().copied();
        }
    }
    for l in baseline.iter() {
        writeln!(out, "{}", canonical(l)).unwrap();
    }
    let first = first.or(repeat_first);
    writeln!(out, "THREADS n={} records={} executions={} differing={} repeat_differing={} first={}",
             n, records.len(), n * records.len(), total, repeat_diff,
             first.map(|i| i.to_string()).unwrap_or_else(|| "-".into())).unwrap();
}

fn gcd(a: usize, b: usize) -> usize {
    if b == 0 { a } else { gcd(b, a % b) }
}

#[cfg(feature = "serde")]
fn json_depth(s: &str) -> usize {
    let (mut d, mut m, mut in_str, mut escp) = (0usize, 0usize, false, false);
    for c in s.chars() {
        if in_str {
            if escp { escp = false } else if c == '\\' { escp = true } else if c == '"' { in_str = false }
        } else if c == '"' {
            in_str = true
        } else if c == '{' || c == '[' {
            d += 1;
            m = m.max(d)
        } else if c == '}' || c == ']' {
            d -= 1
        }
    }
    m
}

/// "RT depth=<json depth> same_json=<0|1> same_tree=<0|1> <canonical line>" | "SER-ERR .." | "DE-ERR .." | error line
#[cfg(feature = "serde")]
pub fn serde_line(src: &str) -> String {
    match gosyn::parse_source(src) {
        Ok(f) => {
            let canon = format!("OK {} | {}", walk::file(&f), walk::comments(&f.comments));
            let j1 = match serde_json::to_string(&f) {
                Ok(j) => j,
                Err(e) => return format!("SER-ERR {}", esc(&e.to_string())),
            };
            let depth = json_depth(&j1);
            let f2: gosyn::ast::File = match serde_json::from_str(&j1) {
                Ok(f2) => f2,
                Err(e) => return format!("DE-ERR depth={} {}", depth, esc(&e.to_string())),
            };
            let j2 = serde_json::to_string(&f2).unwrap_or_default();
            let canon2 = format!("OK {} | {}", walk::file(&f2), walk::comments(&f2.comments));
            format!("RT depth={} same_json={} same_tree={} {}", depth, (j1 == j2) as u8, (canon == canon2) as u8, canon)
        }
        Err(e) => walk::error_line(&e),
    }
}
#[cfg(not(feature = "serde"))]
pub fn serde_line(_: &str) -> String {
    "harness built without the serde feature".to_string()
}


struct Fickle {
    first: String,
    later: String,
    calls: std::cell::Cell<usize>,
}

impl AsRef<str> for &Fickle {
    fn as_ref(&self) -> &str {
        let n = self.calls.get();
        self.calls.set(n + 1);
        if n == 0 { &self.first } else { &self.later }
    }
}

/// parse_source / Parser::expression on a source whose AsRef<str> changes between calls
pub fn fickle_line(first: &str, later: &str) -> String {
    let f = Fickle { first: first.to_string(), later: later.to_string(), calls: std::cell::Cell::new(0) };
    let line = match gosyn::parse_source(&f) {
        Ok(file) => format!("OK {} | {}", walk::file(&file), walk::comments(&file.comments)),
        Err(e) => walk::error_line(&e),
    };
    let calls = f.calls.get();
    let g = Fickle { first: first.to_string(), later: later.to_string(), calls: std::cell::Cell::new(0) };
    let _ = gosyn::Parser::from(&g).expression();
    format!("{}+{} {}", calls, g.calls.get(), line)
}
