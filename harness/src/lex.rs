//! scanner-level observations through the cfg(gosyn_verif) hooks
use crate::canon::esc;
use gosyn::token::{Keyword, LitKind, Operator, Token};
use std::io::Write;
use std::str::FromStr;

#[cfg(gosyn_verif)]
mod hooks {
    pub use gosyn::verif::{char_class, tokens};
}
/// built with the hooks off (C20 compares such a build with the hooks-on build): the
/// scanner-level modes are not available
#[cfg(not(gosyn_verif))]
mod hooks {
    pub struct Scanned {
        pub tokens: Vec<(usize, gosyn::token::Token)>,
        pub error: Option<anyhow::Error>,
        pub lines: Vec<usize>,
        pub end: usize,
    }
    pub fn tokens(_: &str) -> Scanned {
        panic!("harness built without --cfg gosyn_verif")
    }
    pub fn char_class(_: char) -> u32 {
        panic!("harness built without --cfg gosyn_verif")
    }
}

pub const OPERATORS: &[(&str, Operator)] = &[
    ("Add", Operator::Add), ("Sub", Operator::Sub), ("Star", Operator::Star), ("Quo", Operator::Quo),
    ("Rem", Operator::Rem), ("And", Operator::And), ("Or", Operator::Or), ("Xor", Operator::Xor),
    ("Shl", Operator::Shl), ("Shr", Operator::Shr), ("AndNot", Operator::AndNot),
    ("AddAssign", Operator::AddAssign), ("SubAssign", Operator::SubAssign), ("MulAssign", Operator::MulAssign),
    ("QuoAssign", Operator::QuoAssign), ("RemAssign", Operator::RemAssign), ("AndAssign", Operator::AndAssign),
    ("OrAssign", Operator::OrAssign), ("XorAssign", Operator::XorAssign), ("ShlAssign", Operator::ShlAssign),
    ("ShrAssign", Operator::ShrAssign), ("AndNotAssign", Operator::AndNotAssign), ("AndAnd", Operator::AndAnd),
    ("OrOr", Operator::OrOr), ("Arrow", Operator::Arrow), ("Inc", Operator::Inc), ("Dec", Operator::Dec),
    ("Equal", Operator::Equal), ("Less", Operator::Less), ("Greater", Operator::Greater), ("Assign", Operator::Assign),
    ("Not", Operator::Not), ("Tiled", Operator::Tiled), ("NotEqual", Operator::NotEqual),
    ("LessEqual", Operator::LessEqual), ("GreaterEqual", Operator::GreaterEqual), ("Define", Operator::Define),
    ("DotDotDot", Operator::DotDotDot), ("ParenLeft", Operator::ParenLeft), ("ParenRight", Operator::ParenRight),
    ("BarackLeft", Operator::BarackLeft), ("BarackRight", Operator::BarackRight), ("BraceLeft", Operator::BraceLeft),
    ("BraceRight", Operator::BraceRight), ("Comma", Operator::Comma), ("Colon", Operator::Colon),
    ("Dot", Operator::Dot), ("SemiColon", Operator::SemiColon),
];

pub const KEYWORDS: &[(&str, Keyword)] = &[
    ("Break", Keyword::Break), ("Case", Keyword::Case), ("Chan", Keyword::Chan), ("Const", Keyword::Const),
    ("Continue", Keyword::Continue), ("Default", Keyword::Default), ("Defer", Keyword::Defer), ("Else", Keyword::Else),
    ("FallThrough", Keyword::FallThrough), ("For", Keyword::For), ("Func", Keyword::Func), ("Go", Keyword::Go),
    ("Goto", Keyword::Goto), ("If", Keyword::If), ("Import", Keyword::Import), ("Interface", Keyword::Interface),
    ("Map", Keyword::Map), ("Package", Keyword::Package), ("Range", Keyword::Range), ("Return", Keyword::Return),
    ("Select", Keyword::Select), ("Struct", Keyword::Struct), ("Switch", Keyword::Switch), ("Type", Keyword::Type),
    ("Var", Keyword::Var),
];

// a new variant upstream makes these matches non-exhaustive: the harness stops
// compiling and the tie is reported as broken instead of silently incomplete
#[allow(dead_code)]
fn exhaustive_op(o: Operator) -> u8 {
    use Operator::*;
    match o {
        Add | Sub | Star | Quo | Rem | And | Or | Xor | Shl | Shr | AndNot | AddAssign | SubAssign
        | MulAssign | QuoAssign | RemAssign | AndAssign | OrAssign | XorAssign | ShlAssign | ShrAssign
        | AndNotAssign | AndAnd | OrOr | Arrow | Inc | Dec | Equal | Less | Greater | Assign | Not
        | Tiled | NotEqual | LessEqual | GreaterEqual | Define | DotDotDot | ParenLeft | ParenRight
        | BarackLeft | BarackRight | BraceLeft | BraceRight | Comma | Colon | Dot | SemiColon => 0,
    }
}
#[allow(dead_code)]
fn exhaustive_kw(k: Keyword) -> u8 {
    use Keyword::*;
    match k {
        Break | Case | Chan | Const | Continue | Default | Defer | Else | FallThrough | For | Func
        | Go | Goto | If | Import | Interface | Map | Package | Range | Return | Select | Struct
        | Switch | Type | Var => 0,
    }
}
#[allow(dead_code)]
fn exhaustive_lk(k: LitKind) -> u8 {
    use LitKind::*;
    match k {
        Ident | String | Integer | Float | Imag | Char => 0,
    }
}

pub fn op_str(o: Operator) -> &'static str {
    o.into()
}
pub fn kw_str(k: Keyword) -> &'static str {
    k.into()
}

pub fn lk_tag(k: LitKind) -> char {
    match k {
        LitKind::Ident => 'I',
        LitKind::String => 'S',
        LitKind::Integer => 'N',
        LitKind::Float => 'F',
        LitKind::Imag => 'M',
        LitKind::Char => 'R',
    }
}

pub fn render_tok(pos: usize, t: &Token) -> String {
    match t {
        Token::Comment(s) => format!("{}:C{}", pos, esc(s)),
        Token::Keyword(k) => format!("{}:K{}", pos, kw_str(*k)),
        Token::Operator(o) => format!("{}:O{}", pos, op_str(*o)),
        Token::Literal(k, s) => format!("{}:{}{}", pos, lk_tag(*k), esc(s)),
    }
}

pub fn err_loc(e: &anyhow::Error) -> String {
    match e.downcast_ref::<gosyn::Error>() {
        Some(gosyn::Error::Else { location, .. }) => format!("ERR {} {}", location.0, location.1),
        Some(gosyn::Error::UnexpectedToken { location, .. }) => {
            format!("ERR {} {}", location.0, location.1)
        }
        Some(gosyn::Error::IO(_)) => "ERR io".to_string(),
        None => "ERR untyped".to_string(),
    }
}

/// "tok tok ... | EOF end=<pos> | l1 l2 ..."  or  "... | ERR <line> <col> | l1 ..."
pub fn token_line(src: &str) -> String {
    let sc = hooks::tokens(src);
    let toks: Vec<String> = sc.tokens.iter().map(|(p, t)| render_tok(*p, t)).collect();
    let lines: Vec<String> = sc.lines.iter().map(|l| l.to_string()).collect();
    let tail = match &sc.error {
        None => format!("EOF end={}", sc.end),
        Some(e) => err_loc(e),
    };
    format!("{} | {} | {}", toks.join(" "), tail, lines.join(" "))
}

pub fn print_classes<W: Write>(out: &mut W) {
    // ranges of equal class mask over all Unicode scalar values
    let mut start = 0u32;
    let mut cur: Option<u32> = None;
    let mut prev_cp = 0u32;
    for cp in 0..=0x10FFFFu32 {
        let m = match char::from_u32(cp) {
            Some(c) => hooks::char_class(c),
            None => u32::MAX, // surrogates: not a char
        };
        match cur {
            Some(c) if c == m => {}
            Some(c) => {
                writeln!(out, "{} {} {}", start, prev_cp, c as i64).unwrap();
                start = cp;
                cur = Some(m);
            }
            None => {
                start = cp;
                cur = Some(m);
            }
        }
        prev_cp = cp;
    }
    if let Some(c) = cur {
        writeln!(out, "{} {} {}", start, prev_cp, c as i64).unwrap();
    }
}

pub fn print_tables<W: Write>(out: &mut W) {
    for (name, o) in OPERATORS {
        writeln!(out, "op {} {} {}", name, op_str(*o), o.precedence()).unwrap();
    }
    for (name, k) in KEYWORDS {
        writeln!(out, "kw {} {}", name, kw_str(*k)).unwrap();
    }
    // reverse maps by behaviour: every string of length <= 3 over ASCII punctuation
    let punct: Vec<char> = (33u8..=126).map(|b| b as char).filter(|c| c.is_ascii_punctuation()).collect();
    let mut strings: Vec<String> = vec![];
    for a in &punct {
        strings.push(a.to_string());
        for b in &punct {
            strings.push(format!("{}{}", a, b));
            for c in &punct {
                strings.push(format!("{}{}{}", a, b, c));
            }
        }
    }
    for s in &strings {
        if let Ok(o) = Operator::from_str(s) {
            let name = OPERATORS.iter().find(|(_, x)| *x == o).map(|(n, _)| *n).unwrap_or("?");
            writeln!(out, "opfrom {} {}", s, name).unwrap();
        }
    }
    // semicolon trigger table by behaviour: scan "<tok>\nx" and look for a ';' right after <tok>
    let mut probe = |label: String, text: &str| {
        let src = format!("{}\nx", text);
        let sc = hooks::tokens(&src);
        let trig = sc.tokens.len() >= 2
            && matches!(sc.tokens[1].1, Token::Operator(Operator::SemiColon));
        writeln!(out, "trigger {} {}", label, trig as u8).unwrap();
    };
    for (name, o) in OPERATORS {
        probe(format!("O{}", name), op_str(*o));
    }
    for (name, k) in KEYWORDS {
        probe(format!("K{}", name), kw_str(*k));
    }
    probe("LIdent".into(), "foo");
    probe("LString".into(), "\"s\"");
    probe("LInteger".into(), "12");
    probe("LFloat".into(), "1.5");
    probe("LImag".into(), "2i");
    probe("LChar".into(), "'c'");
    probe("Comment".into(), "/*c*/");
}
