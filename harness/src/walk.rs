//! S-expression walker over the public ast types.  The layout per node
//! (tag, positions, attributes, docs, children in source order) is the one of
//! coq/theories/Core.v's constructors; coq/theories/Entry.v renders the same text.
use crate::canon::esc;
use crate::lex::{kw_str, lk_tag, op_str};
use gosyn::ast::*;
use gosyn::token::{Keyword, Operator};
use std::rc::Rc;

fn node(tag: &str, ps: &[usize], ats: &[String], docs: Option<&Vec<Rc<Comment>>>, kids: Vec<String>) -> String {
    let mut o = String::new();
    o.push('(');
    o.push_str(tag);
    for p in ps {
        o.push_str(&format!(" @{}", p));
    }
    for a in ats {
        o.push(' ');
        o.push_str(a);
    }
    if let Some(d) = docs {
        o.push_str(" #[");
        o.push_str(&comments(d));
        o.push(']');
    }
    for k in kids {
        o.push(' ');
        o.push_str(&k);
    }
    o.push(')');
    o
}

pub fn comments(d: &[Rc<Comment>]) -> String {
    d.iter().map(|c| format!("{}:{}", c.pos, esc(&c.text))).collect::<Vec<_>>().join(" ")
}

fn a_str(s: &str) -> String {
    format!("s:{}", esc(s))
}
fn a_op(o: Operator) -> String {
    format!("o:{}", op_str(o))
}
fn a_kw(k: Keyword) -> String {
    format!("k:{}", kw_str(k))
}
fn none() -> String {
    "(None)".to_string()
}
fn list(items: Vec<String>) -> String {
    node("List", &[], &[], None, items)
}
fn opt<T, F: Fn(&T) -> String>(o: &Option<T>, f: F) -> String {
    match o {
        Some(x) => f(x),
        None => none(),
    }
}

pub fn ident(i: &Ident) -> String {
    node("Ident", &[i.pos], &[a_str(&i.name)], None, vec![])
}
fn strlit(s: &StringLit) -> String {
    node("StringLit", &[s.pos], &[a_str(&s.value)], None, vec![])
}

fn field(f: &Field, in_interface: bool) -> String {
    let typ = match (&f.typ, in_interface && !f.name.is_empty()) {
        (Expression::TypeFunction(ft), true) => functype(ft, false),
        (t, _) => expr(t),
    };
    node("Field", &[], &[], Some(&f.comments),
         vec![list(f.name.iter().map(ident).collect()), typ, opt(&f.tag, strlit)])
}

fn fieldlist(fl: &FieldList, in_interface: bool) -> String {
    let ps: Vec<usize> = match fl.pos {
        Some((a, b)) => vec![a, b],
        None => vec![],
    };
    node("FieldList", &ps, &[], None, fl.list.iter().map(|f| field(f, in_interface)).collect())
}

fn functype(f: &FuncType, with_pos: bool) -> String {
    let ps: Vec<usize> = if with_pos { vec![f.pos] } else {
        // interface methods are built with FuncType { pos: default }: no position to report
        assert_eq!(f.pos, 0);
        vec![]
    };
    node("FuncType", &ps, &[], None,
         vec![fieldlist(&f.typ_params, false), fieldlist(&f.params, false), fieldlist(&f.result, false)])
}

fn call(c: &Call) -> String {
    node("Call", &[c.pos.0, c.pos.1], &[], None,
         vec![expr(&c.func), list(c.args.iter().map(expr).collect()),
              match c.dots { Some(p) => node("Pos", &[p], &[], None, vec![]), None => none() }])
}

fn litvalue(v: &LiteralValue) -> String {
    node("LiteralValue", &[v.pos.0, v.pos.1], &[], None, v.values.iter().map(|ke| {
        let el = |e: &Element| match e {
            Element::Expr(x) => expr(x),
            Element::LitValue(l) => litvalue(l),
        };
        node("KeyedElement", &[], &[], None, vec![opt(&ke.key, el), el(&ke.val)])
    }).collect())
}

pub fn expr(e: &Expression) -> String {
    let b = |x: &Box<Expression>| expr(x);
    match e {
        Expression::Call(c) => call(c),
        Expression::Index(x) => node("Index", &[x.pos.0, x.pos.1], &[], None, vec![b(&x.left), b(&x.index)]),
        Expression::IndexList(x) => node("IndexList", &[x.pos.0, x.pos.1], &[], None,
                                         vec![b(&x.left), list(x.indices.iter().map(expr).collect())]),
        Expression::Slice(x) => node("Slice", &[x.pos.0, x.pos.1], &[], None,
                                     vec![b(&x.left), opt(&x.index[0], b), opt(&x.index[1], b), opt(&x.index[2], b)]),
        Expression::Ident(i) => ident(i),
        Expression::FuncLit(f) => node("FuncLit", &[], &[], None, vec![functype(&f.typ, true), block(&f.body)]),
        Expression::Ellipsis(x) => node("Ellipsis", &[x.pos], &[], None, vec![opt(&x.elt, b)]),
        Expression::Selector(x) => node("Selector", &[x.pos], &[], None, vec![b(&x.x), ident(&x.sel)]),
        Expression::BasicLit(l) => node("BasicLit", &[l.pos], &[format!("l:{}", lk_tag(l.kind)), a_str(&l.value)], None, vec![]),
        Expression::Range(r) => node("Range", &[r.pos], &[], None, vec![b(&r.right)]),
        Expression::Star(s) => node("Star", &[s.pos], &[], None, vec![b(&s.right)]),
        Expression::Paren(p) => node("Paren", &[p.pos.0, p.pos.1], &[], None, vec![b(&p.expr)]),
        Expression::TypeAssert(t) => node("TypeAssert", &[t.pos.0, t.pos.1], &[], None, vec![b(&t.left), opt(&t.right, b)]),
        Expression::CompositeLit(c) => node("CompositeLit", &[], &[], None, vec![b(&c.typ), litvalue(&c.val)]),
        Expression::List(l) => list(l.iter().map(expr).collect()),
        Expression::Operation(o) => node("Operation", &[o.pos], &[a_op(o.op)], None, vec![b(&o.x), opt(&o.y, b)]),
        Expression::TypeMap(m) => node("TypeMap", &[m.pos.0, m.pos.1], &[], None, vec![b(&m.key), b(&m.val)]),
        Expression::TypeArray(a) => node("TypeArray", &[a.pos.0, a.pos.1], &[], None, vec![b(&a.len), b(&a.typ)]),
        Expression::TypeSlice(s) => node("TypeSlice", &[s.pos.0, s.pos.1], &[], None, vec![b(&s.typ)]),
        Expression::TypeFunction(f) => functype(f, true),
        Expression::TypeStruct(s) => node("TypeStruct", &[s.pos.0, s.pos.1], &[], None,
                                          s.fields.iter().map(|f| field(f, false)).collect()),
        Expression::TypeChannel(c) => {
            let d = match c.dir { None => 0, Some(ChanMode::Send) => 1, Some(ChanMode::Recv) => 2 };
            node("TypeChannel", &[c.pos.0, c.pos.1], &[format!("d:{}", d)], None, vec![b(&c.typ)])
        }
        Expression::TypePointer(p) => node("TypePointer", &[p.pos], &[], None, vec![b(&p.typ)]),
        Expression::TypeInterface(i) => node("TypeInterface", &[i.pos], &[], None, vec![fieldlist(&i.methods, true)]),
    }
}

fn block(b: &BlockStmt) -> String {
    node("Block", &[b.pos.0, b.pos.1], &[], None, b.list.iter().map(stmt).collect())
}

fn decl<T, F: Fn(&T) -> String>(tag: &str, d: &Decl<T>, f: F) -> String {
    let mut ps = vec![d.pos0];
    if let Some((l, r)) = d.pos1 {
        ps.push(l);
        ps.push(r);
    }
    node(tag, &ps, &[], Some(&d.docs), d.specs.iter().map(f).collect())
}

fn varspec(s: &VarSpec) -> String {
    node("VarSpec", &[], &[], Some(&s.docs),
         vec![list(s.name.iter().map(ident).collect()), opt(&s.typ, expr), list(s.values.iter().map(expr).collect())])
}
fn constspec(s: &ConstSpec) -> String {
    node("ConstSpec", &[], &[], Some(&s.docs),
         vec![list(s.name.iter().map(ident).collect()), opt(&s.typ, expr), list(s.values.iter().map(expr).collect())])
}
fn typespec(s: &TypeSpec) -> String {
    node("TypeSpec", &[], &[format!("b:{}", s.alias as u8)], Some(&s.docs),
         vec![ident(&s.name), fieldlist(&s.params, false), expr(&s.typ)])
}

fn caseblock(b: &CaseBlock) -> String {
    node("CaseBlock", &[b.pos.0, b.pos.1], &[], None, b.body.iter().map(|c| {
        node("CaseClause", &[c.pos.0, c.pos.1], &[a_kw(c.tok)], None,
             vec![list(c.list.iter().map(expr).collect()), list(c.body.iter().map(stmt).collect())])
    }).collect())
}

pub fn stmt(s: &Statement) -> String {
    let bs = |x: &Box<Statement>| stmt(x);
    match s {
        Statement::Go(g) => node("Go", &[g.pos], &[], None, vec![call(&g.call)]),
        Statement::Defer(g) => node("Defer", &[g.pos], &[], None, vec![call(&g.call)]),
        Statement::If(i) => node("If", &[i.pos], &[], None,
                                 vec![opt(&i.init, bs), expr(&i.cond), block(&i.body), opt(&i.else_, bs)]),
        Statement::For(f) => node("For", &[f.pos], &[], None,
                                  vec![opt(&f.init, bs), opt(&f.cond, bs), opt(&f.post, bs), block(&f.body)]),
        Statement::Send(x) => node("Send", &[x.pos], &[], None, vec![expr(&x.chan), expr(&x.value)]),
        Statement::Expr(x) => node("ExprStmt", &[], &[], None, vec![expr(&x.expr)]),
        Statement::Block(b) => block(b),
        Statement::Range(r) => node("RangeStmt", &[r.pos.0, r.pos.1], &[], None,
                                    vec![opt(&r.key, expr), opt(&r.value, expr),
                                         match &r.op { Some((p, o)) => node("Pos", &[*p], &[a_op(*o)], None, vec![]), None => none() },
                                         expr(&r.expr), block(&r.body)]),
        Statement::Empty(e) => node("Empty", &[e.pos], &[], None, vec![]),
        Statement::Label(l) => node("Label", &[l.pos], &[], None, vec![ident(&l.name), bs(&l.stmt)]),
        Statement::IncDec(x) => node("IncDec", &[x.pos], &[a_op(x.op)], None, vec![expr(&x.expr)]),
        Statement::Assign(a) => node("Assign", &[a.pos], &[a_op(a.op)], None,
                                     vec![list(a.left.iter().map(expr).collect()), list(a.right.iter().map(expr).collect())]),
        Statement::Return(r) => node("Return", &[r.pos], &[], None, r.ret.iter().map(expr).collect()),
        Statement::Branch(b) => node("Branch", &[b.pos], &[a_kw(b.key)], None, vec![opt(&b.ident, ident)]),
        Statement::Switch(x) => node("Switch", &[x.pos], &[], None,
                                     vec![opt(&x.init, bs), opt(&x.tag, expr), caseblock(&x.block)]),
        Statement::TypeSwitch(x) => node("TypeSwitch", &[x.pos], &[], None,
                                         vec![opt(&x.init, bs), opt(&x.tag, bs), caseblock(&x.block)]),
        Statement::Select(x) => node("Select", &[x.pos], &[], None, vec![
            node("CommBlock", &[x.body.pos.0, x.body.pos.1], &[], None, x.body.body.iter().map(|c| {
                node("CommClause", &[c.pos.0, c.pos.1], &[a_kw(c.tok)], None,
                     vec![opt(&c.comm, bs), list(c.body.iter().map(stmt).collect())])
            }).collect())]),
        Statement::Declaration(d) => node("DeclStmt", &[], &[], None, vec![match d {
            DeclStmt::Type(x) => decl("DeclType", x, typespec),
            DeclStmt::Const(x) => decl("DeclConst", x, constspec),
            DeclStmt::Variable(x) => decl("DeclVar", x, varspec),
        }]),
    }
}

pub fn declaration(d: &Declaration) -> String {
    match d {
        Declaration::Function(f) => node("FuncDecl", &[], &[], Some(&f.docs), vec![
            opt(&f.recv, |r| fieldlist(r, false)), ident(&f.name), functype(&f.typ, true), opt(&f.body, block)]),
        Declaration::Type(x) => decl("DeclType", x, typespec),
        Declaration::Const(x) => decl("DeclConst", x, constspec),
        Declaration::Variable(x) => decl("DeclVar", x, varspec),
    }
}

pub fn file(f: &File) -> String {
    node("File", &[], &[], Some(&f.docs), vec![
        ident(&f.pkg_name),
        list(f.imports.iter().map(|i| node("Import", &[], &[], None, vec![opt(&i.name, ident), strlit(&i.path)])).collect()),
        list(f.decl.iter().map(declaration).collect()),
    ])
}

pub fn error_line(e: &anyhow::Error) -> String {
    // formatting the error for display must succeed (a panic in it is caught by the caller and reported) and
    // show the location the error value carries
    let shown = e.to_string();
    let debug = format!("{:?}", e);
    let loc = match e.downcast_ref::<gosyn::Error>() {
        Some(gosyn::Error::UnexpectedToken { location, .. }) | Some(gosyn::Error::Else { location, .. }) => Some(*location),
        _ => None,
    };
    if let Some((l, c)) = loc {
        let want = format!(":{}:{} ", l, c);
        if !shown.contains(&want) || !debug.contains(&want) {
            return format!("ERR display {}", esc(&shown));
        }
    }
    match e.downcast_ref::<gosyn::Error>() {
        Some(gosyn::Error::UnexpectedToken { location, actual, .. }) => format!(
            "ERR u {} {} {}", location.0, location.1,
            match actual { Some(t) => crate::lex::render_tok(0, t), None => "EOF".to_string() }),
        Some(gosyn::Error::Else { location, .. }) => format!("ERR e {} {}", location.0, location.1),
        Some(gosyn::Error::IO(_)) => "ERR io".to_string(),
        None => "ERR untyped".to_string(),
    }
}

#[cfg(gosyn_verif)]
fn state_of(p: &gosyn::Parser) -> String {
    let (level, depth, _lead) = p.verif_state();
    format!(" ; state={},{}", level, depth)
}
#[cfg(not(gosyn_verif))]
fn state_of(_: &gosyn::Parser) -> String {
    String::new()
}

/// the same entry points, followed by the state the parser is left in: "<line> ; state=<expr_level>,<depth>"
pub fn parse_line_state(mode: &str, src: &str) -> String {
    let mut p = gosyn::Parser::from(src);
    let line = match mode {
        "parse" => match p.parse_file() {
            Ok(f) => format!("OK {} | {}", file(&f), comments(&f.comments)),
            Err(e) => error_line(&e),
        },
        "expr" => match p.expression() {
            Ok(x) => format!("OK {}", expr(&x)),
            Err(e) => error_line(&e),
        },
        "stmt" => match p.parse_stmt() {
            Ok(x) => format!("OK {}", stmt(&x)),
            Err(e) => error_line(&e),
        },
        m if m.starts_with("stmts") => {
            let n: usize = m[5..].parse().unwrap();
            let mut out = vec![];
            let mut err = None;
            for _ in 0..n {
                match p.parse_stmt() {
                    Ok(x) => out.push(stmt(&x)),
                    Err(e) => {
                        err = Some(error_line(&e));
                        break;
                    }
                }
            }
            match err {
                Some(e) => e,
                None => format!("OK {}", list(out)),
            }
        }
        _ => panic!("unknown parse mode"),
    };
    format!("{}{}", line, state_of(&p))
}

/// "OK <tree> | c1 c2 ..." | "ERR ..."
pub fn parse_line(mode: &str, src: &str) -> String {
    match mode {
        "parse" => match gosyn::parse_source(src) {
            Ok(f) => format!("OK {} | {}", file(&f), comments(&f.comments)),
            Err(e) => error_line(&e),
        },
        "expr" => match gosyn::Parser::from(src).expression() {
            Ok(x) => format!("OK {}", expr(&x)),
            Err(e) => error_line(&e),
        },
        "stmt" => match gosyn::Parser::from(src).parse_stmt() {
            Ok(x) => format!("OK {}", stmt(&x)),
            Err(e) => error_line(&e),
        },
        m if m.starts_with("stmts") => {
            let n: usize = m[5..].parse().unwrap();
            let mut p = gosyn::Parser::from(src);
            let mut out = vec![];
            for _ in 0..n {
                match p.parse_stmt() {
                    Ok(x) => out.push(stmt(&x)),
                    Err(e) => return error_line(&e),
                }
            }
            format!("OK {}", list(out))
        }
        _ => panic!("unknown parse mode"),
    }
}
