//! canonical text forms (must agree with coq/theories/Render.v)
use std::panic;

pub fn esc(s: &str) -> String {
    let mut o = String::with_capacity(s.len());
    for c in s.chars() {
        let u = c as u32;
        if (33..=126).contains(&u) && c != '\\' && c != '(' && c != ')' {
            o.push(c);
        } else {
            o.push_str(&format!("\\u{{{:x}}}", u));
        }
    }
    o
}

/// run f, turning a panic into a canonical "PANIC <message>" line
pub fn guarded<F: FnOnce() -> String + panic::UnwindSafe>(f: F) -> String {
    match panic::catch_unwind(f) {
        Ok(s) => s,
        Err(e) => {
            let msg = if let Some(s) = e.downcast_ref::<&str>() {
                s.to_string()
            } else if let Some(s) = e.downcast_ref::<String>() {
                s.clone()
            } else {
                "?".to_string()
            };
            format!("PANIC {}", esc(&msg))
        }
    }
}

pub fn quiet_panics() {
    panic::set_hook(Box::new(|_| {}));
}

/// FNV-1a 64
pub fn fnv(h: u64, bytes: &[u8]) -> u64 {
    let mut h = h;
    for b in bytes {
        h ^= *b as u64;
        h = h.wrapping_mul(0x100000001b3);
    }
    h
}
pub const FNV0: u64 = 0xcbf29ce484222325;
