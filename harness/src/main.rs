//! Implementation-side harness of the correspondence check.
//! Reads length-framed inputs on stdin (decimal byte length, '\n', bytes, '\n'),
//! prints one canonical line per input.  Built against /repo's working tree.
use std::io::{self, BufRead, Read, Write};

mod canon;
mod enumerate;
mod extra;
mod lex;
mod walk;

pub fn read_records() -> Vec<String> {
    let stdin = io::stdin();
    let mut lock = stdin.lock();
    let mut out = vec![];
    loop {
        let mut header = String::new();
        if lock.read_line(&mut header).unwrap() == 0 {
            break;
        }
        let header = header.trim();
        if header.is_empty() {
            continue;
        }
        let len: usize = header.parse().expect("frame length");
        let mut buf = vec![0u8; len];
        lock.read_exact(&mut buf).unwrap();
        let mut nl = [0u8; 1];
        let _ = lock.read_exact(&mut nl);
        out.push(String::from_utf8(buf).expect("utf8 input"));
    }
    out
}

fn main() {
    let args: Vec<String> = std::env::args().collect();
    let mode = args.get(1).map(|s| s.as_str()).unwrap_or("");
    let stdout = io::stdout();
    let mut out = io::BufWriter::new(stdout.lock());
    match mode {
        "classes" => lex::print_classes(&mut out),
        "tables" => lex::print_tables(&mut out),
        "tokens" => {
            for rec in read_records() {
                let line = canon::guarded(|| lex::token_line(&rec));
                writeln!(out, "{}", line).unwrap();
            }
        }
        "parse" | "expr" | "stmt" | "stmts2" | "stmts3" => {
            canon::quiet_panics();
            for rec in read_records() {
                let line = canon::guarded(|| walk::parse_line(mode, &rec));
                writeln!(out, "{}", line).unwrap();
            }
        }
        "fickle" => {
            // a caller-defined source type whose AsRef<str> answers differently each time it is asked (legal, safe
            // Rust): record = first text, U+0001, later text.  Prints "<calls> <canonical line>".
            canon::quiet_panics();
            for rec in read_records() {
                let mut it = rec.splitn(2, '\u{1}');
                let first = it.next().unwrap_or("").to_string();
                let later = it.next().unwrap_or("").to_string();
                let line = canon::guarded(|| extra::fickle_line(&first, &later));
                writeln!(out, "{}", line).unwrap();
            }
        }
        "parse+s" | "expr+s" | "stmt+s" | "stmts2+s" | "stmts3+s" => {
            canon::quiet_panics();
            for rec in read_records() {
                let line = canon::guarded(|| walk::parse_line_state(&mode[..mode.len() - 2], &rec));
                writeln!(out, "{}", line).unwrap();
            }
        }
        "outcome" => {
            canon::quiet_panics();
            for rec in read_records() {
                let line = canon::guarded(|| match gosyn::parse_source(&rec) {
                    Ok(f) => {
                        let _ = format!("{:?}", f);
                        "OK".to_string()
                    }
                    Err(e) => lex::err_loc(&e),
                });
                writeln!(out, "{}", line).unwrap();
            }
        }
        "enum" => enumerate::run(&args[2..], &mut out),
        "file" | "dir" => {
            canon::quiet_panics();
            for rec in read_records() {
                let line = canon::guarded(|| if mode == "file" { extra::file_line(&rec) } else { extra::dir_line(&rec) });
                writeln!(out, "{}", line).unwrap();
            }
        }
        "threads" => {
            canon::quiet_panics();
            let n: usize = args.get(2).and_then(|s| s.parse().ok()).unwrap_or(16);
            extra::threads(n, read_records(), &mut out);
        }
        "serde" => {
            canon::quiet_panics();
            for rec in read_records() {
                let line = canon::guarded(|| extra::serde_line(&rec));
                writeln!(out, "{}", line).unwrap();
            }
        }
        _ => {
            eprintln!("usage: gv <classes|tables|tokens|enum ...>");
            std::process::exit(2);
        }
    }
    out.flush().unwrap();
}
