//! exhaustive families: both sides enumerate the same index space in the same
//! order and exchange block hashes (block = 1024 consecutive indices)
use crate::canon::{fnv, guarded, quiet_panics, FNV0};
use crate::lex;
use std::io::Write;

pub fn alphabet(name: &str) -> Vec<char> {
    match name {
        // C09: {0 1 7 8 9 a e f p x X o O b B _ . + - i}
        "num" => "01789aefpxXoObB_.+-i".chars().collect(),
        // C10: {a \ ' " ` n x u U 0 3 7 8 D F newline, 3-byte char, 4-byte char}
        "str" => "a\\'\"`nxuU0378DF\n\u{65e5}\u{1F600}".chars().collect(),
        // C17: 1-, 2-, 3-, 4-byte characters, operator characters, digits, quotes
        "utf8" => "a_0.+<-&^=/*\"'`\n \u{e9}\u{65e5}\u{1F600}".chars().collect(),
        _ => panic!("unknown alphabet"),
    }
}

/// index -> string: lengths 0..=maxlen in order, within a length base-k digits,
/// most significant first
pub fn decode(alpha: &[char], mut idx: u64) -> String {
    let k = alpha.len() as u64;
    let mut len = 0u32;
    let mut count = 1u64;
    while idx >= count {
        idx -= count;
        len += 1;
        count *= k;
    }
    let mut chars = vec![' '; len as usize];
    for i in (0..len as usize).rev() {
        chars[i] = alpha[(idx % k) as usize];
        idx /= k;
    }
    chars.into_iter().collect()
}

pub fn wrap(kind: &str, s: &str) -> String {
    match kind {
        "bare" => s.to_string(),
        "squote" => format!("'{}'", s),
        "dquote" => format!("\"{}\"", s),
        "bquote" => format!("`{}`", s),
        _ => panic!("unknown wrap"),
    }
}

/// enum <alphabet> <wrap> <mode> <lo> <hi> [verbose]
pub fn run<W: Write>(args: &[String], out: &mut W) {
    quiet_panics();
    let alpha = alphabet(&args[0]);
    let wrapk = args[1].as_str();
    let mode = args[2].as_str();
    let lo: u64 = args[3].parse().unwrap();
    let hi: u64 = args[4].parse().unwrap();
    let verbose = args.get(5).map(|s| s == "verbose").unwrap_or(false);
    if mode == "panics" {
        // implementation-only family: report every input on which the crate panics
        // (with hooks on this includes the UTF-8 assertion in next_nstr)
        let mut n = 0u64;
        for idx in lo..hi {
            let s = wrap(wrapk, &decode(&alpha, idx));
            let progs = [
                s.clone(),
                format!("package p; var _ = {}", s),
                format!("package p; func f() {{ {} }}", s),
            ];
            for (k, p) in progs.iter().enumerate() {
                let line = guarded(|| {
                    if k == 0 {
                        lex::token_line(p)
                    } else {
                        let r = gosyn::parse_source(p);
                        match r {
                            Ok(f) => {
                                let _ = format!("{:?}", f);
                                "OK".to_string()
                            }
                            Err(e) => e.to_string(),
                        }
                    }
                });
                if line.starts_with("PANIC") {
                    writeln!(out, "{} {} {}", idx, k, line).unwrap();
                }
                n += 1;
            }
        }
        writeln!(out, "DONE {}", n).unwrap();
        return;
    }
    let mut h = FNV0;
    let mut block_start = lo;
    for idx in lo..hi {
        let s = wrap(wrapk, &decode(&alpha, idx));
        let line = match mode {
            "tokens" => guarded(|| lex::token_line(&s)),
            "toks" => project_toks(&guarded(|| lex::token_line(&s))),
            _ => panic!("unknown enum mode"),
        };
        if verbose {
            writeln!(out, "{} {}", idx, line).unwrap();
        } else {
            h = fnv(h, line.as_bytes());
            h = fnv(h, b"\n");
            if (idx + 1) % 1024 == 0 || idx + 1 == hi {
                writeln!(out, "{} {:016x}", block_start, h).unwrap();
                h = FNV0;
                block_start = idx + 1;
            }
        }
    }
}

/// projection: the tokens and whether the scan ended in EOF or an error
pub fn project_toks(line: &str) -> String {
    match line.find(" | ") {
        Some(i) => {
            let rest = &line[i + 3..];
            let word = rest.split(' ').next().unwrap_or("");
            format!("{} | {}", &line[..i], word)
        }
        None => line.to_string(),
    }
}
