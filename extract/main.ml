(* Model-side driver of the correspondence check: framing, UTF-8, the shared
   enumeration of exhaustive families; everything else is extracted Gallina. *)
open Model

let rec pos_of_int (i : int) : positive =
  if i = 1 then XH else if i land 1 = 1 then XI (pos_of_int (i lsr 1)) else XO (pos_of_int (i lsr 1))
let n_of_int (i : int) : n = if i = 0 then N0 else Npos (pos_of_int i)
let rec int_of_pos (p : positive) : int =
  match p with XH -> 1 | XO q -> 2 * int_of_pos q | XI q -> 2 * int_of_pos q + 1
let int_of_n (x : n) : int = match x with N0 -> 0 | Npos p -> int_of_pos p

(* UTF-8 decode a string to code points *)
let decode_utf8 (s : string) : int list =
  let n = String.length s in
  let rec go i acc =
    if i >= n then List.rev acc
    else
      let c = Char.code s.[i] in
      if c < 0x80 then go (i + 1) (c :: acc)
      else if c < 0xE0 then go (i + 2) ((((c land 0x1F) lsl 6) lor (Char.code s.[i+1] land 0x3F)) :: acc)
      else if c < 0xF0 then
        go (i + 3) ((((c land 0x0F) lsl 12) lor ((Char.code s.[i+1] land 0x3F) lsl 6)
                     lor (Char.code s.[i+2] land 0x3F)) :: acc)
      else
        go (i + 4) ((((c land 0x07) lsl 18) lor ((Char.code s.[i+1] land 0x3F) lsl 12)
                     lor ((Char.code s.[i+2] land 0x3F) lsl 6) lor (Char.code s.[i+3] land 0x3F)) :: acc)
  in go 0 []

let add_utf8 (b : Buffer.t) (c : int) : unit =
  if c < 0x80 then Buffer.add_char b (Char.chr c)
  else if c < 0x800 then begin
    Buffer.add_char b (Char.chr (0xC0 lor (c lsr 6)));
    Buffer.add_char b (Char.chr (0x80 lor (c land 0x3F))) end
  else if c < 0x10000 then begin
    Buffer.add_char b (Char.chr (0xE0 lor (c lsr 12)));
    Buffer.add_char b (Char.chr (0x80 lor ((c lsr 6) land 0x3F)));
    Buffer.add_char b (Char.chr (0x80 lor (c land 0x3F))) end
  else begin
    Buffer.add_char b (Char.chr (0xF0 lor (c lsr 18)));
    Buffer.add_char b (Char.chr (0x80 lor ((c lsr 12) land 0x3F)));
    Buffer.add_char b (Char.chr (0x80 lor ((c lsr 6) land 0x3F)));
    Buffer.add_char b (Char.chr (0x80 lor (c land 0x3F))) end

let to_model (s : string) : n list = List.map n_of_int (decode_utf8 s)
let of_model (l : n list) : string =
  let b = Buffer.create 64 in
  List.iter (fun c -> add_utf8 b (int_of_n c)) l;
  Buffer.contents b

let read_records () : string list =
  let acc = ref [] in
  (try
     while true do
       let header = String.trim (input_line stdin) in
       if header <> "" then begin
         let len = int_of_string header in
         let buf = really_input_string stdin len in
         (try ignore (input_char stdin) with End_of_file -> ());
         acc := buf :: !acc
       end
     done
   with End_of_file -> ());
  List.rev !acc

(* ---- shared enumeration (must agree with harness/src/enumerate.rs) ---- *)
let alphabet = function
  | "num" -> decode_utf8 "01789aefpxXoObB_.+-i"
  | "str" -> decode_utf8 "a\\'\"`nxuU0378DF\n\xe6\x97\xa5\xf0\x9f\x98\x80"
  | "utf8" -> decode_utf8 "a_0.+<-&^=/*\"'`\n \xc3\xa9\xe6\x97\xa5\xf0\x9f\x98\x80"
  | _ -> failwith "unknown alphabet"

let decode (alpha : int array) (idx : int) : int list =
  let k = Array.length alpha in
  let idx = ref idx and len = ref 0 and count = ref 1 in
  while !idx >= !count do
    idx := !idx - !count; incr len; count := !count * k
  done;
  let chars = Array.make !len 0 in
  for i = !len - 1 downto 0 do
    chars.(i) <- alpha.(!idx mod k); idx := !idx / k
  done;
  Array.to_list chars

let wrap kind (s : int list) : int list =
  match kind with
  | "bare" -> s
  | "squote" -> (39 :: s) @ [39]
  | "dquote" -> (34 :: s) @ [34]
  | "bquote" -> (96 :: s) @ [96]
  | _ -> failwith "unknown wrap"

let fnv0 = 0xcbf29ce484222325L
let fnv (h : int64) (s : string) : int64 =
  let h = ref h in
  String.iter (fun c ->
      h := Int64.logxor !h (Int64.of_int (Char.code c));
      h := Int64.mul !h 0x100000001b3L) s;
  !h

let string_of_cps (l : int list) : string =
  let b = Buffer.create 16 in List.iter (add_utf8 b) l; Buffer.contents b

(* oracle consistency of one enumerated lexical case: the token line of the
   model against the spec classification of the whole string *)
let check_oracle ~(kinds : char list) ~(oracle : n list -> n) (s : int list) (line : string) : string option =
  let sn = List.map n_of_int s in
  let k = int_of_n (oracle sn) in
  let len = List.length s in
  let single kind =
    Printf.sprintf "0:%c%s %d:O; | EOF end=%d | " kind (of_model (esc_str sn)) len len in
  let starts_single kind =
    let p = Printf.sprintf "0:%c%s %d:O; | EOF" kind (of_model (esc_str sn)) len in
    String.length line >= String.length p && String.sub line 0 (String.length p) = p in
  let is_single = List.exists starts_single kinds in
  if k <> 0 then
    (if starts_single (Char.chr k) then None
     else Some (Printf.sprintf "spec says %c literal, scanner gives: %s" (Char.chr k) line))
  else if is_single then Some (Printf.sprintf "spec says not a literal, scanner gives: %s" line)
  else (ignore single; None)

let oracle_for alpha wrapk =
  match alpha, wrapk with
  | "num", "bare" -> Some (['N'; 'F'; 'M'], oracle_num)
  | "str", "squote" -> Some (['R'], oracle_rune)
  | "str", ("dquote" | "bquote") -> Some (['S'], oracle_string)
  | _ -> None

(* projection: the tokens and whether the scan ended in EOF or an error (no
   error location, no line table) *)
let project_toks (line : string) : string =
  let n = String.length line in
  let rec find i = if i + 2 >= n then None
    else if line.[i] = ' ' && line.[i+1] = '|' && line.[i+2] = ' ' then Some i else find (i + 1) in
  let cut = if n >= 2 && line.[0] = '|' && line.[1] = ' ' then Some (-1) else find 0 in
  match cut with
  | None -> line
  | Some i ->
    let toks = if i < 0 then "" else String.sub line 0 i in
    let rest = String.sub line (i + 3) (n - i - 3) in
    let word = try String.sub rest 0 (String.index rest ' ') with Not_found -> rest in
    toks ^ " | " ^ word

let run_enum args =
  match args with
  | alpha :: wrapk :: mode :: lo :: hi :: rest ->
    let alpha_a = Array.of_list (alphabet alpha) in
    let lo = int_of_string lo and hi = int_of_string hi in
    let verbose = (rest = ["verbose"]) in
    let h = ref fnv0 and block_start = ref lo in
    let bad = ref 0 and positives = ref 0 in
    for idx = lo to hi - 1 do
      let s = wrap wrapk (decode alpha_a idx) in
      let line = match mode with
        | "tokens" -> of_model (run_tokens (List.map n_of_int s))
        | "toks" -> project_toks (of_model (run_tokens (List.map n_of_int s)))
        | _ -> failwith "unknown enum mode" in
      (match oracle_for alpha wrapk with
       | Some (kinds, oracle) ->
         (match check_oracle ~kinds ~oracle s line with
          | Some msg -> incr bad; Printf.printf "ORACLE %d %s\n" idx msg
          | None -> ());
         if int_of_n (oracle (List.map n_of_int s)) <> 0 then incr positives
       | None -> ());
      if verbose then Printf.printf "%d %s\n" idx line
      else begin
        h := fnv (fnv !h line) "\n";
        if (idx + 1) mod 1024 = 0 || idx + 1 = hi then begin
          Printf.printf "%d %016Lx\n" !block_start !h;
          h := fnv0; block_start := idx + 1
        end
      end
    done;
    Printf.printf "STATS positives=%d oracle_bad=%d\n" !positives !bad
  | _ -> failwith "enum <alphabet> <wrap> <mode> <lo> <hi> [verbose]"

(* judge <alphabet> <wrap>: stdin lines "<idx>\t<implementation's line>"; verdict of the
   spec oracle on what the implementation printed for that enumerated input *)
let run_judge alpha wrapk =
  let alpha_a = Array.of_list (alphabet alpha) in
  (try
     while true do
       let ln = input_line stdin in
       match String.index_opt ln '\t' with
       | None -> ()
       | Some i ->
         let idx = int_of_string (String.sub ln 0 i) in
         let line = String.sub ln (i + 1) (String.length ln - i - 1) in
         let s = wrap wrapk (decode alpha_a idx) in
         (match oracle_for alpha wrapk with
          | Some (kinds, oracle) ->
            (match check_oracle ~kinds ~oracle s line with
             | Some msg -> Printf.printf "%d BAD %s\n" idx msg
             | None -> Printf.printf "%d OK\n" idx)
          | None -> Printf.printf "%d OK\n" idx)
     done
   with End_of_file -> ())

let () =
  match Array.to_list Sys.argv with
  | _ :: "judge" :: alpha :: wrapk :: _ -> run_judge alpha wrapk
  | _ :: "tokens" :: _ ->
    List.iter (fun r -> print_endline (of_model (run_tokens (to_model r)))) (read_records ())
  | _ :: "parse" :: _ ->
    List.iter (fun r -> print_endline (of_model (run_parse_file (to_model r)))) (read_records ())
  | _ :: (("expr" | "stmt" | "stmts2" | "stmts3") as m) :: _ ->
    let cut s = (* entry points other than parse_file do not return the comment list *)
      let n = String.length s in
      let rec find i = if i + 2 >= n then None
        else if s.[i] = ' ' && s.[i+1] = '|' && s.[i+2] = ' ' then Some i else find (i + 1) in
      if n >= 2 && String.sub s 0 2 = "OK" then
        (match find 0 with Some i -> String.sub s 0 i | None -> s) else s in
    let rec nat_of_int i = if i = 0 then O else S (nat_of_int (i - 1)) in
    let f = match m with
      | "expr" -> run_parse_expr | "stmt" -> run_parse_stmt
      | "stmts2" -> run_parse_stmts (nat_of_int 2) | _ -> run_parse_stmts (nat_of_int 3) in
    List.iter (fun r -> print_endline (cut (of_model (f (to_model r))))) (read_records ())
  | _ :: (("parse+s" | "expr+s" | "stmt+s" | "stmts2+s" | "stmts3+s") as m) :: _ ->
    let cut s =
      let n = String.length s in
      let rec find i = if i + 2 >= n then None
        else if s.[i] = ' ' && s.[i+1] = '|' && s.[i+2] = ' ' then Some i else find (i + 1) in
      if n >= 2 && String.sub s 0 2 = "OK" then
        (match find 0 with Some i -> String.sub s 0 i | None -> s) else s in
    let rec nat_of_int i = if i = 0 then O else S (nat_of_int (i - 1)) in
    let f = match m with
      | "parse+s" -> run_state_file | "expr+s" -> run_state_expr | "stmt+s" -> run_state_stmt
      | "stmts2+s" -> run_state_stmts (nat_of_int 2) | _ -> run_state_stmts (nat_of_int 3) in
    List.iter (fun r ->
        let (line, st) = f (to_model r) in
        let line = of_model line in
        let line = if m = "parse+s" then line else cut line in
        print_endline (line ^ of_model st)) (read_records ())
  | _ :: (("site" | "site-expr" | "site-stmt") as m) :: _ ->
    let f = match m with "site" -> run_site_file | "site-expr" -> run_site_expr | _ -> run_site_stmt in
    List.iter (fun r -> print_endline (of_model (f (to_model r)))) (read_records ())
  | _ :: "lit" :: kind :: _ ->
    (* one literal candidate per record: the model's token line, a TAB, and the spec oracle's verdict
       (0 = not a literal of that kind, otherwise the kind tag) *)
    let oracle = match kind with
      | "rune" -> oracle_rune | "string" -> oracle_string | "num" -> oracle_num
      | _ -> failwith "lit <rune|string|num>" in
    List.iter (fun r ->
        let m = to_model r in
        Printf.printf "%s\t%d\n" (of_model (run_tokens m)) (int_of_n (oracle m))) (read_records ())
  | _ :: "enum" :: args -> run_enum args
  | _ -> prerr_endline "usage: gm <tokens|enum ...>"; exit 2
