(* The binary parametricity translation of the polymorphic parser core (Paramcoq).
   Only the generated relations live here (slow: ~18 min, ~14 GB); the lemmas that
   use them are in Param.v so that they can be edited without re-running this. *)
From Param Require Import Param.
From Coq Require Import List NArith Bool Arith Lia.
From GoSyn Require Import Token Tok Ast Core.
Import ListNotations.

Time Parametricity Recursive bool.
Time Parametricity Recursive nat.
Time Parametricity Recursive list.
Time Parametricity Recursive option.
Time Parametricity Recursive positive.
Time Parametricity Recursive N.
Time Parametricity Translation Pos.eqb as Pos_eqb_R.
Time Parametricity Translation N.eqb as N_eqb_R.
Time Parametricity Translation Nat.eqb as Nat_eqb_R.
Time Parametricity Translation Bool.eqb as Bool_eqb_R.
Time Parametricity Translation Nat.leb as Nat_leb_R.
Time Parametricity Translation Nat.ltb as Nat_ltb_R.
Time Parametricity Recursive token.
Time Parametricity Recursive node.
Time Parametricity Recursive parse_file.
Time Parametricity Recursive entry_expression.
Time Parametricity Recursive entry_stmt.
Time Parametricity Recursive parsers_at.
Time Parametricity Recursive init_state.

