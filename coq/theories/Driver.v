(* Entry points of the extracted model (what extract/main.ml calls). *)
From Coq Require Import List NArith Bool.
From GoSyn Require Import Token Tok Regex Scanner Render Entry.
From GoSyn.spec Require Import NumLit StrLit.
From GoSynGen Require Import GenClasses.
Import ListNotations.
Open Scope N_scope.

Definition run_tokens (src : str) : str := render_scan repo_uclass src.

(* 0 = not a numeric literal; otherwise the tag character of its kind *)
Definition oracle_num (s : str) : N :=
  match numlit_kind s with
  | Some k => lk_tag k
  | None => 0
  end.

Definition oracle_rune (s : str) : N := if runelit_b s then 82 else 0.
Definition oracle_string (s : str) : N := if stringlit_b s then 83 else 0.
Definition esc_str (s : str) : str := esc s.

Definition run_parse_file (src : str) : str := run_parse repo_uclass EFile src.
Definition run_parse_expr (src : str) : str := run_parse repo_uclass EExpr src.
Definition run_parse_stmt (src : str) : str := run_parse repo_uclass EStmt src.
Definition run_parse_stmts (n : nat) (src : str) : str := run_parse repo_uclass (EStmts n) src.

Definition run_state_file (src : str) : str * str := run_parse_state repo_uclass EFile src.
Definition run_state_expr (src : str) : str * str := run_parse_state repo_uclass EExpr src.
Definition run_state_stmt (src : str) : str * str := run_parse_state repo_uclass EStmt src.
Definition run_state_stmts (n : nat) (src : str) : str * str := run_parse_state repo_uclass (EStmts n) src.

Definition run_site_file (src : str) : str := run_site repo_uclass EFile src.
Definition run_site_expr (src : str) : str := run_site repo_uclass EExpr src.
Definition run_site_stmt (src : str) : str := run_site repo_uclass EStmt src.
