(* The concrete comment policy of the crate (Parser::next's comment loop,
   drain_comments, line_end_comment) as the [ops] instance of the core, and the
   grouping of the raw token stream into (token, comments in front of it). *)
From Coq Require Import List NArith Bool.
From GoSyn Require Import Token Tok Scanner Ast Core.
Import ListNotations.
Open Scope N_scope.

Definition comment : Type := (N * str)%type.      (* ast::Comment { pos, text } *)

Record cstate : Type := {
  c_all : list comment;     (* Parser.comments, newest first *)
  c_lead : list comment;    (* Parser.lead_comments, newest first *)
  c_prev : option N         (* end of the trailing comment line_end_comment just took: where
                               the Parser::next that follows starts from *)
}.

Definition scan_err : Type := (N * N)%type.       (* (line, column) of a scanner error *)

Section Policy.
Variable lines : list N.      (* the line table, ascending *)

Definition line_of (p : N) : N := fst (line_info lines p).

(* Parser.comments.push guarded by `last.pos < pos`: a comment scanned again
   after a rollback is already recorded (newest first) *)
Definition record_comment (c : comment) (all : list comment) : list comment :=
  match all with
  | [] => [c]
  | (lastpos, _) :: _ => if lastpos <? fst c then c :: all else all
  end.

(* comments that start on the line of the token left behind trail that token: they are
   recorded but are not lead comments (pos - column > prev_end: the comment's line starts
   after the previous token ends) *)
Fixpoint comment_loop (prev : option N) (line : N) (d : cstate) (g : list comment) : cstate :=
  match g with
  | [] => d
  | (pos, text) :: g' =>
      let '(cline, col) := line_info lines pos in
      let lead := if line + 1 <? cline then [] else c_lead d in
      let ended := pos + lenN text in
      let lead' := match prev with
                   | Some e => if e <? pos - col then (pos, text) :: lead else lead
                   | None => (pos, text) :: lead
                   end in
      comment_loop prev (line_of ended)
        {| c_all := record_comment (pos, text) (c_all d); c_lead := lead'; c_prev := None |} g'
  end.

Definition p_next (d : cstate) (prev0 : option N) (g : list comment) (tokpos : option N) : cstate :=
  let prev := match c_prev d with Some e => Some e | None => prev0 end in
  (* lead comments of the token left behind are dropped first *)
  let d1 := comment_loop prev 0 {| c_all := c_all d; c_lead := []; c_prev := None |} g in
  match c_lead d1, tokpos with
  | (cpos, ctext) :: _, Some pos =>
      let end_line := line_of (cpos + lenN ctext) in
      if end_line + 1 <? line_of pos
      then {| c_all := c_all d1; c_lead := []; c_prev := None |} else d1
  | _, _ => d1
  end.

Definition p_drain (d : cstate) : list comment * cstate :=
  (rev (c_lead d), {| c_all := c_all d; c_lead := []; c_prev := c_prev d |}).

Definition p_line_end (d : cstate) (semi : N) (g : list comment) (next_start : option N)
           (c : list comment) : list comment * list comment * cstate :=
  let cleared := {| c_all := c_all d; c_lead := []; c_prev := None |} in
  match g with
  | [] => (c, g, match next_start with Some _ => cleared | None => d end)
  | (pos, text) :: g' =>
      if line_of semi =? line_of pos
      then (c ++ [(pos, text)], g',
            {| c_all := record_comment (pos, text) (c_all d); c_lead := [];
               c_prev := Some (pos + lenN text) |})
      else (c, g, cleared)
  end.

Definition policy_ops : ops N (list comment) cstate (list comment) :=
  {| d_next := p_next;
     d_goback := fun d => d;
     d_drain := p_drain;
     d_line_end := p_line_end;
     c_empty := [];
     a_plus2 := fun p => p + 2 |}.

End Policy.

(* group the raw stream: comments are attached to the next non-comment token *)
Fixpoint group_stream (ts : list (N * token * N)) (g : list comment)
  : list (selem N (list comment)) * list comment :=
  match ts with
  | [] => ([], rev g)
  | (p, TComment text, _) :: r => group_stream r ((p, text) :: g)
  | (p, t, p1) :: r =>
      let '(es, tail) := group_stream r [] in
      (SE p p1 t (rev g) :: es, tail)
  end.
