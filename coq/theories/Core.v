(* The parser of src/parser.rs, POLYMORPHIC in
     A  positions            G  comment group in front of a token
     D  comment state        C  documentation value
     E  scanner error
   and written against abstract operations only ([ops]).  The core can neither
   inspect a position nor a comment: layout independence (C13), position shift
   (C15) and the comment-state invariants (C11/C12) are consequences of this
   typing (Paramcoq).  Recursion between productions is open ([parsers],
   [step]) and closed by depth fuel ([parsers_at]); loops run on token fuel.
   Every partial operation of the Rust code is an explicit [Panic] outcome. *)
From Coq Require Import List Bool Arith NArith.
From GoSyn Require Import Token Tok Ast.
Import ListNotations.
Close Scope N_scope.
Open Scope nat_scope.

(* kinds a token can be tested against (token::TokenKind without Comment) *)
Inductive tkind : Set :=
| KKw (k : keyword)
| KLit (k : litkind)
| KOp (o : operator).

Definition tok_is (t : token) (k : tkind) : bool :=
  match t, k with
  | TKeyword a, KKw b => kw_eqb a b
  | TOperator a, KOp b => op_eqb a b
  | TLiteral a _, KLit b => lk_eqb a b
  | _, _ => false
  end.

(* Operator::precedence as nat (Prec.v proves prec_nat o = N.to_nat (spec_prec o)) *)
Definition prec_nat (o : operator) : nat :=
  match o with
  | OOrOr => 1
  | OAndAnd => 2
  | OEqual | ONotEqual | OLess | OGreater | OLessEqual | OGreaterEqual => 3
  | OAdd | OSub | OOr | OXor => 4
  | OStar | OQuo | ORem | OShl | OShr | OAnd | OAndNot => 5
  | _ => 0
  end.

Definition MAX_DEPTH : nat := 64.

(* dispatch tables of parse_stmt and unray_expression, kept outside the
   polymorphic section so that the big pattern matches are over plain data *)
Inductive stmt_class : Set :=
| SCSimple | SCVar | SCType | SCConst | SCBlock | SCGo | SCDefer | SCReturn | SCIf | SCSwitch
| SCSelect | SCFor | SCSemi | SCBraceRight | SCBranch (k : keyword) | SCOther.

Definition classify_stmt (tok : token) : stmt_class :=
  match tok with
  | TLiteral _ _ => SCSimple
  | TKeyword KFunc | TKeyword KStruct | TKeyword KMap | TKeyword KChan
  | TKeyword KInterface => SCSimple
  | TOperator OAdd | TOperator OSub | TOperator OStar | TOperator OXor | TOperator OAnd
  | TOperator OArrow | TOperator ONot | TOperator OParenLeft | TOperator OBarackLeft => SCSimple
  | TKeyword KVar => SCVar
  | TKeyword KType => SCType
  | TKeyword KConst => SCConst
  | TOperator OBraceLeft => SCBlock
  | TKeyword KGo => SCGo
  | TKeyword KDefer => SCDefer
  | TKeyword KReturn => SCReturn
  | TKeyword KIf => SCIf
  | TKeyword KSwitch => SCSwitch
  | TKeyword KSelect => SCSelect
  | TKeyword KFor => SCFor
  | TOperator OSemiColon => SCSemi
  | TOperator OBraceRight => SCBraceRight
  | TKeyword KBreak => SCBranch KBreak
  | TKeyword KFallThrough => SCBranch KFallThrough
  | TKeyword KContinue => SCBranch KContinue
  | TKeyword KGoto => SCBranch KGoto
  | _ => SCOther
  end.

Inductive unary_class : Set := UCPlain | UCAnd | UCArrow | UCNone.
Definition classify_unary (o : operator) : unary_class :=
  match o with
  | OStar | OAdd | OSub | ONot | OXor | OTiled => UCPlain
  | OAnd => UCAnd
  | OArrow => UCArrow
  | _ => UCNone
  end.

Section Core.
Variables (A G D C E : Type).

Record ops : Type := {
  (* comment loop of Parser::next: state, end of the token left behind (None before the
     first token), comments in front of the token moved onto, its start (None at EOF) *)
  d_next : D -> option A -> G -> option A -> D;
  d_goback : D -> D;                     (* Parser::goback's effect on the comment state *)
  d_drain : D -> C * D;                  (* drain_comments *)
  (* line_end_comment: the field's docs come back with the trailing comment pushed, if any *)
  d_line_end : D -> A -> G -> option A -> C -> C * G * D;
  c_empty : C;
  a_plus2 : A -> A                       (* pos + 2 in parse_go_stmt / parse_defer_stmt *)
}.
Variable OPS : ops.

Notation nodeT := (node A C).

(* one element of the pre-scanned stream: start, scanner position after it, token,
   comments in front of it *)
Inductive selem : Type := SE (a0 a1 : A) (t : token) (g : G).
Inductive sterm : Type :=
| TEof (a : A) (g : G)
| TErr (e : E) (g : G).

Inductive perr : Type :=
| PUnexpected (pos : A) (actual : option token) (site : nat)
| PElse (pos : A) (site : nat)
| PScan (e : E).

Record pstate : Type := {
  s_cur : option (A * token);     (* Parser.current *)
  s_rest : list selem;            (* not yet scanned *)
  s_mark : list selem;            (* Parser.prev_pos: the stream from the current token on *)
  s_term : sterm;
  s_spos : A;                     (* Scanner.pos as a position *)
  s_lp : nat; s_ln : nat;         (* expr_level = s_lp - s_ln - 1 *)
  s_d : D;
  s_started : bool;
  s_depth : nat                   (* Parser.depth *)
}.

Inductive res (X : Type) : Type :=
| Ok (x : X) (s : pstate)
| Err (e : perr) (s : pstate)
| Panic (site : nat)
| Fuel.
Arguments Ok {X}. Arguments Err {X}. Arguments Panic {X}. Arguments Fuel {X}.

Definition bind {X Y} (m : res X) (k : X -> pstate -> res Y) : res Y :=
  match m with
  | Ok x s => k x s
  | Err e s => Err e s
  | Panic n => Panic n
  | Fuel => Fuel
  end.

Notation "'let*' ( x , s ) ':=' m 'in' k" := (bind m (fun x s => k))
  (at level 200, x name, s name, m at level 100, k at level 200).

Definition upd_cur (s : pstate) (c : option (A * token)) : pstate :=
  {| s_cur := c; s_rest := s_rest s; s_mark := s_mark s; s_term := s_term s; s_spos := s_spos s;
     s_lp := s_lp s; s_ln := s_ln s; s_d := s_d s; s_started := s_started s; s_depth := s_depth s |}.
Definition upd_d (s : pstate) (d : D) : pstate :=
  {| s_cur := s_cur s; s_rest := s_rest s; s_mark := s_mark s; s_term := s_term s; s_spos := s_spos s;
     s_lp := s_lp s; s_ln := s_ln s; s_d := d; s_started := s_started s; s_depth := s_depth s |}.
Definition upd_depth (s : pstate) (n : nat) : pstate :=
  {| s_cur := s_cur s; s_rest := s_rest s; s_mark := s_mark s; s_term := s_term s; s_spos := s_spos s;
     s_lp := s_lp s; s_ln := s_ln s; s_d := s_d s; s_started := s_started s; s_depth := n |}.
Definition upd_level (s : pstate) (lp ln : nat) : pstate :=
  {| s_cur := s_cur s; s_rest := s_rest s; s_mark := s_mark s; s_term := s_term s; s_spos := s_spos s;
     s_lp := lp; s_ln := ln; s_d := s_d s; s_started := s_started s; s_depth := s_depth s |}.

(* ------------------------------------------------------------ errors *)

(* Parser::unexpected(expect, actual) *)
Definition unexpected (s : pstate) (actual : option (A * token)) (site : nat) : perr :=
  match actual with
  | Some (p, t) => PUnexpected p (Some t) site
  | None => PUnexpected (s_spos s) None site
  end.
(* Parser::else_error: at the scanner position *)
Definition else_error (s : pstate) (site : nat) : perr := PElse (s_spos s) site.
Definition else_error_at (p : A) (site : nat) : perr := PElse p site.

(* ------------------------------------------------------------ level *)

Definition inc_level (s : pstate) (site : nat) : res unit :=
  let s' := upd_level s (S (s_lp s)) (s_ln s) in
  (* expr_level >= MAX_DEPTH  <->  lp - ln - 1 >= 64 *)
  if (s_ln s' + S MAX_DEPTH <=? s_lp s')%nat then Err (else_error s' site) s' else Ok tt s'.
Definition dec_level (s : pstate) : pstate := upd_level s (s_lp s) (S (s_ln s)).
(* expr_level >= 0 *)
Definition level_nonneg (s : pstate) : bool := (S (s_ln s) <=? s_lp s)%nat.
(* expr_level = -1 *)
Definition reset_level (s : pstate) : pstate := upd_level s 0 0.

(* Parser::nested: the recursion hubs count how many of them are open *)
Definition MAX_NESTING : nat := 192.
Definition nested {X} (site : nat) (f : pstate -> res X) (s : pstate) : res X :=
  let s1 := upd_depth s (S (s_depth s)) in
  match (if (S MAX_NESTING <=? s_depth s1)%nat then Err (else_error s1 site) s1 else f s1) with
  | Ok x s2 => Ok x (upd_depth s2 (pred (s_depth s2)))
  | Err e s2 => Err e (upd_depth s2 (pred (s_depth s2)))
  | Panic n => Panic n
  | Fuel => Fuel
  end.

(* ------------------------------------------------------------ token movement *)

(* `self.is_started.then(|| self.scan.position())` *)
Definition prev_end (s : pstate) : option A := if s_started s then Some (s_spos s) else None.

(* Parser::next: scan the next non-comment token; comments go through d_next *)
Definition next (s : pstate) : res unit :=
  match s_rest s with
  | SE a0 a1 t g :: r =>
      Ok tt {| s_cur := Some (a0, t); s_rest := r; s_mark := s_rest s; s_term := s_term s;
               s_spos := a1; s_lp := s_lp s; s_ln := s_ln s;
               s_d := d_next OPS (s_d s) (prev_end s) g (Some a0); s_started := true; s_depth := s_depth s |}
  | [] =>
      match s_term s with
      | TEof a g =>
          Ok tt {| s_cur := None; s_rest := []; s_mark := []; s_term := s_term s;
                   s_spos := a; s_lp := s_lp s; s_ln := s_ln s;
                   s_d := d_next OPS (s_d s) (prev_end s) g None; s_started := true; s_depth := s_depth s |}
      | TErr e g =>
          Err (PScan e)
              {| s_cur := s_cur s; s_rest := []; s_mark := []; s_term := s_term s;
                 s_spos := s_spos s; s_lp := s_lp s; s_ln := s_ln s;
                 s_d := s_d s; s_started := true; s_depth := s_depth s |}
      end
  end.

(* Parser::preback / goback: re-scan from the mark, bare (no comment processing) *)
Definition preback (s : pstate) : list selem := s_mark s.
Definition goback (m : list selem) (s : pstate) : res unit :=
  match m with
  | SE a0 a1 t g :: r =>
      Ok tt {| s_cur := Some (a0, t); s_rest := r; s_mark := m; s_term := s_term s;
               s_spos := a1; s_lp := s_lp s; s_ln := s_ln s;
               s_d := d_goback OPS (s_d s); s_started := s_started s; s_depth := s_depth s |}
  | [] =>
      match s_term s with
      | TEof a _ =>
          Ok tt {| s_cur := None; s_rest := []; s_mark := []; s_term := s_term s;
                   s_spos := a; s_lp := s_lp s; s_ln := s_ln s;
                   s_d := d_goback OPS (s_d s); s_started := s_started s; s_depth := s_depth s |}
      | TErr _ _ => Panic 155      (* self.scan_next().unwrap() *)
      end
  end.

Definition cur_is (s : pstate) (k : tkind) : bool :=
  match s_cur s with
  | Some (_, t) => tok_is t k
  | None => false
  end.
Definition cur_not (s : pstate) (k : tkind) : bool := negb (cur_is s k).

Definition cur_pos (s : pstate) : A :=
  match s_cur s with
  | Some (p, _) => p
  | None => s_spos s
  end.

(* current_kind()?: error at EOF *)
Definition cur_tok (s : pstate) (site : nat) : res token :=
  match s_cur s with
  | Some (_, t) => Ok t s
  | None => Err (else_error s site) s
  end.

(* Parser::expect: takes current; on mismatch current stays None *)
Definition expect (k : tkind) (site : nat) (s : pstate) : res A :=
  let s0 := upd_cur s None in
  match s_cur s with
  | Some (p, t) =>
      if tok_is t k then let* (_, s1) := next s0 in Ok p s1
      else Err (unexpected s0 (s_cur s) site) s0
  | None => Err (unexpected s0 None site) s0
  end.

Definition skipped (k : tkind) (s : pstate) : res bool :=
  if cur_is s k then let* (_, s1) := next s in Ok true s1 else Ok false s.

Definition drain (s : pstate) : C * pstate :=
  let '(c, d) := d_drain OPS (s_d s) in (c, upd_d s d).

(* Parser::line_end_comment.  When the trailing comment is taken, the Parser::next that
   follows starts from the end of that comment: the policy remembers that in its own state
   (the core never sees it).  When the token after ';' is the end of input the
   Rust code leaves ';' current and the caller's skipped(';') moves on; here the
   move happens at once (same resulting state, see DESIGN 3.4). *)
Definition line_end_comment (c : C) (s : pstate) : res C :=
  if negb (cur_is s (KOp OSemiColon)) then Ok c s
  else
    let semi := cur_pos s in
    match s_rest s with
    | SE a0 a1 t g :: r =>
        let '(c', g', d') := d_line_end OPS (s_d s) semi g (Some a0) c in
        Ok c' {| s_cur := Some (a0, t); s_rest := r; s_mark := s_rest s; s_term := s_term s;
                 s_spos := a1; s_lp := s_lp s; s_ln := s_ln s;
                 s_d := d_next OPS d' (prev_end s) g' (Some a0); s_started := true; s_depth := s_depth s |}
    | [] =>
        match s_term s with
        | TEof a g =>
            let '(c', g', d') := d_line_end OPS (s_d s) semi g None c in
            Ok c' {| s_cur := None; s_rest := []; s_mark := []; s_term := s_term s;
                     s_spos := a; s_lp := s_lp s; s_ln := s_ln s;
                     s_d := d_next OPS d' (prev_end s) g' None; s_started := true; s_depth := s_depth s |}
        | TErr e g =>
            Err (PScan e)
                {| s_cur := s_cur s; s_rest := []; s_mark := []; s_term := s_term s;
                   s_spos := s_spos s; s_lp := s_lp s; s_ln := s_ln s;
                   s_d := s_d s; s_started := true; s_depth := s_depth s |}
        end
    end.

(* ------------------------------------------------------------ node constructors *)
(* (tag: positions; attributes; children in source order) *)

Definition mk (t : tag) (ps : list A) (ats : list attr) (ks : list nodeT) : nodeT :=
  Nd t ps ats [] ks.
Definition mkd (t : tag) (ps : list A) (ats : list attr) (d : C) (ks : list nodeT) : nodeT :=
  Nd t ps ats [d] ks.

Definition n_ident (p : A) (name : str) : nodeT := mk GIdent [p] [AStr name] [].
Definition n_basic (p : A) (k : litkind) (v : str) : nodeT := mk GBasicLit [p] [ALk k; AStr v] [].
Definition n_strlit (p : A) (v : str) : nodeT := mk GStringLit [p] [AStr v] [].
(* Field { name, typ, tag, comments } *)
Definition n_field (names : list nodeT) (typ : nodeT) (tg : option nodeT) (c : C) : nodeT :=
  mkd GField [] [] c [nlist names; typ; nopt tg].
(* From<Expression> for Field / From<Ident> for Field *)
Definition field_of (typ : nodeT) : nodeT := n_field [] typ None (c_empty OPS).
(* FieldList { pos, list } *)
Definition n_fieldlist (pos : option (A * A)) (l : list nodeT) : nodeT :=
  mk GFieldList (match pos with Some (a, b) => [a; b] | None => [] end) [] l.
Definition n_operation (p : A) (o : operator) (x : nodeT) (y : option nodeT) : nodeT :=
  mk GOperation [p] [AOp o] [x; nopt y].
Definition n_functype (p : option A) (tp params result : nodeT) : nodeT :=
  mk GFuncType (match p with Some a => [a] | None => [] end) [] [tp; params; result].

Definition ident_name (n : nodeT) : str :=
  match n_ats n with
  | AStr s :: _ => s
  | _ => []
  end.

(* Expression::pos(); None = unimplemented!() on List *)
Fixpoint expr_pos (n : nodeT) : option A :=
  match n with
  | Nd t ps _ _ ks =>
      match t with
      | GSelector | GTypeAssert | GCompositeLit | GIndexList | GOperation =>
          (* x.x.pos() / left.pos() / typ.pos(): the first child *)
          match ks with
          | k :: _ => expr_pos k
          | [] => None
          end
      | GFuncLit =>
          match ks with
          | Nd _ (p :: _) _ _ _ :: _ => Some p    (* typ.pos *)
          | _ => None
          end
      | GList => None
      | _ => match ps with p :: _ => Some p | [] => None end
      end
  end.

(* FieldList::pos(); None = panic!("call pos on empty FieldList") or List *)
Definition fieldlist_pos (fl : nodeT) : option A :=
  match n_ps fl with
  | p :: _ => Some p
  | [] =>
      match n_kids fl with
      | f :: _ =>
          match n_kids (kid f 0) with
          | nm :: _ => match n_ps nm with p :: _ => Some p | [] => None end
          | [] => expr_pos (kid f 1)
          end
      | [] => None
      end
  end.

(* ------------------------------------------------------------ leaf parsers *)

Definition identifier (site : nat) (s : pstate) : res nodeT :=
  let s0 := upd_cur s None in
  match s_cur s with
  | Some (p, TLiteral LIdent name) => let* (_, s1) := next s0 in Ok (n_ident p name) s1
  | c => Err (unexpected s0 c site) s0
  end.

Fixpoint identifier_list_loop (fuel : nat) (acc : list nodeT) (s : pstate) : res (list nodeT) :=
  match fuel with
  | O => Fuel
  | S f =>
      let* (b, s1) := skipped (KOp OComma) s in
      if b then let* (id, s2) := identifier 2 s1 in identifier_list_loop f (acc ++ [id]) s2
      else Ok acc s1
  end.

Definition loop_fuel (s : pstate) : nat := S (S (length (s_rest s))).

Definition identifier_list (first : option nodeT) (s : pstate) : res (list nodeT) :=
  match first with
  | Some id => identifier_list_loop (loop_fuel s) [id] s
  | None => let* (id, s1) := identifier 1 s in identifier_list_loop (loop_fuel s1) [id] s1
  end.

Definition string_literal_or_none (s : pstate) : res (option nodeT) :=
  match s_cur s with
  | Some (p, TLiteral LString v) =>
      let* (_, s1) := next (upd_cur s None) in Ok (Some (n_strlit p v)) s1
  | _ => Ok None s
  end.

Definition string_literal (site : nat) (s : pstate) : res nodeT :=
  let s0 := upd_cur s None in
  match s_cur s with
  | Some (p, TLiteral LString v) => let* (_, s1) := next s0 in Ok (n_strlit p v) s1
  | c => Err (unexpected s0 c site) s0
  end.

Definition literal (s : pstate) : res nodeT :=
  let s0 := upd_cur s None in
  match s_cur s with
  | Some (p, TLiteral k v) => let* (_, s1) := next s0 in Ok (n_basic p k v) s1
  | _ => Err (else_error s0 3) s0
  end.

(* check_field_list(fields, trailing) *)
Definition is_ellipsis_field (f : nodeT) : bool := is_tag GEllipsis (kid f 1).
Definition field_named (f : nodeT) : bool := negb (Nat.eqb (length (n_kids (kid f 0))) 0).
Fixpoint check_fields (named trailing : bool) (l : list nodeT) : option nat :=
  match l with
  | [] => None
  | f :: r =>
      if Bool.eqb (negb (field_named f)) named then Some 4
      else if is_ellipsis_field f && (negb (Nat.eqb (length r) 0) || negb trailing) then Some 5
      else check_fields named trailing r
  end.
Definition check_field_list (fl : nodeT) (trailing : bool) (s : pstate) : res nodeT :=
  match n_kids fl with
  | [] => Ok fl s
  | first :: _ =>
      (* `fields.pos()` is evaluated before the loop *)
      match fieldlist_pos fl with
      | None => Panic 621
      | Some p =>
          match check_fields (field_named first) trailing (n_kids fl) with
          | None => Ok fl s
          | Some site => Err (else_error_at p site) s
          end
      end
  end.

(* ------------------------------------------------------------ open recursion *)

Record parsers : Type := {
  k_type : pstate -> res nodeT;                       (* type_ *)
  k_type_or_none : pstate -> res (option nodeT);      (* type_or_none *)
  k_expr : pstate -> res nodeT;                       (* binary_expression(None, 0) *)
  k_unary : pstate -> res nodeT;                      (* unray_expression *)
  k_binary : option nodeT -> nat -> pstate -> res nodeT;
  k_litvalue : pstate -> res nodeT;                   (* parse_lit_value *)
  k_block : pstate -> res nodeT;                      (* parse_block_stmt *)
  k_stmt : pstate -> res nodeT;                       (* parse_stmt *)
  k_if : pstate -> res nodeT                          (* parse_if_stmt *)
}.

Section Step.
Variable self : parsers.

(* let expr = self.expression(); self.dec_expr_level(); expr *)
Definition parse_next_level_expr (s : pstate) : res nodeT :=
  let* (_, s1) := inc_level s 10 in
  match k_expr self s1 with
  | Ok e s2 => Ok e (dec_level s2)
  | Err e s2 => Err e (dec_level s2)
  | Panic n => Panic n
  | Fuel => Fuel
  end.

Fixpoint comma_list_loop (fuel : nat) (item : pstate -> res nodeT) (acc : list nodeT)
         (s : pstate) : res (list nodeT) :=
  match fuel with
  | O => Fuel
  | S f =>
      let* (b, s1) := skipped (KOp OComma) s in
      if b then let* (x, s2) := item s1 in comma_list_loop f item (acc ++ [x]) s2
      else Ok acc s1
  end.

Definition expression_list (s : pstate) : res (list nodeT) :=
  let* (x, s1) := k_expr self s in comma_list_loop (loop_fuel s1) (k_expr self) [x] s1.

Definition parse_type_list (s : pstate) : res (list nodeT) :=
  let* (x, s1) := k_type self s in comma_list_loop (loop_fuel s1) (k_type self) [x] s1.

(* the `while skipped(Comma) { match type_or_none { Some => push, None => break } }` loop *)
Fixpoint type_list_loop (fuel : nat) (acc : list nodeT) (s : pstate) : res (list nodeT) :=
  match fuel with
  | O => Fuel
  | S f =>
      let* (b, s1) := skipped (KOp OComma) s in
      if b then
        let* (o, s2) := k_type_or_none self s1 in
        match o with
        | Some t => type_list_loop f (acc ++ [t]) s2
        | None => Ok acc s2
        end
      else Ok acc s1
  end.

Definition type_list (strict : bool) (s : pstate) : res (nodeT * bool) :=
  let* (_, s1) := inc_level s 13 in
  let* (expr, s2) := (if strict then k_type self s1 else k_expr self s1) in
  let* (comma, s3) := skipped (KOp OComma) s2 in
  if comma then
    let* (o, s4) := k_type_or_none self s3 in
    match o with
    | Some typ =>
        let* (l, s5) := type_list_loop (loop_fuel s4) [expr; typ] s4 in
        Ok (nlist l, true) (dec_level s5)
    | None => Ok (expr, comma) (dec_level s4)
    end
  else Ok (expr, comma) (dec_level s3).

Definition type_instance (left : nodeT) (s : pstate) : res nodeT :=
  let* (p0, s1) := expect (KOp OBarackLeft) 14 s in
  if cur_is s1 (KOp OBarackRight) then Err (else_error s1 15) s1 else
  let* (ib, s2) := type_list true s1 in
  let* (p1, s3) := expect (KOp OBarackRight) 16 s2 in
  Ok (mk GIndex [p0; p1] [] [left; fst ib]) s3.

Definition qualified_ident (name : option nodeT) (s : pstate) : res nodeT :=
  let* (nm, s1) := (match name with Some n => Ok n s | None => identifier 17 s end) in
  let pos := cur_pos s1 in
  let* (dot, s2) := skipped (KOp ODot) s1 in
  let* (x, s3) := (if dot then
                     let* (sel, s3) := identifier 18 s2 in Ok (mk GSelector [pos] [] [nm; sel]) s3
                   else Ok nm s2) in
  if cur_is s3 (KOp OBarackLeft) then type_instance x s3 else Ok x s3.

Definition parse_type_term (s : pstate) : res nodeT :=
  let pos := cur_pos s in
  let* (under, s1) := skipped (KOp OTiled) s in
  let* (typ, s2) := k_type self s1 in
  Ok (if under then n_operation pos OTiled typ None else typ) s2.

Fixpoint type_elem_loop (fuel : nat) (typ : nodeT) (s : pstate) : res nodeT :=
  match fuel with
  | O => Fuel
  | S f =>
      if cur_is s (KOp OOr) then
        let pos := cur_pos s in
        let* (_, s1) := next s in
        let* (y, s2) := parse_type_term s1 in
        type_elem_loop f (n_operation pos OOr typ (Some y)) s2
      else Ok typ s
  end.

Definition parse_type_elem (s : pstate) : res nodeT :=
  let* (t, s1) := parse_type_term s in type_elem_loop (loop_fuel s1) t s1.

Definition array_len (s : pstate) : res nodeT :=
  let pos := cur_pos s in
  let* (b, s1) := skipped (KOp ODotDotDot) s in
  if b then Ok (mk GEllipsis [pos] [] [nnone]) s1 else parse_next_level_expr s1.

Definition array_or_typeargs (s : pstate) : res nodeT :=
  let* (p0, s1) := expect (KOp OBarackLeft) 19 s in
  if cur_is s1 (KOp OBarackRight) then
    let* (p1, s2) := expect (KOp OBarackRight) 20 s1 in
    let* (typ, s3) := k_type self s2 in
    Ok (mk GTypeSlice [p0; p1] [] [typ]) s3
  else
    let* (ec, s2) := type_list false s1 in
    let '(expr, comma) := ec in
    let* (p1, s3) := expect (KOp OBarackRight) 21 s2 in
    let idx := mk GIndex [p0; p1] [] [nlist []; expr] in
    if comma then Ok idx s3
    else
      let* (o, s4) := k_type_or_none self s3 in
      match o with
      | Some typ => Ok (mk GTypeArray [p0; p1] [] [expr; typ]) s4
      | None => Ok idx s4
      end.

(* ---------------------------------------------------------- parameters *)

Definition ellipsis_type (s : pstate) : res nodeT :=
  let* (pos, s1) := expect (KOp ODotDotDot) 22 s in
  let* (elt, s2) := k_type self s1 in
  Ok (mk GEllipsis [pos] [] [elt]) s2.

Definition pop_last {X} (l : list X) : option (list X * X) :=
  match rev l with
  | x :: r => Some (rev r, x)
  | [] => None
  end.

Fixpoint param_decl_loop (fuel : nat) (ewc : bool) (ids : list nodeT) (s : pstate)
  : res (list nodeT) :=
  match fuel with
  | O => Fuel
  | S f =>
      let* (t, s0) := cur_tok s 23 in
      let plain := map (fun id => field_of id) ids in
      match t with
      | TOperator OParenRight => Ok plain s0
      | TOperator OBarackLeft =>
          if ewc then
            let* (typ, s1) := k_type self s0 in Ok (plain ++ [field_of typ]) s1
          else
            let* (typ, s1) := array_or_typeargs s0 in
            if is_tag GIndex typ then
              match pop_last ids with
              | Some (r, id) =>
                  Ok (map (fun i => field_of i) r ++ [field_of (set_kid typ 0 id)]) s1
              | None => Panic 1462
              end
            else Ok [n_field ids typ None (c_empty OPS)] s1
      | TOperator ODotDotDot =>
          if ewc then
            let* (typ, s1) := ellipsis_type s0 in Ok (plain ++ [field_of typ]) s1
          else if (2 <=? length ids)%nat then Err (else_error s0 24) s0
          else
            let* (typ, s1) := ellipsis_type s0 in Ok [n_field ids typ None (c_empty OPS)] s1
      | TOperator ODot =>
          if ewc then Err (else_error s0 25) s0
          else
            match pop_last ids with
            | Some (r, pkg) =>
                let* (typ, s1) := qualified_ident (Some pkg) s0 in
                Ok (map (fun i => field_of i) r ++ [field_of typ]) s1
            | None =>
                let* (typ, s1) := qualified_ident None s0 in Ok [field_of typ] s1
            end
      | TOperator OComma =>
          let* (_, s1) := next s0 in
          if cur_is s1 (KLit LIdent) then
            let* (id, s2) := identifier 26 s1 in param_decl_loop f false (ids ++ [id]) s2
          else param_decl_loop f true ids s1
      | _ =>
          if ewc then Ok plain s0
          else
            let* (typ, s1) := parse_type_elem s0 in
            Ok [n_field ids typ None (c_empty OPS)] s1
      end
  end.

Definition parse_parameter_decl (s : pstate) : res (list nodeT) :=
  if cur_is s (KOp ODotDotDot) then
    let* (typ, s1) := ellipsis_type s in Ok [field_of typ] s1
  else if cur_not s (KLit LIdent) then
    let* (typ, s1) := k_type self s in Ok [field_of typ] s1
  else
    let* (id, s1) := identifier 27 s in
    param_decl_loop (loop_fuel s1) false [id] s1.

Fixpoint params_loop (fuel : nat) (close : operator) (acc : list nodeT) (s : pstate)
  : res (list nodeT) :=
  match fuel with
  | O => Fuel
  | S f =>
      if cur_is s (KOp close) then Ok acc s
      else
        let* (fs, s1) := parse_parameter_decl s in
        let* (_, s2) := skipped (KOp OComma) s1 in
        params_loop f close (acc ++ fs) s2
  end.

Definition params_list (open close : operator) (s : pstate) : res nodeT :=
  let* (p0, s1) := expect (KOp open) 28 s in
  let* (l, s2) := params_loop (loop_fuel s1) close [] s1 in
  let* (p1, s3) := expect (KOp close) 29 s2 in
  Ok (n_fieldlist (Some (p0, p1)) l) s3.

Definition parameters (s : pstate) : res nodeT := params_list OParenLeft OParenRight s.
Definition type_parameters (s : pstate) : res nodeT := params_list OBarackLeft OBarackRight s.

Definition parse_result (s : pstate) : res nodeT :=
  if cur_is s (KOp OParenLeft) then parameters s
  else
    let* (o, s1) := k_type_or_none self s in
    Ok (n_fieldlist None (match o with Some t => [field_of t] | None => [] end)) s1.

Definition empty_fieldlist : nodeT := n_fieldlist None [].

(* the common tail of func_type / parse_method_elem / parse_func_decl *)
Definition signature (s : pstate) : res (nodeT * nodeT) :=
  let* (params, s1) := parameters s in
  let* (params, s2) := check_field_list params true s1 in
  let* (result, s3) := parse_result s2 in
  let* (result, s4) := check_field_list result false s3 in
  Ok (params, result) s4.

Definition func_type (s : pstate) : res nodeT :=
  let* (pos, s1) := expect (KKw KFunc) 30 s in
  if cur_is s1 (KOp OBarackLeft) then Err (else_error s1 31) s1 else
  let* (pr, s2) := signature s1 in
  Ok (n_functype (Some pos) empty_fieldlist (fst pr) (snd pr)) s2.

Fixpoint type_params_loop (fuel : nat) (acc : list nodeT) (s : pstate) : res (list nodeT) :=
  match fuel with
  | O => Fuel
  | S f =>
      if cur_is s (KOp OBarackRight) then Ok acc s
      else
        let* (names, s1) := identifier_list None s in
        let* (typ, s2) := parse_type_elem s1 in
        let* (_, s3) := skipped (KOp OComma) s2 in
        type_params_loop f (acc ++ [n_field names typ None (c_empty OPS)]) s3
  end.

Definition parse_type_parameters (s : pstate) : res nodeT :=
  let* (p0, s1) := expect (KOp OBarackLeft) 32 s in
  let* (l, s2) := type_params_loop (loop_fuel s1) [] s1 in
  let* (p1, s3) := expect (KOp OBarackRight) 33 s2 in
  Ok (n_fieldlist (Some (p0, p1)) l) s3.

(* ---------------------------------------------------------- struct / interface *)

Definition finish_field (c : C) (names : list nodeT) (typ : nodeT) (s : pstate) : res nodeT :=
  let* (tg, s1) := string_literal_or_none s in
  Ok (n_field names typ tg c) s1.

Definition field_decl (s0 : pstate) : res nodeT :=
  let '(c, s) := drain s0 in
  match s_cur s with
  | Some (_, TLiteral LIdent _) =>
      let* (name, s1) := identifier 34 s in
      let embedded :=
        match s_cur s1 with
        | Some (_, TOperator ODot) | Some (_, TOperator OSemiColon)
        | Some (_, TOperator OBraceRight) | Some (_, TLiteral LString _) => true
        | _ => false
        end in
      if embedded then
        let* (typ, s2) := qualified_ident (Some name) s1 in finish_field c [] typ s2
      else
        let* (names, s2) := identifier_list (Some name) s1 in
        if Nat.eqb (length names) 1 && cur_is s2 (KOp OBarackLeft) then
          let* (typ, s3) := array_or_typeargs s2 in
          if is_tag GIndex typ then
            match pop_last names with
            | Some (_, nm) => finish_field c [] (set_kid typ 0 nm) s3
            | None => Panic 806
            end
          else finish_field c names typ s3
        else
          let* (typ, s3) := k_type self s2 in finish_field c names typ s3
  | Some (_, TOperator OStar) =>
      let* (pos, s1) := expect (KOp OStar) 33 s in
      let* (typ, s2) := qualified_ident None s1 in
      finish_field c [] (mk GTypePointer [pos] [] [typ]) s2
  | _ => Err (else_error s 35) s
  end.

Fixpoint struct_loop (fuel : nat) (acc : list nodeT) (s : pstate) : res (list nodeT) :=
  match fuel with
  | O => Fuel
  | S f =>
      if cur_is s (KOp OBraceRight) then Ok acc s
      else
        let* (field, s1) := field_decl s in
        let c0 := match n_docs field with c :: _ => c | [] => c_empty OPS end in
        let* (c1, s2) := line_end_comment c0 s1 in
        let field' := set_docs field [c1] in
        let* (_, s3) := skipped (KOp OSemiColon) s2 in
        struct_loop f (acc ++ [field']) s3
  end.

Definition struct_type (s : pstate) : res nodeT :=
  let* (_, s1) := expect (KKw KStruct) 36 s in
  let* (p0, s2) := expect (KOp OBraceLeft) 37 s1 in
  let* (fs, s3) := struct_loop (loop_fuel s2) [] s2 in
  let* (p1, s4) := expect (KOp OBraceRight) 38 s3 in
  Ok (mk GTypeStruct [p0; p1] [] fs) s4.

Definition semi_unless_brace (site : nat) (s : pstate) : res unit :=
  if cur_is s (KOp OBraceRight) then Ok tt s
  else let* (_, s1) := expect (KOp OSemiColon) site s in Ok tt s1.

Definition parse_method_elem (s : pstate) : res nodeT :=
  let* (id, s1) := identifier 39 s in
  let* (pr, s2) := signature s1 in
  let* (_, s3) := semi_unless_brace 40 s2 in
  (* FuncType { pos: default, .. }: no position *)
  Ok (n_field [id] (n_functype None empty_fieldlist (fst pr) (snd pr)) None (c_empty OPS)) s3.

Fixpoint interface_loop (fuel : nat) (acc : list nodeT) (s : pstate) : res (list nodeT) :=
  match fuel with
  | O => Fuel
  | S f =>
      if cur_is s (KOp OBraceRight) then Ok acc s
      else
        let start := preback s in
        let type_elem_path (s0 : pstate) :=
          let* (_, s1) := goback start s0 in
          let* (typ, s2) := parse_type_elem s1 in
          let* (_, s3) := semi_unless_brace 41 s2 in
          interface_loop f (acc ++ [field_of typ]) s3 in
        if cur_is s (KLit LIdent) then
          (* `if let Ok(field) = self.parse_method_elem()`: the error is dropped, the
             state it left behind (level, comments) is kept *)
          match parse_method_elem s with
          | Ok field s1 => interface_loop f (acc ++ [field]) s1
          | Err _ s1 => type_elem_path s1
          | Panic n => Panic n
          | Fuel => Fuel
          end
        else type_elem_path s
  end.

Definition parse_interface_type (s : pstate) : res nodeT :=
  let* (pos, s1) := expect (KKw KInterface) 42 s in
  let* (p1, s2) := expect (KOp OBraceLeft) 43 s1 in
  let* (ms, s3) := interface_loop (loop_fuel s2) [] s2 in
  let* (p2, s4) := expect (KOp OBraceRight) 44 s3 in
  Ok (mk GTypeInterface [pos] [] [n_fieldlist (Some (p1, p2)) ms]) s4.

(* ---------------------------------------------------------- type_or_none / type_ *)

Definition is_blank (name : str) : bool := str_eqb name [95%N].

Definition type_or_none_body (s : pstate) : res (option nodeT) :=
  match s_cur s with
  | Some (_, TOperator OStar) =>
      let* (pos, s1) := expect (KOp OStar) 45 s in
      let* (typ, s2) := k_type self s1 in
      Ok (Some (mk GTypePointer [pos] [] [typ])) s2
  | Some (_, TOperator OArrow) =>
      let* (pos, s1) := expect (KOp OArrow) 46 s in
      let* (pos1, s2) := expect (KKw KChan) 47 s1 in
      let* (typ, s3) := k_type self s2 in
      Ok (Some (mk GTypeChannel [pos1; pos] [ADir 2] [typ])) s3
  | Some (_, TKeyword KFunc) =>
      let* (t, s1) := func_type s in Ok (Some t) s1
  | Some (_, TOperator OBarackLeft) =>
      let* (pos, s1) := expect (KOp OBarackLeft) 48 s in
      if cur_is s1 (KOp OBarackRight) then
        let* (p1, s2) := expect (KOp OBarackRight) 49 s1 in
        let* (typ, s3) := k_type self s2 in
        Ok (Some (mk GTypeSlice [pos; p1] [] [typ])) s3
      else
        let* (len, s2) := array_len s1 in
        let* (p1, s3) := expect (KOp OBarackRight) 50 s2 in
        let* (typ, s4) := k_type self s3 in
        Ok (Some (mk GTypeArray [pos; p1] [] [len; typ])) s4
  | Some (_, TKeyword KChan) =>
      let* (pos, s1) := expect (KKw KChan) 51 s in
      let pos1 := cur_pos s1 in
      let* (arrow, s2) := skipped (KOp OArrow) s1 in
      let* (typ, s3) := k_type self s2 in
      Ok (Some (mk GTypeChannel [pos; pos1] [ADir (if arrow then 1 else 0)] [typ])) s3
  | Some (_, TKeyword KMap) =>
      let* (_, s1) := next s in
      let* (p0, s2) := expect (KOp OBarackLeft) 52 s1 in
      let* (key, s3) := k_type self s2 in
      let* (p1, s4) := expect (KOp OBarackRight) 53 s3 in
      let* (val, s5) := k_type self s4 in
      Ok (Some (mk GTypeMap [p0; p1] [] [key; val])) s5
  | Some (_, TKeyword KStruct) =>
      let* (t, s1) := struct_type s in Ok (Some t) s1
  | Some (_, TKeyword KInterface) =>
      let* (t, s1) := parse_interface_type s in Ok (Some t) s1
  | Some (_, TLiteral LIdent name) =>
      if is_blank name then Ok None s
      else let* (t, s1) := qualified_ident None s in Ok (Some t) s1
  | Some (p0, TOperator OParenLeft) =>
      let* (_, s1) := next s in
      let* (typ, s2) := k_type self s1 in
      let* (p1, s3) := expect (KOp OParenRight) 54 s2 in
      Ok (Some (mk GParen [p0; p1] [] [typ])) s3
  | _ => Ok None s
  end.

Definition type_body (s : pstate) : res nodeT :=
  let* (_, s1) := inc_level s 11 in
  let* (o, s2) := k_type_or_none self s1 in
  match o with
  | Some t => Ok t (dec_level s2)
  | None => Err (else_error s2 12) s2
  end.

(* ---------------------------------------------------------- composite literals *)

Definition parse_element_value (s : pstate) : res nodeT :=
  if cur_is s (KOp OBraceLeft) then k_litvalue self s else k_expr self s.

Definition parse_element (s : pstate) : res nodeT :=
  let* (key, s1) := parse_element_value s in
  let* (colon, s2) := skipped (KOp OColon) s1 in
  if colon then
    let* (val, s3) := parse_element_value s2 in
    Ok (mk GKeyedElement [] [] [key; val]) s3
  else Ok (mk GKeyedElement [] [] [nnone; key]) s2.

Fixpoint lit_value_loop (fuel : nat) (acc : list nodeT) (s : pstate) : res (list nodeT) :=
  match fuel with
  | O => Fuel
  | S f =>
      if cur_is s (KOp OBraceRight) then Ok acc s
      else
        let* (e, s1) := parse_element s in
        let* (_, s2) := skipped (KOp OComma) s1 in
        lit_value_loop f (acc ++ [e]) s2
  end.

Definition lit_value_body (s : pstate) : res nodeT :=
  let* (_, s1) := inc_level s 55 in
  let* (p0, s2) := expect (KOp OBraceLeft) 56 s1 in
  let* (vs, s3) := lit_value_loop (loop_fuel s2) [] s2 in
  let s4 := dec_level s3 in
  let* (p1, s5) := expect (KOp OBraceRight) 57 s4 in
  Ok (mk GLiteralValue [p0; p1] [] vs) s5.

(* ---------------------------------------------------------- index / slice *)

Inductive sop : Set := SNone | SComma | SColon.

Fixpoint index_comma_loop (fuel : nat) (acc : list (option nodeT)) (s : pstate)
  : res (list (option nodeT)) :=
  match fuel with
  | O => Fuel
  | S f =>
      let* (b, s1) := skipped (KOp OComma) s in
      if b then
        let* (e, s2) := parse_next_level_expr s1 in index_comma_loop f (acc ++ [Some e]) s2
      else Ok acc s1
  end.

Definition parse_slice_index_or_type_inst (s : pstate) : res (sop * list (option nodeT)) :=
  let* (_, s1) := next s in
  let* (c0, s2) := skipped (KOp OColon) s1 in
  let index0 : list (option nodeT) := if c0 then [None] else [] in
  if c0 && cur_is s2 (KOp OBarackRight) then Ok (SColon, index0) s2 else
  let* (e1, s3) := parse_next_level_expr s2 in
  let index1 := index0 ++ [Some e1] in
  if cur_is s3 (KOp OBarackRight) then Ok (if c0 then SColon else SNone, index1) s3 else
  match s_cur s3 with
  | Some (_, TOperator OComma) =>
      let* (l, s4) := index_comma_loop (loop_fuel s3) index1 s3 in Ok (SComma, l) s4
  | Some (_, TOperator OColon) =>
      let* (_, s4) := next s3 in
      if cur_is s4 (KOp OBarackRight) then Ok (SColon, index1) s4 else
      let* (e2, s5) := parse_next_level_expr s4 in
      let index2 := index1 ++ [Some e2] in
      if cur_is s5 (KOp OBarackRight) then Ok (SColon, index2) s5 else
      if Nat.eqb (length index2) 3 then Err (else_error_at (cur_pos s5) 58) s5 else
      let* (_, s6) := expect (KOp OColon) 59 s5 in
      let* (e3, s7) := parse_next_level_expr s6 in
      Ok (SColon, index2 ++ [Some e3]) s7
  | c =>
      let s4 := upd_cur s3 None in Err (unexpected s4 c 60) s4
  end.

(* ---------------------------------------------------------- primary expressions *)

Definition check_brace (x : nodeT) (s : pstate) : bool :=
  match n_tag x with
  | GTypeStruct | GTypeMap | GTypeArray | GTypeSlice => true
  | GIdent | GIndexList | GSelector | GIndex => level_nonneg s
  | _ => false
  end.

(* the argument loop of a call *)
Fixpoint call_args_loop (fuel : nat) (args : list nodeT) (ewc : bool) (s : pstate)
  : res (list nodeT * bool) :=
  match fuel with
  | O => Fuel
  | S f =>
      if cur_not s (KOp OParenRight) && cur_not s (KOp ODotDotDot) then
        let* (ewc1, s1) :=
          (if Nat.eqb (length args) 0 then Ok ewc s
           else let* (_, s1) := expect (KOp OComma) 61 s in Ok true s1) in
        if cur_not s1 (KOp OParenRight) && cur_not s1 (KOp ODotDotDot) then
          let* (e, s2) := parse_next_level_expr s1 in
          call_args_loop f (args ++ [e]) false s2
        else call_args_loop f args ewc1 s1
      else Ok (args, ewc) s
  end.

Definition opt_get {X} (o : option (option X)) : option X :=
  match o with Some x => x | None => None end.

Definition primary_step (x : nodeT) (s : pstate) : res (option nodeT) :=
  (* one iteration of the loop: None = break *)
  let pos := cur_pos s in
  match s_cur s with
  | Some (_, TOperator ODot) =>
      let* (_, s1) := next s in
      match s_cur s1 with
      | Some (_, TLiteral LIdent _) =>
          let* (sel, s2) := identifier 62 s1 in
          Ok (Some (mk GSelector [pos] [] [x; sel])) s2
      | Some (_, TOperator OParenLeft) =>
          let* (_, s2) := next s1 in
          let* (is_type, s3) := skipped (KKw KType) s2 in
          let* (right, s4) :=
            (if is_type then Ok None s3
             else let* (t, s4) := k_type self s3 in Ok (Some t) s4) in
          let* (p1, s5) := expect (KOp OParenRight) 63 s4 in
          Ok (Some (mk GTypeAssert [pos; p1] [] [x; nopt right])) s5
      | _ => Err (else_error s1 64) s1
      end
  | Some (_, TOperator OBarackLeft) =>
      let* (oi, s1) := parse_slice_index_or_type_inst s in
      let '(op, index) := oi in
      let* (p1, s2) := expect (KOp OBarackRight) 65 s1 in
      match op with
      | SNone =>
          match pop_last index with
          | Some (_, Some i) => Ok (Some (mk GIndex [pos; p1] [] [x; i])) s2
          | _ => Panic 1105
          end
      | SComma =>
          Ok (Some (mk GIndexList [pos; p1] []
                       [x; nlist (flat_map (fun o => match o with Some e => [e] | None => [] end)
                                           index)])) s2
      | SColon =>
          match index with
          | [i3] => Ok (Some (mk GSlice [pos; p1] [] [x; nopt i3; nnone; nnone])) s2
          | [i2; i3] => Ok (Some (mk GSlice [pos; p1] [] [x; nopt i2; nopt i3; nnone])) s2
          | [i1; i2; i3] => Ok (Some (mk GSlice [pos; p1] [] [x; nopt i1; nopt i2; nopt i3])) s2
          | _ => Panic 1122
          end
      end
  | Some (_, TOperator OParenLeft) =>
      let* (_, s1) := next s in
      let* (ae, s2) := call_args_loop (loop_fuel s1) [] false s1 in
      let '(args, ewc) := ae in
      let current_pos := cur_pos s2 in
      let* (dd, s3) := skipped (KOp ODotDotDot) s2 in
      if dd && (ewc || Nat.eqb (length args) 0) then Err (else_error_at current_pos 66) s3 else
      let* (_, s4) := skipped (KOp OComma) s3 in
      let* (p1, s5) := expect (KOp OParenRight) 67 s4 in
      Ok (Some (mk GCall [pos; p1] [] [x; nlist args; if dd then npos current_pos else nnone])) s5
  | Some (_, TOperator OBraceLeft) =>
      if check_brace x s then
        let* (val, s1) := k_litvalue self s in
        Ok (Some (mk GCompositeLit [] [] [x; val])) s1
      else Ok None s
  | _ => Ok None s
  end.

Fixpoint primary_loop (fuel : nat) (x : nodeT) (s : pstate) : res nodeT :=
  match fuel with
  | O => Fuel
  | S f =>
      let* (o, s1) := primary_step x s in
      match o with
      | Some x' => primary_loop f x' s1
      | None => Ok x s1
      end
  end.

Definition operand (s : pstate) : res nodeT :=
  match s_cur s with
  | Some (_, TLiteral LIdent _) => identifier 68 s
  | Some (_, TLiteral _ _) => literal s
  | Some (_, TOperator OParenLeft) =>
      let pos := cur_pos s in
      let* (_, s1) := next s in
      let* (e, s2) := parse_next_level_expr s1 in
      let* (p1, s3) := expect (KOp OParenRight) 69 s2 in
      Ok (mk GParen [pos; p1] [] [e]) s3
  | Some (_, TKeyword KFunc) =>
      let* (typ, s1) := func_type s in
      if cur_is s1 (KOp OBraceLeft) then
        let* (body, s2) := k_block self s1 in Ok (mk GFuncLit [] [] [typ; body]) s2
      else Ok typ s1
  | Some (_, TOperator OBarackLeft)
  | Some (_, TKeyword KChan) | Some (_, TKeyword KMap)
  | Some (_, TKeyword KStruct) | Some (_, TKeyword KInterface) => k_type self s
  | _ => Err (else_error s 70) s
  end.

(* the loop fuel of primary_expression counts what is left when the loop starts *)
Definition primary_expression (p : option nodeT) (s : pstate) : res nodeT :=
  let* (x, s1) := (match p with Some e => Ok e s | None => operand s end) in
  primary_loop (loop_fuel s1) x s1.

Definition unparen (e : nodeT) : nodeT :=
  if is_tag GParen e then kid e 0 else e.

Definition chan_dir (n : nodeT) : nat :=
  match n_ats n with ADir d :: _ => d | _ => 0 end.

(* reset_chan_arrow(pos, typ): [typ] is a TypeChannel node *)
Fixpoint reset_chan_arrow (pos : A) (typ : nodeT) : nodeT + perr :=
  match typ with
  | Nd t ps ats d ks =>
      let p0 := nth 0 ps pos in
      let p1 := nth 1 ps pos in
      match (match ats with ADir dir :: _ => dir | _ => 0 end) with
      | 2 => inr (PUnexpected p1 (Some (TOperator OArrow)) 71)
      | 0 => inl (Nd t [p0; pos] [ADir 2] d ks)
      | _ =>
          match ks with
          | inner :: rest =>
              if is_tag GTypeChannel inner then
                match reset_chan_arrow p1 inner with
                | inl inner' => inl (Nd t [p0; pos] [ADir 2] d (inner' :: rest))
                | inr e => inr e
                end
              else inr (else_error_at p1 72)
          | [] => inr (else_error_at p1 72)
          end
      end
  end.

Definition unary_body (s : pstate) : res nodeT :=
  match s_cur s with
  | Some (pos, TOperator op) =>
      match classify_unary op with
      | UCPlain =>
          let* (_, s1) := next s in
          let* (x, s2) := k_unary self s1 in
          Ok (n_operation pos op x None) s2
      | UCAnd =>
          let* (_, s1) := next s in
          let* (x, s2) := k_unary self s1 in
          Ok (n_operation pos op x None) s2
      | UCArrow =>
          let* (_, s1) := next s in
          let* (x, s2) := k_unary self s1 in
          if is_tag GTypeChannel x then
            match reset_chan_arrow pos x with
            | inl t => Ok t s2
            | inr e => Err e s2
            end
          else Ok (n_operation pos op x None) s2
      | UCNone => primary_expression None s
      end
  | _ => primary_expression None s
  end.

Fixpoint binary_loop (fuel : nat) (prec : nat) (x : nodeT) (s : pstate) : res nodeT :=
  match fuel with
  | O => Fuel
  | S f =>
      match s_cur s with
      | Some (pos, TOperator op) =>
          let prec2 := prec_nat op in
          if (prec <? prec2)%nat then
            let* (_, s1) := next s in
            let* (y, s2) := k_binary self None prec2 s1 in
            binary_loop f prec (n_operation pos op x (Some y)) s2
          else Ok x s
      | _ => Ok x s
      end
  end.

Definition binary_body (p : option nodeT) (prec : nat) (s : pstate) : res nodeT :=
  let* (x, s1) := (match p with Some e => Ok e s | None => k_unary self s end) in
  binary_loop (loop_fuel s1) prec x s1.

Definition expr_body (s : pstate) : res nodeT := k_binary self None 0 s.

(* ---------------------------------------------------------- statements *)

Definition is_assign_op (o : operator) : bool :=
  match o with
  | ODefine | OAssign | OAddAssign | OSubAssign | OMulAssign | OQuoAssign | ORemAssign
  | OAndAssign | OOrAssign | OXorAssign | OShlAssign | OShrAssign | OAndNotAssign => true
  | _ => false
  end.

Definition parse_range_expr (s : pstate) : res nodeT :=
  let* (pos, s1) := expect (KKw KRange) 73 s in
  let* (right, s2) := k_expr self s1 in
  Ok (mk GRange [pos] [] [right]) s2.

(* check_single_expr: exactly one expression, else an error at the first one *)
Definition check_single_expr (l : list nodeT) (s : pstate) : res nodeT :=
  match l with
  | [e] => Ok e s
  | [] => Err (else_error_at (cur_pos s) 74) s
  | e1 :: _ =>
      match expr_pos e1 with
      | Some p => Err (else_error_at p 74) s
      | None => Panic 642
      end
  end.

Fixpoint check_assign_stmt (l : list nodeT) (s : pstate) : res unit :=
  match l with
  | [] => Ok tt s
  | e :: r =>
      if is_tag GIdent e then check_assign_stmt r s
      else
        match expr_pos e with
        | Some p => Err (else_error_at p 75) s
        | None => Panic 642
        end
  end.

Definition parse_simple_stmt (s : pstate) : res nodeT :=
  let* (left, s1) := expression_list s in
  match s_cur s1 with
  | None => Err (else_error s1 76) s1
  | Some (pos, tok) =>
      match tok with
      | TOperator op =>
          if is_assign_op op then
            let* (_, s2) := next s1 in
            let is_range := cur_is s2 (KKw KRange) in
            let is_assign := op_eqb op OAssign || op_eqb op ODefine in
            let* (right, s3) :=
              (if is_range && is_assign then
                 let* (r, s3) := parse_range_expr s2 in Ok [r] s3
               else expression_list s2) in
            let* (_, s4) := (if op_eqb op ODefine then check_assign_stmt left s3 else Ok tt s3) in
            if (length left <? length right)%nat then Err (else_error_at pos 77) s4
            else Ok (mk GAssign [pos] [AOp op] [nlist left; nlist right]) s4
          else
            let* (expr, s2) := check_single_expr left s1 in
            match op with
            | OColon =>
                if is_tag GIdent expr then
                  let* (_, s3) := next s2 in
                  let* (stmt, s4) := k_stmt self s3 in
                  Ok (mk GLabel [pos] [] [expr; stmt]) s4
                else Err (else_error_at pos 78) s2
            | OArrow =>
                let* (_, s3) := next s2 in
                let* (value, s4) := k_expr self s3 in
                Ok (mk GSend [pos] [] [expr; value]) s4
            | OInc | ODec =>
                let* (_, s3) := next s2 in
                Ok (mk GIncDec [pos] [AOp op] [expr]) s3
            | _ => Ok (mk GExprStmt [] [] [expr]) s2
            end
      | _ =>
          let* (expr, s2) := check_single_expr left s1 in
          Ok (mk GExprStmt [] [] [expr]) s2
      end
  end.

Fixpoint stmts_until_brace (fuel : nat) (acc : list nodeT) (s : pstate) : res (list nodeT) :=
  match fuel with
  | O => Fuel
  | S f =>
      if cur_is s (KOp OBraceRight) then Ok acc s
      else let* (st, s1) := k_stmt self s in stmts_until_brace f (acc ++ [st]) s1
  end.

Definition block_body (s : pstate) : res nodeT :=
  let* (_, s1) := inc_level s 79 in
  let* (p0, s2) := expect (KOp OBraceLeft) 80 s1 in
  let* (l, s3) := stmts_until_brace (loop_fuel s2) [] s2 in
  let s4 := dec_level s3 in
  let* (p1, s5) := expect (KOp OBraceRight) 81 s4 in
  Ok (mk GBlock [p0; p1] [] l) s5.

Definition stmt_list_end (s : pstate) : bool :=
  match s_cur s with
  | None => true
  | Some (_, TKeyword KCase) | Some (_, TKeyword KDefault) | Some (_, TOperator OBraceRight) => true
  | _ => false
  end.

Fixpoint stmt_list_loop (fuel : nat) (acc : list nodeT) (s : pstate) : res (list nodeT) :=
  match fuel with
  | O => Fuel
  | S f =>
      if stmt_list_end s then Ok acc s
      else let* (st, s1) := k_stmt self s in stmt_list_loop f (acc ++ [st]) s1
  end.
Definition parse_stmt_list (s : pstate) : res (list nodeT) := stmt_list_loop (loop_fuel s) [] s.

Definition parse_go_defer (is_go : bool) (s : pstate) : res nodeT :=
  let* (pos, s1) := expect (KKw (if is_go then KGo else KDefer)) 82 s in
  let* (e, s2) := k_expr self s1 in
  if is_tag GCall e then
    let* (_, s3) := skipped (KOp OSemiColon) s2 in
    Ok (mk (if is_go then GGo else GDefer) [pos] [] [e]) s3
  else Err (else_error_at (a_plus2 OPS pos) 84) s2.

Definition parse_return_stmt (s : pstate) : res nodeT :=
  let* (pos, s1) := expect (KKw KReturn) 85 s in
  let* (ret, s2) :=
    (if cur_not s1 (KOp OSemiColon) && cur_not s1 (KOp OBraceRight) then expression_list s1
     else Ok [] s1) in
  let* (_, s3) := skipped (KOp OSemiColon) s2 in
  Ok (mk GReturn [pos] [] ret) s3.

Definition parse_branch_stmt (key : keyword) (s : pstate) : res nodeT :=
  let* (pos, s1) := expect (KKw key) 86 s in
  let* (id, s2) :=
    (if negb (kw_eqb key KFallThrough) && cur_is s1 (KLit LIdent) then
       let* (i, s2) := identifier 87 s1 in Ok (Some i) s2
     else Ok None s1) in
  let* (_, s3) := skipped (KOp OSemiColon) s2 in
  Ok (mk GBranch [pos] [AKw key] [nopt id]) s3.

(* if/for/switch headers run at expr_level = -1 and restore the level afterwards
   (not on the error paths) *)
Definition parse_if_header (s : pstate) : res (option nodeT * nodeT) :=
  if cur_is s (KOp OBraceLeft) then Err (else_error s 88) s else
  let lp := s_lp s in let ln := s_ln s in
  let s0 := reset_level s in
  let* (init, s1) :=
    (if cur_not s0 (KOp OSemiColon) then
       if cur_is s0 (KKw KVar) then Err (else_error s0 89) s0
       else let* (st, s1) := parse_simple_stmt s0 in Ok (Some st) s1
     else Ok None s0) in
  let* (cond, s2) :=
    (if cur_not s1 (KOp OBraceLeft) then
       let* (_, s2) := expect (KOp OSemiColon) 90 s1 in
       let* (st, s3) := parse_simple_stmt s2 in Ok (Some st) s3
     else Ok None s1) in
  let* (ic, s3) :=
    (match init, cond with
     | Some i, Some c => Ok (Some i, c) s2
     | Some i, None => Ok (None, i) s2
     | None, Some c => Ok (None, c) s2
     | None, None => Err (else_error s2 91) s2
     end) in
  if is_tag GExprStmt (snd ic) then Ok (fst ic, kid (snd ic) 0) (upd_level s3 lp ln)
  else Err (else_error s3 92) s3.

Definition if_body (s : pstate) : res nodeT :=
  let* (pos, s1) := expect (KKw KIf) 93 s in
  let* (ic, s2) := parse_if_header s1 in
  let* (body, s3) := k_block self s2 in
  let* (has_else, s4) := skipped (KKw KElse) s3 in
  if has_else then
    match s_cur s4 with
    | Some (_, TKeyword KIf) =>
        let* (st, s5) := k_if self s4 in
        Ok (mk GIf [pos] [] [nopt (fst ic); snd ic; body; st]) s5
    | Some (_, TOperator OBraceLeft) =>
        let* (blk, s5) := k_block self s4 in
        let* (_, s6) := skipped (KOp OSemiColon) s5 in
        Ok (mk GIf [pos] [] [nopt (fst ic); snd ic; body; blk]) s6
    | _ => Err (else_error s4 95) s4
    end
  else
    let* (_, s5) := skipped (KOp OSemiColon) s4 in
    Ok (mk GIf [pos] [] [nopt (fst ic); snd ic; body; nnone]) s5.

(* is_type_switch(tag) *)
Definition is_type_switch (tag : option nodeT) (s : pstate) : res bool :=
  match tag with
  | Some t =>
      if is_tag GExprStmt t then
        let e := kid t 0 in
        Ok (is_tag GTypeAssert e && is_tag GNone (kid e 1)) s
      else if is_tag GAssign t then
        let left := n_kids (kid t 0) in
        let right := n_kids (kid t 1) in
        if Nat.eqb (length left) 1 && Nat.eqb (length right) 1 &&
           is_tag GTypeAssert (nth 0 right nnone) then
          match n_ats t with
          | AOp ODefine :: _ => Ok true s
          | AOp OAssign :: _ =>
              match n_ps t with
              | p :: _ => Err (else_error_at p 96) s
              | [] => Panic 2043
              end
          | _ =>
              match n_ps t with
              | p :: _ => Err (else_error_at p 97) s
              | [] => Panic 2043
              end
          end
        else Ok false s
      else Ok false s
  | None => Ok false s
  end.

Fixpoint case_block_loop (fuel : nat) (type_assert : bool) (acc : list nodeT) (s : pstate)
  : res (list nodeT) :=
  match fuel with
  | O => Fuel
  | S f =>
      if cur_not s (KOp OBraceRight) then
        let* (hd, s1) :=
          (if cur_is s (KKw KCase) then
             let* (p, s1) := expect (KKw KCase) 97 s in
             let* (l, s2) := (if type_assert then parse_type_list s1 else expression_list s1) in
             Ok (p, KCase, l) s2
           else
             let* (p, s1) := expect (KKw KDefault) 98 s in Ok (p, KDefault, []) s1) in
        let '(p, tok, l) := hd in
        let* (pc, s2) := expect (KOp OColon) 99 s1 in
        let* (body, s3) := parse_stmt_list s2 in
        case_block_loop f type_assert
          (acc ++ [mk GCaseClause [p; pc] [AKw tok] [nlist l; nlist body]]) s3
      else Ok acc s
  end.

Definition parse_case_block (type_assert : bool) (s : pstate) : res nodeT :=
  let* (p0, s1) := expect (KOp OBraceLeft) 100 s in
  let* (cl, s2) := case_block_loop (loop_fuel s1) type_assert [] s1 in
  let* (p1, s3) := expect (KOp OBraceRight) 101 s2 in
  Ok (mk GCaseBlock [p0; p1] [] cl) s3.

Definition parse_switch_stmt (s : pstate) : res nodeT :=
  let* (pos, s1) := expect (KKw KSwitch) 102 s in
  let lp := s_lp s1 in let ln := s_ln s1 in
  let s2 := reset_level s1 in
  let* (it, s3) :=
    (if cur_not s2 (KOp OBraceLeft) then
       let* (tag0, s3) :=
         (if cur_not s2 (KOp OSemiColon) then
            let* (st, s3) := parse_simple_stmt s2 in Ok (Some st) s3
          else Ok None s2) in
       let* (semi, s4) := skipped (KOp OSemiColon) s3 in
       if semi then
         if cur_not s4 (KOp OBraceLeft) then
           let* (st, s5) := parse_simple_stmt s4 in Ok (tag0, Some st) s5
         else Ok (tag0, None) s4
       else Ok (None, tag0) s4
     else Ok (None, None) s2) in
  let '(init, tag) := it in
  let s4 := upd_level s3 lp ln in
  let* (ts, s5) := is_type_switch tag s4 in
  let* (block, s6) := parse_case_block ts s5 in
  if ts then Ok (mk GTypeSwitch [pos] [] [nopt init; nopt tag; block]) s6
  else
    match tag with
    | None => Ok (mk GSwitch [pos] [] [nopt init; nnone; block]) s6
    | Some t =>
        if is_tag GExprStmt t then Ok (mk GSwitch [pos] [] [nopt init; kid t 0; block]) s6
        else Err (else_error s6 103) s6
    end.

Definition parse_comm_stmt (s : pstate) : res nodeT :=
  let* (list, s1) := expression_list s in
  match s_cur s1 with
  | Some (pos, TOperator OArrow) =>
      let* (_, s2) := next s1 in
      let* (value, s3) := k_expr self s2 in
      let* (chan, s4) := check_single_expr list s3 in
      Ok (mk GSend [pos] [] [chan; value]) s4
  | Some (pos, TOperator ODefine) | Some (pos, TOperator OAssign) =>
      let op := match s_cur s1 with Some (_, TOperator o) => o | _ => OAssign end in
      if (3 <=? length list)%nat then Err (else_error s1 104) s1 else
      let* (_, s2) := next s1 in
      let* (_, s3) := (if op_eqb op ODefine then check_assign_stmt list s2 else Ok tt s2) in
      let* (r, s4) := k_expr self s3 in
      Ok (mk GAssign [pos] [AOp op] [nlist list; nlist [r]]) s4
  | _ =>
      let* (expr, s2) := check_single_expr list s1 in
      Ok (mk GExprStmt [] [] [expr]) s2
  end.

Fixpoint comm_block_loop (fuel : nat) (acc : list nodeT) (s : pstate) : res (list nodeT) :=
  match fuel with
  | O => Fuel
  | S f =>
      if cur_not s (KOp OBraceRight) then
        let pos := cur_pos s in
        let* (ct, s1) :=
          (if cur_is s (KKw KCase) then
             let* (_, s1) := expect (KKw KCase) 105 s in
             let* (st, s2) := parse_comm_stmt s1 in Ok (Some st, KCase) s2
           else
             let* (_, s1) := expect (KKw KDefault) 106 s in Ok (None, KDefault) s1) in
        let* (pc, s2) := expect (KOp OColon) 107 s1 in
        let* (body, s3) := parse_stmt_list s2 in
        comm_block_loop f
          (acc ++ [mk GCommClause [pos; pc] [AKw (snd ct)] [nopt (fst ct); nlist body]]) s3
      else Ok acc s
  end.

Definition parse_select_stmt (s : pstate) : res nodeT :=
  let* (pos, s1) := expect (KKw KSelect) 108 s in
  let* (p0, s2) := expect (KOp OBraceLeft) 109 s1 in
  let* (cl, s3) := comm_block_loop (loop_fuel s2) [] s2 in
  let* (p1, s4) := expect (KOp OBraceRight) 110 s3 in
  Ok (mk GSelect [pos] [] [mk GCommBlock [p0; p1] [] cl]) s4.

Definition assign_is_range (st : nodeT) : bool :=
  is_tag GAssign st && is_tag GRange (nth 0 (n_kids (kid st 1)) nnone).

Definition parse_for_stmt (s : pstate) : res nodeT :=
  let* (pos, s1) := expect (KKw KFor) 111 s in
  let lp := s_lp s1 in let ln := s_ln s1 in
  let s2 := reset_level s1 in
  if cur_is s2 (KKw KRange) then
    let* (pr, s3) := expect (KKw KRange) 112 s2 in
    let* (expr, s4) := k_expr self s3 in
    let* (body, s5) := k_block self (upd_level s4 lp ln) in
    Ok (mk GRangeStmt [pos; pr] [] [nnone; nnone; nnone; expr; body]) s5
  else if cur_is s2 (KOp OBraceLeft) then
    let* (body, s3) := k_block self (upd_level s2 lp ln) in
    Ok (mk GFor [pos] [] [nnone; nnone; nnone; body]) s3
  else
    let finish (cond0 : option nodeT) (s3 : pstate) : res nodeT :=
      let* (icp, s4) :=
        (if cur_is s3 (KOp OSemiColon) then
           let* (_, s4) := next s3 in
           let* (cond, s5) :=
             (if cur_not s4 (KOp OSemiColon) then
                let* (st, s5) := parse_simple_stmt s4 in Ok (Some st) s5
              else Ok None s4) in
           let* (_, s6) := expect (KOp OSemiColon) 113 s5 in
           let* (post, s7) :=
             (if cur_not s6 (KOp OBraceLeft) then
                let* (st, s7) := parse_simple_stmt s6 in Ok (Some st) s7
              else Ok None s6) in
           Ok (cond0, cond, post) s7
         else Ok (None, cond0, None) s3) in
      let '(init, cond, post) := icp in
      let* (body, s5) := k_block self (upd_level s4 lp ln) in
      Ok (mk GFor [pos] [] [nopt init; nopt cond; nopt post; body]) s5 in
    if cur_not s2 (KOp OSemiColon) then
      let* (st, s3) := parse_simple_stmt s2 in
      if assign_is_range st then
        let left := n_kids (kid st 0) in
        let apos := nth 0 (n_ps st) pos in
        if (3 <=? length left)%nat then Err (else_error_at apos 114) s3 else
        match pop_last (n_kids (kid st 1)) with
        | Some (_, r) =>
            if is_tag GRange r then
              let key := nth_error left 0 in
              let value := nth_error left 1 in
              let opn := Nd GPos [apos] (n_ats st) [] [] in
              let* (body, s4) := k_block self (upd_level s3 lp ln) in
              Ok (mk GRangeStmt [pos; nth 0 (n_ps r) pos] []
                     [nopt key; nopt value; opn; kid r 0; body]) s4
            else Panic 2169
        | None => Panic 2169
        end
      else finish (Some st) s3
    else finish None s2.

(* ---------------------------------------------------------- statement dispatch *)
(* declarations inside statements need parse_decl, defined below; the dispatch
   itself (stmt_body) therefore comes after the declarations *)

(* ---------------------------------------------------------- type-parameter extraction *)

(* is_type_elem(expr) *)
Fixpoint is_type_elem (e : nodeT) : bool :=
  match e with
  | Nd t _ ats _ ks =>
      match t with
      | GTypeArray | GTypeStruct | GFuncType | GTypeInterface | GTypeSlice | GTypeMap
      | GTypeChannel => true
      | GParen => match ks with k :: _ => is_type_elem k | [] => false end
      | GOperation =>
          match ats with
          | AOp OTiled :: _ => true
          | _ =>
              match ks with
              | x :: y :: _ => if is_tag GNone y then is_type_elem x else is_type_elem y
              | _ => false
              end
          end
      | _ => false
      end
  end.

Definition op_of (e : nodeT) : option operator :=
  match n_ats e with AOp o :: _ => Some o | _ => None end.

(* extract(expr, force): (name, type); None = panic!("extract lost") *)
Fixpoint extract (e : nodeT) (force : bool) : option (option nodeT * option nodeT) :=
  match e with
  | Nd t ps ats d ks =>
      let e0 := Nd t ps ats d ks in
      match t with
      | GIdent => Some (Some e0, None)
      | GOperation =>
          match ks with
          | x :: y :: _ =>
              if is_tag GNone y then Some (None, Some e0)
              else
                match (match ats with AOp o :: _ => Some o | _ => None end) with
                | Some OStar =>
                    if is_tag GIdent x && (force || is_type_elem y)
                    then Some (Some x, Some (Nd t ps ats d [y; nnone]))
                    else Some (None, Some e0)
                | Some OOr =>
                    match extract x (force || is_type_elem y) with
                    | Some (Some name, Some lhs) => Some (Some name, Some (Nd t ps ats d [lhs; y]))
                    | Some (Some name, None) => Some (None, Some (Nd t ps ats d [name; y]))
                    | Some (None, Some ex) => Some (None, Some (Nd t ps ats d [ex; y]))
                    | Some (None, None) => None
                    | None => None
                    end
                | _ => Some (None, Some e0)
                end
          | _ => Some (None, Some e0)
          end
      | GCall =>
          match ks with
          | func :: args :: dots :: _ =>
              if is_tag GIdent func then
                match n_kids args with
                | [arg0] =>
                    if is_tag GNone dots && (force || is_type_elem arg0)
                    then Some (Some func, Some arg0)
                    else Some (None, Some e0)
                | _ => Some (None, Some e0)
                end
              else Some (None, Some e0)
          | _ => Some (None, Some e0)
          end
      | _ => Some (None, Some e0)
      end
  end.

(* ---------------------------------------------------------- declarations *)

Inductive spec_kind : Set := SKVar | SKConst | SKType.

Definition parse_type_spec (s : pstate) : res nodeT :=
  let '(docs, s0) := drain s in
  let* (name, s1) := identifier 115 s0 in
  let pos0 := cur_pos s1 in
  let start := preback s1 in
  let finish_plain (params : nodeT) (s2 : pstate) : res nodeT :=
    let* (alias, s3) := skipped (KOp OAssign) s2 in
    let* (typ, s4) := k_type self s3 in
    Ok (mkd GTypeSpec [] [ABool alias] docs [name; params; typ]) s4 in
  let array_tail (len : nodeT) (s2 : pstate) : res nodeT :=
    let* (p1, s3) := expect (KOp OBarackRight) 116 s2 in
    let* (typ, s4) := k_type self s3 in
    Ok (mkd GTypeSpec [] [ABool false] docs
            [name; empty_fieldlist; mk GTypeArray [pos0; p1] [] [len; typ]]) s4 in
  let* (lb, s2) := skipped (KOp OBarackLeft) s1 in
  if negb lb then finish_plain empty_fieldlist s2 else
  let* (t, s3) := cur_tok s2 117 in
  match t with
  | TLiteral LIdent _ =>
      let* (id, s4) := identifier 118 s3 in
      let* (x, s5) :=
        (if cur_is s4 (KOp OBarackRight) then Ok id s4
         else
           let* (_, s5) := inc_level s4 119 in
           let* (p, s6) := primary_expression (Some id) s5 in
           let* (x, s7) := k_binary self (Some p) 0 s6 in
           Ok x (dec_level s7)) in
      match extract x (cur_is s5 (KOp OComma)) with
      | None => Panic 2273
      | Some (pname, ptype) =>
          let has_name := match pname with Some _ => true | None => false end in
          let has_type := match ptype with Some _ => true | None => false end in
          if has_name && (has_type || negb (cur_is s5 (KOp OBarackRight))) then
            let* (_, s6) := goback start s5 in
            let* (params, s7) := type_parameters s6 in
            finish_plain params s7
          else array_tail x s5
      end
  | TOperator OBarackRight =>
      let* (p1, s4) := expect (KOp OBarackRight) 120 s3 in
      let* (typ, s5) := k_type self s4 in
      Ok (mkd GTypeSpec [] [ABool false] docs
              [name; empty_fieldlist; mk GTypeSlice [pos0; p1] [] [typ]]) s5
  | _ =>
      let* (len, s4) := array_len s3 in
      array_tail len s4
  end.

Definition parse_var_spec (s : pstate) : res nodeT :=
  let '(docs, s0) := drain s in
  let* (names, s1) := identifier_list None s0 in
  let* (eq, s2) := skipped (KOp OAssign) s1 in
  let* (tv, s3) :=
    (if eq then
       let* (vs, s3) := expression_list s2 in Ok (None, vs) s3
     else
       let* (typ, s3) := k_type self s2 in
       let* (eq2, s4) := skipped (KOp OAssign) s3 in
       if eq2 then let* (vs, s5) := expression_list s4 in Ok (Some typ, vs) s5
       else Ok (Some typ, []) s4) in
  let '(typ, vs) := tv in
  match typ, vs with
  | None, [] => Err (else_error_at (cur_pos s3) 121) s3
  | _, _ => Ok (mkd GVarSpec [] [] docs [nlist names; nopt typ; nlist vs]) s3
  end.

Definition parse_const_spec (index : nat) (s : pstate) : res nodeT :=
  let '(docs, s0) := drain s in
  let* (names, s1) := identifier_list None s0 in
  let* (eq, s2) := skipped (KOp OAssign) s1 in
  let* (tv, s3) :=
    (if eq then
       let* (vs, s3) := expression_list s2 in Ok (None, vs) s3
     else
       let* (o, s3) := k_type_or_none self s2 in
       match o with
       | Some typ =>
           let* (_, s4) := expect (KOp OAssign) 122 s3 in
           let* (vs, s5) := expression_list s4 in Ok (Some typ, vs) s5
       | None => Ok (None, []) s3
       end) in
  let '(typ, vs) := tv in
  let has_typ := match typ with Some _ => true | None => false end in
  if Nat.eqb (length vs) 0 && (has_typ || Nat.eqb index 0)
  then Err (else_error_at (cur_pos s3) 123) s3
  else Ok (mkd GConstSpec [] [] docs [nlist names; nopt typ; nlist vs]) s3.

Definition parse_spec (k : spec_kind) (index : nat) (s : pstate) : res nodeT :=
  match k with
  | SKVar => parse_var_spec s
  | SKConst => parse_const_spec index s
  | SKType => parse_type_spec s
  end.

Definition decl_tag (k : spec_kind) : tag :=
  match k with SKVar => GDeclVar | SKConst => GDeclConst | SKType => GDeclType end.

Fixpoint decl_group_loop (fuel : nat) (k : spec_kind) (index : nat) (acc : list nodeT)
         (s : pstate) : res (list nodeT) :=
  match fuel with
  | O => Fuel
  | S f =>
      if cur_is s (KOp OParenRight) then Ok acc s
      else
        let* (sp, s1) := parse_spec k index s in
        let* (_, s2) := skipped (KOp OSemiColon) s1 in
        decl_group_loop f k (S index) (acc ++ [sp]) s2
  end.

(* parse_decl(parse_spec): the keyword is skipped without a check *)
Definition parse_decl (k : spec_kind) (s : pstate) : res nodeT :=
  let pos0 := cur_pos s in
  let '(docs, s0) := drain s in
  let* (_, s1) := next s0 in
  if cur_is s1 (KOp OParenLeft) then
    let* (left, s2) := expect (KOp OParenLeft) 124 s1 in
    let* (specs, s3) := decl_group_loop (loop_fuel s2) k 0 [] s2 in
    let* (right, s4) := expect (KOp OParenRight) 125 s3 in
    let* (_, s5) := skipped (KOp OSemiColon) s4 in
    Ok (mkd (decl_tag k) [pos0; left; right] [] docs specs) s5
  else
    let* (sp, s2) := parse_spec k 0 s1 in
    let* (_, s3) := skipped (KOp OSemiColon) s2 in
    (* .with_docs(docs): the declaration's docs replace the spec's; Decl.docs is empty *)
    Ok (mkd (decl_tag k) [pos0] [] (c_empty OPS) [set_docs sp [docs]]) s3.

Definition parse_func_decl (s : pstate) : res nodeT :=
  let '(docs, s0) := drain s in
  let* (pos, s1) := expect (KKw KFunc) 126 s0 in
  let* (recv, s2) :=
    (if cur_is s1 (KOp OParenLeft) then let* (r, s2) := parameters s1 in Ok (Some r) s2
     else Ok None s1) in
  let* (name, s3) := identifier 127 s2 in
  let* (tp, s4) :=
    (match recv with
     | None => if cur_is s3 (KOp OBarackLeft) then parse_type_parameters s3
               else Ok empty_fieldlist s3
     | Some _ => Ok empty_fieldlist s3
     end) in
  let* (pr, s5) := signature s4 in
  let typ := n_functype (Some pos) tp (fst pr) (snd pr) in
  let* (body, s6) :=
    (if cur_is s5 (KOp OBraceLeft) then let* (b, s6) := k_block self s5 in Ok (Some b) s6
     else Ok None s5) in
  let* (_, s7) := skipped (KOp OSemiColon) s6 in
  Ok (mkd GFuncDecl [] [] docs [nopt recv; name; typ; nopt body]) s7.

(* ---------------------------------------------------------- parse_stmt *)

Definition stmt_body (s : pstate) : res nodeT :=
  match s_cur s with
  | None => Err (else_error s 128) s
  | Some (pos, tok) =>
      match classify_stmt tok with
      | SCSimple =>
          let* (st, s1) := parse_simple_stmt s in
          let* (_, s2) := skipped (KOp OSemiColon) s1 in Ok st s2
      | SCVar => let* (d, s1) := parse_decl SKVar s in Ok (mk GDeclStmt [] [] [d]) s1
      | SCType => let* (d, s1) := parse_decl SKType s in Ok (mk GDeclStmt [] [] [d]) s1
      | SCConst => let* (d, s1) := parse_decl SKConst s in Ok (mk GDeclStmt [] [] [d]) s1
      | SCBlock => k_block self s
      | SCGo => parse_go_defer true s
      | SCDefer => parse_go_defer false s
      | SCReturn => parse_return_stmt s
      | SCIf => k_if self s
      | SCSwitch => parse_switch_stmt s
      | SCSelect => parse_select_stmt s
      | SCFor => parse_for_stmt s
      | SCSemi => let* (_, s1) := next s in Ok (mk GEmpty [pos] [] []) s1
      | SCBraceRight => Ok (mk GEmpty [pos] [] []) s
      | SCBranch key => parse_branch_stmt key s
      | SCOther => Err (else_error_at pos 129) s
      end
  end.

(* ---------------------------------------------------------- file level *)

Definition parse_package (s : pstate) : res nodeT :=
  let* (_, s1) := expect (KKw KPackage) 130 s in
  let* (id, s2) := identifier 131 s1 in
  if is_blank (ident_name id) then
    match n_ps id with
    | p :: _ => Err (else_error_at p 132) s2
    | [] => Panic 340
    end
  else Ok id s2.

Definition parse_import_spec (s : pstate) : res nodeT :=
  match s_cur s with
  | None => Err (else_error (upd_cur s None) 133) (upd_cur s None)
  | Some (pos, tok) =>
      let* (_, s1) := next (upd_cur s None) in
      match tok with
      | TLiteral LIdent name =>
          let* (path, s2) := string_literal 134 s1 in
          Ok (mk GImport [] [] [n_ident pos name; path]) s2
      | TOperator ODot =>
          let* (path, s2) := string_literal 135 s1 in
          Ok (mk GImport [] [] [n_ident pos [46%N]; path]) s2
      | TLiteral LString value => Ok (mk GImport [] [] [nnone; n_strlit pos value]) s1
      | other => Err (unexpected s1 (Some (pos, other)) 136) s1
      end
  end.

Fixpoint import_group_loop (fuel : nat) (acc : list nodeT) (s : pstate) : res (list nodeT) :=
  match fuel with
  | O => Fuel
  | S f =>
      if cur_is s (KOp OParenRight) then Ok acc s
      else
        let* (sp, s1) := parse_import_spec s in
        let* (_, s2) := skipped (KOp OSemiColon) s1 in
        import_group_loop f (acc ++ [sp]) s2
  end.

Definition parse_import_decl (s : pstate) : res (list nodeT) :=
  let* (_, s1) := expect (KKw KImport) 137 s in
  let* (paren, s2) := skipped (KOp OParenLeft) s1 in
  if paren then
    let* (l, s3) := import_group_loop (loop_fuel s2) [] s2 in
    let* (_, s4) := expect (KOp OParenRight) 138 s3 in
    Ok l s4
  else let* (sp, s3) := parse_import_spec s2 in Ok [sp] s3.

Fixpoint imports_loop (fuel : nat) (acc : list nodeT) (s : pstate) : res (list nodeT) :=
  match fuel with
  | O => Fuel
  | S f =>
      if cur_is s (KKw KImport) then
        let* (l, s1) := parse_import_decl s in
        let* (_, s2) := skipped (KOp OSemiColon) s1 in
        imports_loop f (acc ++ l) s2
      else Ok acc s
  end.

Definition parse_top_decl (s : pstate) : res nodeT :=
  match s_cur s with
  | Some (_, TKeyword KFunc) => parse_func_decl s
  | Some (_, TKeyword KVar) => parse_decl SKVar s
  | Some (_, TKeyword KType) => parse_decl SKType s
  | Some (_, TKeyword KConst) => parse_decl SKConst s
  | c => let s0 := upd_cur s None in Err (unexpected s0 c 139) s0
  end.

Fixpoint decls_loop (fuel : nat) (acc : list nodeT) (s : pstate) : res (list nodeT) :=
  match fuel with
  | O => Fuel
  | S f =>
      match s_cur s with
      | None => Ok acc s
      | Some _ => let* (d, s1) := parse_top_decl s in decls_loop f (acc ++ [d]) s1
      end
  end.

Definition ensure_started (s : pstate) : res unit :=
  if s_started s then Ok tt s else next s.

Definition parse_file (s : pstate) : res nodeT :=
  let* (_, s0) := ensure_started s in
  let '(docs, s1) := drain s0 in
  let* (pkg, s2) := parse_package s1 in
  let* (_, s3) := skipped (KOp OSemiColon) s2 in
  let* (imports, s4) := imports_loop (loop_fuel s3) [] s3 in
  let* (decls, s5) := decls_loop (loop_fuel s4) [] s4 in
  Ok (mkd GFile [] [] docs [pkg; nlist imports; nlist decls]) s5.

(* public entry points Parser::expression / Parser::parse_stmt *)
Definition entry_expression (s : pstate) : res nodeT :=
  let* (_, s0) := ensure_started s in k_expr self s0.
Definition entry_stmt (s : pstate) : res nodeT :=
  let* (_, s0) := ensure_started s in k_stmt self s0.

(* one unfolding of the recursion *)
Definition step : parsers :=
  {| k_type := type_body;
     k_type_or_none := nested 140 type_or_none_body;
     k_expr := expr_body;
     k_unary := nested 141 unary_body;
     k_binary := binary_body;
     k_litvalue := nested 144 lit_value_body;
     k_block := block_body;
     k_stmt := nested 142 stmt_body;
     k_if := nested 143 if_body |}.

End Step.

Definition no_fuel : parsers :=
  {| k_type := fun _ => Fuel;
     k_type_or_none := fun _ => Fuel;
     k_expr := fun _ => Fuel;
     k_unary := fun _ => Fuel;
     k_binary := fun _ _ _ => Fuel;
     k_litvalue := fun _ => Fuel;
     k_block := fun _ => Fuel;
     k_stmt := fun _ => Fuel;
     k_if := fun _ => Fuel |}.

Fixpoint parsers_at (d : nat) : parsers :=
  match d with
  | O => no_fuel
  | S d' => step (parsers_at d')
  end.

Definition init_state (a0 : A) (d0 : D) (elems : list selem) (term : sterm) : pstate :=
  {| s_cur := None; s_rest := elems; s_mark := elems; s_term := term; s_spos := a0;
     s_lp := 1; s_ln := 0; s_d := d0; s_started := false; s_depth := 0 |}.   (* expr_level: i32 default = 0 *)

End Core.

Arguments Ok {A G D E X}.
Arguments Err {A G D E X}.
Arguments Panic {A G D E X}.
Arguments Fuel {A G D E X}.
Arguments SE {A G}.
Arguments TEof {A G E}.
Arguments TErr {A G E}.
Arguments PUnexpected {A E}.
Arguments PElse {A E}.
Arguments PScan {A E}.
