(* Serde.v — a generic model of serde's data model over a schema, with
   serde_json as the format (C20).

   The Rust side: every AST type carries
     #[cfg_attr(feature = "serde", derive(Serialize, Deserialize))]
   and serde's derive follows its documented data model:
     struct            -> JSON object, one key per field, declaration order
     tuple struct      -> JSON array            (arity <> 1)
     enum              -> externally tagged:
        unit variant     "Name"
        newtype variant  {"Name": value}
        tuple variant    {"Name": [..]}
        struct variant   {"Name": {..}}
     Option<T>         -> null | value
     Vec / tuple / [T;N] -> JSON array, unit () -> null
     Box / Rc          -> transparent (erased by the translator)
     usize -> number, String / char / PathBuf -> string, bool -> bool.

   [ser] is the type-directed serialiser, [de] the type-directed deserialiser.
   [de] accepts a SUBSET of what the derived Deserialize accepts (objects with
   the fields in any order, unknown keys ignored, duplicate keys rejected, a
   missing Option field read as None; it does not accept the sequence form of
   a struct nor {"Unit": null}) and agrees with it on that subset, which is all
   the round-trip statement needs.

   Not modelled (rejected by [wf_schema], refused by the translator): newtype
   structs (serialised transparently) and unit structs (serialised as null);
   any serde(...) attribute.

   Outside [has_type]: a PathBuf that is not valid UTF-8 (serde's Serialize
   for Path returns Err on it).  [de] has no recursion limit; serde_json's
   default limit of 128 nested containers is [de_limited] at the end of this
   file. *)
From Coq Require Import List String Ascii NArith Bool Arith Lia.
Import ListNotations.
Open Scope string_scope.

Notation name := string (only parsing).
(* a Rust String / JSON string: a sequence of Unicode scalar values *)
Definition ustr := list N.

(* ------------------------------------------------------------------ *)
(* Types, definitions, schemas                                         *)

Inductive ty : Type :=
| TUsize | TBool | TString | TChar
| TOption (t : ty)
| TVec (t : ty)
| TTuple (ts : list ty)        (* (A, B, ..), [T; N] as N copies, () as [] *)
| TNamed (n : name).

Inductive variant_shape : Type :=
| VUnit
| VNewtype (t : ty)
| VTuple (ts : list ty)
| VStruct (fds : list (name * ty)).

Inductive def : Type :=
| DStruct (fds : list (name * ty))
| DTupleStruct (ts : list ty)
| DEnum (vars : list (name * variant_shape)).

Definition schema := list (name * def).

(* ------------------------------------------------------------------ *)
(* Universal Rust value and JSON                                       *)

Inductive value : Type :=
| VNum (n : N)
| VBool (b : bool)
| VStr (s : ustr)
| VChar (c : N)
| VNone
| VSome (v : value)
| VSeq (vs : list value)                       (* Vec<T> *)
| VTup (vs : list value)                       (* tuple, array, unit *)
| VRecord (n : name) (fs : list (name * value))(* struct, struct-variant payload *)
| VTupleS (n : name) (vs : list value)         (* tuple struct *)
| VVariant (e : name) (vn : name) (p : value). (* enum value; payload:
     unit -> VTup [], newtype -> the value, tuple -> VTup vs,
     struct -> VRecord vn fs *)

Inductive json : Type :=
| JNull
| JBool (b : bool)
| JNum (n : N)
| JStr (s : ustr)
| JArr (js : list json)
| JObj (kvs : list (string * json)).

(* nested induction principle for [value] *)
Section ValueInd.
  Variable P : value -> Prop.
  Hypothesis HNum : forall n, P (VNum n).
  Hypothesis HBool : forall b, P (VBool b).
  Hypothesis HStr : forall s, P (VStr s).
  Hypothesis HChar : forall c, P (VChar c).
  Hypothesis HNone : P VNone.
  Hypothesis HSome : forall v, P v -> P (VSome v).
  Hypothesis HSeq : forall vs, Forall P vs -> P (VSeq vs).
  Hypothesis HTup : forall vs, Forall P vs -> P (VTup vs).
  Hypothesis HRecord : forall n fs, Forall (fun fv => P (snd fv)) fs -> P (VRecord n fs).
  Hypothesis HTupleS : forall n vs, Forall P vs -> P (VTupleS n vs).
  (* the payload of a variant may itself be a tuple / record whose components
     are needed directly *)
  Definition sub_values (v : value) : Prop :=
    match v with
    | VTup vs => Forall P vs
    | VRecord _ fs => Forall (fun fv => P (snd fv)) fs
    | _ => True
    end.
  Hypothesis HVariant : forall e vn p, P p -> sub_values p -> P (VVariant e vn p).

  Fixpoint value_ind' (v : value) : P v :=
    match v with
    | VNum n => HNum n
    | VBool b => HBool b
    | VStr s => HStr s
    | VChar c => HChar c
    | VNone => HNone
    | VSome v => HSome v (value_ind' v)
    | VSeq vs => HSeq vs ((fix go (l : list value) : Forall P l :=
        match l with [] => Forall_nil _ | x :: r => Forall_cons _ (value_ind' x) (go r) end) vs)
    | VTup vs => HTup vs ((fix go (l : list value) : Forall P l :=
        match l with [] => Forall_nil _ | x :: r => Forall_cons _ (value_ind' x) (go r) end) vs)
    | VRecord n fs => HRecord n fs ((fix go (l : list (name * value)) : Forall (fun fv => P (snd fv)) l :=
        match l with [] => Forall_nil _
        | x :: r => Forall_cons (P := fun fv => P (snd fv)) x
                      (match x return P (snd x) with (_, v) => value_ind' v end) (go r) end) fs)
    | VTupleS n vs => HTupleS n vs ((fix go (l : list value) : Forall P l :=
        match l with [] => Forall_nil _ | x :: r => Forall_cons _ (value_ind' x) (go r) end) vs)
    | VVariant e vn p => HVariant e vn p (value_ind' p)
        (match p return sub_values p with
         | VTup vs => (fix go (l : list value) : Forall P l :=
             match l with [] => Forall_nil _ | x :: r => Forall_cons _ (value_ind' x) (go r) end) vs
         | VRecord _ fs => (fix go (l : list (name * value)) : Forall (fun fv => P (snd fv)) l :=
             match l with [] => Forall_nil _
             | x :: r => Forall_cons (P := fun fv => P (snd fv)) x
                           (match x return P (snd x) with (_, v) => value_ind' v end) (go r) end) fs
         | _ => I
         end)
    end.
End ValueInd.

(* ------------------------------------------------------------------ *)
(* List combinators (second list is the structural argument)           *)

Section Comb.
  Context {A B C : Type}.

  Section Map2.
    Variable f : A -> B -> C.
    Fixpoint map2 (l : list A) (l' : list B) {struct l'} : list C :=
      match l' with
      | [] => []
      | b :: r' => match l with [] => [] | a :: r => f a b :: map2 r r' end
      end.
  End Map2.

  Section Forallb2.
    Variable f : A -> B -> bool.
    Fixpoint forallb2 (l : list A) (l' : list B) {struct l'} : bool :=
      match l' with
      | [] => match l with [] => true | _ => false end
      | b :: r' => match l with [] => false | a :: r => f a b && forallb2 r r' end
      end.
  End Forallb2.

  Section Traverse.
    Variable f : B -> option C.
    Fixpoint traverse (l : list B) : option (list C) :=
      match l with
      | [] => Some []
      | b :: r => match f b with
                  | Some c => option_map (cons c) (traverse r)
                  | None => None
                  end
      end.
  End Traverse.

  Section Traverse2.
    Variable f : A -> B -> option C.
    Fixpoint traverse2 (l : list A) (l' : list B) {struct l'} : option (list C) :=
      match l' with
      | [] => match l with [] => Some [] | _ => None end
      | b :: r' => match l with
                   | [] => None
                   | a :: r => match f a b with
                               | Some c => option_map (cons c) (traverse2 r r')
                               | None => None
                               end
                   end
      end.
  End Traverse2.
End Comb.

(* association lists keyed by strings *)
Fixpoint lookup {A : Type} (k : string) (l : list (string * A)) : option A :=
  match l with
  | [] => None
  | (k', a) :: r => if String.eqb k k' then Some a else lookup k r
  end.

(* [find_apply g k kvs]: apply g to the value of the first binding of k *)
Section FindApply.
  Context {A R : Type}.
  Variable g : A -> R.
  Fixpoint find_apply (k : string) (kvs : list (string * A)) : option R :=
    match kvs with
    | [] => None
    | kv :: r => if String.eqb k (fst kv) then Some (g (snd kv)) else find_apply k r
    end.
End FindApply.

Fixpoint nodupb (l : list string) : bool :=
  match l with
  | [] => true
  | x :: r => negb (existsb (String.eqb x) r) && nodupb r
  end.

(* ------------------------------------------------------------------ *)
(* Strings: identifiers (Coq strings, ASCII) <-> code point sequences  *)

Definition codes (s : string) : ustr := map N_of_ascii (list_ascii_of_string s).

Fixpoint uncode (s : ustr) : option string :=
  match s with
  | [] => Some EmptyString
  | c :: r => if N.ltb c 256
              then option_map (String (ascii_of_N c)) (uncode r)
              else None
  end.

(* Unicode scalar values *)
Definition is_scalar (c : N) : bool :=
  (N.ltb c 55296 || (N.leb 57344 c && N.ltb c 1114112))%N.

(* usize is 64 bits on the targets considered; serde_json carries u64 exactly *)
Definition usize_limit : N := 18446744073709551616%N.

(* ------------------------------------------------------------------ *)
(* Typing, serialiser, deserialiser                                    *)

Definition is_option (t : ty) : bool :=
  match t with TOption _ => true | _ => false end.

(* the Option layer of the deserialiser: null is None, anything else is Some *)
Definition de_opt (f : ty -> json -> option value) (t : ty) (j : json) : option value :=
  match t with
  | TOption t' => match j with
                  | JNull => Some VNone
                  | _ => option_map VSome (f t' j)
                  end
  | _ => f t j
  end.

(* object -> named fields; any order, unknown keys ignored, duplicate keys
   rejected, a missing Option field is None *)
Section DeFields.
  Variable f : ty -> json -> option value.
  Variable kvs : list (string * json).
  Fixpoint de_fields_aux (fds : list (name * ty)) : option (list (name * value)) :=
    match fds with
    | [] => Some []
    | fd :: r =>
        match find_apply (f (snd fd)) (fst fd) kvs with
        | Some (Some v) => option_map (cons (fst fd, v)) (de_fields_aux r)
        | Some None => None
        | None => if is_option (snd fd)
                  then option_map (cons (fst fd, VNone)) (de_fields_aux r)
                  else None
        end
    end.
  Definition de_fields (fds : list (name * ty)) : option (list (name * value)) :=
    if nodupb (map fst kvs) then de_fields_aux fds else None.
End DeFields.

Section WithSchema.
  Variable S : schema.

  (* has_type_b S t v: v is a value of Rust type t *)
  Fixpoint has_type_b (t : ty) (v : value) {struct v} : bool :=
    match v with
    | VNum n => match t with TUsize => N.ltb n usize_limit | _ => false end
    | VBool _ => match t with TBool => true | _ => false end
    | VStr s => match t with TString => forallb is_scalar s | _ => false end
    | VChar c => match t with TChar => is_scalar c | _ => false end
    | VNone => match t with TOption _ => true | _ => false end
    | VSome v' => match t with TOption t' => has_type_b t' v' | _ => false end
    | VSeq vs => match t with TVec t' => forallb (has_type_b t') vs | _ => false end
    | VTup vs => match t with TTuple ts => forallb2 has_type_b ts vs | _ => false end
    | VRecord n' fs =>
        match t with
        | TNamed n =>
            String.eqb n n' &&
            match lookup n S with
            | Some (DStruct fds) =>
                forallb2 (fun fd fv => String.eqb (fst fd) (fst fv) &&
                                       has_type_b (snd fd) (snd fv)) fds fs
            | _ => false
            end
        | _ => false
        end
    | VTupleS n' vs =>
        match t with
        | TNamed n =>
            String.eqb n n' &&
            match lookup n S with
            | Some (DTupleStruct ts) => forallb2 has_type_b ts vs
            | _ => false
            end
        | _ => false
        end
    | VVariant e vn p =>
        match t with
        | TNamed n =>
            String.eqb n e &&
            match lookup n S with
            | Some (DEnum vars) =>
                match lookup vn vars with
                | Some VUnit => match p with VTup [] => true | _ => false end
                | Some (VNewtype t') => has_type_b t' p
                | Some (VTuple ts) =>
                    match p with VTup vs => forallb2 has_type_b ts vs | _ => false end
                | Some (VStruct fds) =>
                    match p with
                    | VRecord n' fs =>
                        String.eqb vn n' &&
                        forallb2 (fun fd fv => String.eqb (fst fd) (fst fv) &&
                                               has_type_b (snd fd) (snd fv)) fds fs
                    | _ => false
                    end
                | None => false
                end
            | _ => false
            end
        | _ => false
        end
    end.

  Definition has_type (t : ty) (v : value) : Prop := has_type_b t v = true.

  (* the serialiser; JNull on ill-typed input *)
  Fixpoint ser (t : ty) (v : value) {struct v} : json :=
    match v with
    | VNum n => JNum n
    | VBool b => JBool b
    | VStr s => JStr s
    | VChar c => JStr [c]
    | VNone => JNull
    | VSome v' => match t with TOption t' => ser t' v' | _ => JNull end
    | VSeq vs => match t with TVec t' => JArr (map (ser t') vs) | _ => JNull end
    | VTup vs =>
        match t with
        | TTuple [] => JNull                                 (* unit *)
        | TTuple ts => JArr (map2 ser ts vs)
        | _ => JNull
        end
    | VRecord _ fs =>
        match t with
        | TNamed n =>
            match lookup n S with
            | Some (DStruct fds) =>
                JObj (map2 (fun fd fv => (fst fd, ser (snd fd) (snd fv))) fds fs)
            | _ => JNull
            end
        | _ => JNull
        end
    | VTupleS _ vs =>
        match t with
        | TNamed n =>
            match lookup n S with
            | Some (DTupleStruct ts) => JArr (map2 ser ts vs)
            | _ => JNull
            end
        | _ => JNull
        end
    | VVariant _ vn p =>
        match t with
        | TNamed n =>
            match lookup n S with
            | Some (DEnum vars) =>
                match lookup vn vars with
                | Some VUnit => JStr (codes vn)
                | Some (VNewtype t') => JObj [(vn, ser t' p)]
                | Some (VTuple ts) =>
                    match p with
                    | VTup vs => JObj [(vn, JArr (map2 ser ts vs))]
                    | _ => JNull
                    end
                | Some (VStruct fds) =>
                    match p with
                    | VRecord _ fs =>
                        JObj [(vn, JObj (map2 (fun fd fv => (fst fd, ser (snd fd) (snd fv))) fds fs))]
                    | _ => JNull
                    end
                | None => JNull
                end
            | _ => JNull
            end
        | _ => JNull
        end
    end.

  (* the deserialiser for non-Option types, structural on the JSON *)
  Fixpoint de1 (t : ty) (j : json) {struct j} : option value :=
    match t with
    | TUsize => match j with
                | JNum n => if N.ltb n usize_limit then Some (VNum n) else None
                | _ => None
                end
    | TBool => match j with JBool b => Some (VBool b) | _ => None end
    | TString => match j with
                 | JStr s => if forallb is_scalar s then Some (VStr s) else None
                 | _ => None
                 end
    | TChar => match j with
               | JStr [c] => if is_scalar c then Some (VChar c) else None
               | _ => None
               end
    | TOption _ => None   (* reached only for Option<Option<_>>: ambiguous, refused *)
    | TVec t' => match j with
                 | JArr js => option_map VSeq (traverse (de_opt de1 t') js)
                 | _ => None
                 end
    | TTuple [] => match j with JNull => Some (VTup []) | _ => None end
    | TTuple ts => match j with
                   | JArr js => option_map VTup (traverse2 (de_opt de1) ts js)
                   | _ => None
                   end
    | TNamed n =>
        match lookup n S with
        | Some (DStruct fds) =>
            match j with
            | JObj kvs => option_map (VRecord n) (de_fields (de_opt de1) kvs fds)
            | _ => None
            end
        | Some (DTupleStruct ts) =>
            match j with
            | JArr js => option_map (VTupleS n) (traverse2 (de_opt de1) ts js)
            | _ => None
            end
        | Some (DEnum vars) =>
            match j with
            | JStr s =>
                match uncode s with
                | Some vn => match lookup vn vars with
                             | Some VUnit => Some (VVariant n vn (VTup []))
                             | _ => None
                             end
                | None => None
                end
            | JObj [(vn, j')] =>
                match lookup vn vars with
                | Some (VNewtype t') => option_map (VVariant n vn) (de_opt de1 t' j')
                | Some (VTuple ts) =>
                    match j' with
                    | JArr js => option_map (fun vs => VVariant n vn (VTup vs))
                                            (traverse2 (de_opt de1) ts js)
                    | _ => None
                    end
                | Some (VStruct fds) =>
                    match j' with
                    | JObj kvs => option_map (fun fs => VVariant n vn (VRecord vn fs))
                                             (de_fields (de_opt de1) kvs fds)
                    | _ => None
                    end
                | _ => None
                end
            | _ => None
            end
        | None => None
        end
    end.

  Definition de (t : ty) (j : json) : option value := de_opt de1 t j.

  (* ---------------------------------------------------------------- *)
  (* Well-formed schemas                                               *)

  (* types some value of which serialises to null *)
  Definition nullable (t : ty) : bool :=
    match t with
    | TOption _ => true
    | TTuple [] => true
    | _ => false
    end.

  Fixpoint wf_ty (t : ty) : bool :=
    match t with
    | TOption t' => negb (nullable t') && wf_ty t'
    | TVec t' => wf_ty t'
    | TTuple ts => forallb wf_ty ts
    | TNamed n => match lookup n S with Some _ => true | None => false end
    | _ => true
    end.

  Definition wf_fields (fds : list (name * ty)) : bool :=
    nodupb (map fst fds) && forallb (fun fd => wf_ty (snd fd)) fds.

  Definition wf_shape (sh : variant_shape) : bool :=
    match sh with
    | VUnit => true
    | VNewtype t => wf_ty t
    | VTuple ts => forallb wf_ty ts
    | VStruct fds => wf_fields fds
    end.

  Definition wf_def (d : def) : bool :=
    match d with
    | DStruct fds => wf_fields fds
    | DTupleStruct ts => negb (Nat.eqb (List.length ts) 1) && forallb wf_ty ts
    | DEnum vars => nodupb (map fst vars) && forallb (fun p => wf_shape (snd p)) vars
    end.

  Definition wf_schema : bool :=
    nodupb (map fst S) && forallb (fun p => wf_def (snd p)) S.
End WithSchema.

(* ------------------------------------------------------------------ *)
(* Reachability in a schema (used by the generated schema file: every   *)
(* type reachable from the root derives both traits and carries no      *)
(* serde attribute)                                                     *)

Fixpoint ty_names (t : ty) : list name :=
  match t with
  | TOption t' => ty_names t'
  | TVec t' => ty_names t'
  | TTuple ts => flat_map ty_names ts
  | TNamed n => [n]
  | _ => []
  end.

Definition fields_names (fds : list (name * ty)) : list name :=
  flat_map (fun fd => ty_names (snd fd)) fds.

Definition shape_names (sh : variant_shape) : list name :=
  match sh with
  | VUnit => []
  | VNewtype t => ty_names t
  | VTuple ts => flat_map ty_names ts
  | VStruct fds => fields_names fds
  end.

Definition def_names (d : def) : list name :=
  match d with
  | DStruct fds => fields_names fds
  | DTupleStruct ts => flat_map ty_names ts
  | DEnum vars => flat_map (fun p => shape_names (snd p)) vars
  end.

(* the definition of n mentions n' *)
Definition mentions (S : schema) (n n' : name) : Prop :=
  exists d, lookup n S = Some d /\ In n' (def_names d).

Inductive reachable (S : schema) (root : name) : name -> Prop :=
| reach_root : reachable S root root
| reach_step : forall n n', reachable S root n -> mentions S n n' -> reachable S root n'.

Definition memb (n : name) (l : list name) : bool := existsb (String.eqb n) l.

(* flags: per type (derives Serialize and Deserialize under the same
   cfg_attr(feature = "serde"), no serde(...) attribute anywhere in it) *)
Definition flags_t := list (name * (bool * bool)).

Definition flag_ok (flags : flags_t) (n : name) : bool :=
  match lookup n flags with
  | Some (true, true) => true
  | _ => false
  end.

(* R is closed under [mentions], every member is defined and flagged ok *)
Definition closed_ok (S : schema) (flags : flags_t) (R : list name) : bool :=
  forallb (fun n =>
             match lookup n S with
             | Some d => forallb (fun n' => memb n' R) (def_names d)
             | None => false
             end && flag_ok flags n) R.

(* nested induction principle for [json] *)
Section JsonInd.
  Variable P : json -> Prop.
  Hypothesis HNull : P JNull.
  Hypothesis HBool : forall b, P (JBool b).
  Hypothesis HNum : forall n, P (JNum n).
  Hypothesis HStr : forall s, P (JStr s).
  Hypothesis HArr : forall js, Forall P js -> P (JArr js).
  Hypothesis HObj : forall kvs, Forall (fun kv => P (snd kv)) kvs -> P (JObj kvs).

  Fixpoint json_ind' (j : json) : P j :=
    match j with
    | JNull => HNull
    | JBool b => HBool b
    | JNum n => HNum n
    | JStr s => HStr s
    | JArr js => HArr js ((fix go (l : list json) : Forall P l :=
        match l with [] => Forall_nil _ | x :: r => Forall_cons _ (json_ind' x) (go r) end) js)
    | JObj kvs => HObj kvs ((fix go (l : list (string * json)) : Forall (fun kv => P (snd kv)) l :=
        match l with [] => Forall_nil _
        | x :: r => Forall_cons (P := fun kv => P (snd kv)) x
                      (match x return P (snd x) with (_, j') => json_ind' j' end) (go r) end) kvs)
    end.
End JsonInd.

(* ------------------------------------------------------------------ *)
(* serde_json's recursion limit.  serde_json::Deserializer starts with  *)
(* remaining_depth = 128, decrements it on entering every array, object *)
(* or enum wrapper and fails with RecursionLimitExceeded when it reaches *)
(* 0: a text is accepted only if its containers nest fewer than 128     *)
(* deep (unless disable_recursion_limit() is used).  The serialiser has *)
(* no such limit.  [de_limited lim] is [de] behind that guard.          *)

Fixpoint jdepth (j : json) : nat :=
  match j with
  | JArr js => S (fold_right (fun j' m => Nat.max (jdepth j') m) 0 js)
  | JObj kvs => S (fold_right (fun kv m => Nat.max (jdepth (snd kv)) m) 0 kvs)
  | _ => 0
  end.

Definition serde_json_recursion_limit : nat := 128.

Definition de_limited (lim : nat) (Sc : schema) (t : ty) (j : json) : option value :=
  if Nat.ltb (jdepth j) lim then de Sc t j else None.
