From Coq Require Import Extraction ExtrOcamlBasic.
From GoSyn Require Import Driver.
Extraction Language OCaml.

Extraction "../extract/model.ml" run_tokens oracle_num oracle_rune oracle_string esc_str run_parse_file run_parse_expr run_parse_stmt run_parse_stmts run_state_file run_state_expr run_state_stmt run_state_stmts run_site_file run_site_expr run_site_stmt.
