(* The file and directory entry points of src/lib.rs and Scanner::from_file over an
   ABSTRACT directory listing (what the operating system returns is an oracle):
     parse_file path  = set_path path (parse_source (strip_bom contents))
     parse_dir        = fold over the listing in the order the OS returned it *)
From Coq Require Import List NArith Bool.
From GoSyn Require Import Token Tok.
Import ListNotations.
Open Scope N_scope.

Inductive fentry : Type :=
| FRegular (content : option str)   (* None: cannot be read or is not valid UTF-8 *)
| FOther.                           (* dangling symlink, directory, ...: reading it fails *)

Definition listing : Type := list (str * fentry).

(* Scanner::from_file: a leading byte order mark is removed *)
Definition strip_bom (s : str) : str :=
  match s with
  | 65279 :: r => r
  | _ => s
  end.

Section Dir.
Variable parse : str -> option str.     (* contents -> Some (package name) | None (syntax error) *)
Variable is_go : str -> bool.           (* path.extension() == "go" *)

Definition pkgmap : Type := list (str * list str).   (* package name -> files, in insertion order *)

Fixpoint add_file (pkg name : str) (m : pkgmap) : pkgmap :=
  match m with
  | [] => [(pkg, [name])]
  | (p, fs) :: r => if str_eqb p pkg then (p, fs ++ [name]) :: r else (p, fs) :: add_file pkg name r
  end.

Definition files_of (m : pkgmap) (pkg : str) : list str :=
  match find (fun pf => str_eqb (fst pf) pkg) m with
  | Some (_, fs) => fs
  | None => []
  end.

(* what parse_file yields for one directory entry *)
Definition file_pkg (e : fentry) : option str :=
  match e with
  | FRegular (Some c) => parse (strip_bom c)
  | _ => None
  end.

Fixpoint parse_dir (l : listing) (acc : pkgmap) : option pkgmap :=
  match l with
  | [] => Some acc
  | (name, e) :: r =>
      if is_go name then
        match file_pkg e with
        | Some pkg => parse_dir r (add_file pkg name acc)
        | None => None                      (* `parse_file(&path)?` *)
        end
      else parse_dir r acc
  end.

(* the specification: the .go entries declaring [pkg], in listing order *)
Definition declaring (pkg : str) (l : listing) : list str :=
  map fst (filter (fun ne => is_go (fst ne) &&
                             match file_pkg (snd ne) with Some p => str_eqb p pkg | None => false end) l).

Definition all_good (l : listing) : Prop :=
  forall name e, In (name, e) l -> is_go name = true -> file_pkg e <> None.

End Dir.
