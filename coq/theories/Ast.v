(* The syntax tree of src/ast.rs as ONE rose tree: a node has a tag (which Rust
   struct / enum variant it is), its positions, its scalar attributes, its
   documentation (abstract), and its children in SOURCE ORDER.  A single
   inductive (nested through list) keeps Paramcoq, erasure, shifting, leaf
   traversal, printing and the serde model generic.  The exact layout per tag
   is the table in harness/src/walk.rs (the Rust walker) and in Core.v's
   constructors below; the correspondence check compares them on every run. *)
From Coq Require Import List NArith Bool.
From GoSyn Require Import Token Tok.
Import ListNotations.

Inductive tag : Set :=
(* leaves *)
| GIdent | GBasicLit | GStringLit
(* encodings *)
| GNone | GList | GPos
(* expressions *)
| GCall | GIndex | GIndexList | GSlice | GFuncLit | GEllipsis | GSelector | GRange | GStar
| GParen | GTypeAssert | GCompositeLit | GOperation
| GTypeMap | GTypeArray | GTypeSlice | GFuncType | GTypeStruct | GTypeChannel | GTypePointer
| GTypeInterface
| GLiteralValue | GKeyedElement | GField | GFieldList
(* statements *)
| GGo | GDefer | GIf | GFor | GSend | GExprStmt | GBlock | GRangeStmt | GEmpty | GLabel | GIncDec
| GAssign | GReturn | GBranch | GSwitch | GTypeSwitch | GSelect | GDeclStmt
| GCaseBlock | GCaseClause | GCommBlock | GCommClause
(* declarations *)
| GDeclVar | GDeclConst | GDeclType | GVarSpec | GConstSpec | GTypeSpec | GFuncDecl | GImport | GFile.

Definition tag_index (t : tag) : nat :=
  match t with
  | GIdent => 0 | GBasicLit => 1 | GStringLit => 2 | GNone => 3 | GList => 4 | GPos => 5
  | GCall => 6 | GIndex => 7 | GIndexList => 8 | GSlice => 9 | GFuncLit => 10 | GEllipsis => 11
  | GSelector => 12 | GRange => 13 | GStar => 14 | GParen => 15 | GTypeAssert => 16
  | GCompositeLit => 17 | GOperation => 18 | GTypeMap => 19 | GTypeArray => 20 | GTypeSlice => 21
  | GFuncType => 22 | GTypeStruct => 23 | GTypeChannel => 24 | GTypePointer => 25
  | GTypeInterface => 26 | GLiteralValue => 27 | GKeyedElement => 28 | GField => 29
  | GFieldList => 30 | GGo => 31 | GDefer => 32 | GIf => 33 | GFor => 34 | GSend => 35
  | GExprStmt => 36 | GBlock => 37 | GRangeStmt => 38 | GEmpty => 39 | GLabel => 40
  | GIncDec => 41 | GAssign => 42 | GReturn => 43 | GBranch => 44 | GSwitch => 45
  | GTypeSwitch => 46 | GSelect => 47 | GDeclStmt => 48 | GCaseBlock => 49 | GCaseClause => 50
  | GCommBlock => 51 | GCommClause => 52 | GDeclVar => 53 | GDeclConst => 54 | GDeclType => 55
  | GVarSpec => 56 | GConstSpec => 57 | GTypeSpec => 58 | GFuncDecl => 59 | GImport => 60
  | GFile => 61
  end.

Definition tag_eqb (a b : tag) : bool := Nat.eqb (tag_index a) (tag_index b).

Inductive attr : Set :=
| AStr (s : str)
| AOp (o : operator)
| AKw (k : keyword)
| ALk (k : litkind)
| ABool (b : bool)
| ADir (d : nat).     (* channel direction: 0 none, 1 send, 2 recv *)

Section Node.
Variables (A C : Type).

Inductive node : Type :=
| Nd (t : tag) (ps : list A) (ats : list attr) (docs : list C) (kids : list node).

Definition n_tag (n : node) : tag := match n with Nd t _ _ _ _ => t end.
Definition n_ps (n : node) : list A := match n with Nd _ ps _ _ _ => ps end.
Definition n_ats (n : node) : list attr := match n with Nd _ _ ats _ _ => ats end.
Definition n_docs (n : node) : list C := match n with Nd _ _ _ d _ => d end.
Definition n_kids (n : node) : list node := match n with Nd _ _ _ _ k => k end.

Definition is_tag (t : tag) (n : node) : bool := tag_eqb (n_tag n) t.

Definition nnone : node := Nd GNone [] [] [] [].
Definition nlist (l : list node) : node := Nd GList [] [] [] l.
Definition nopt (o : option node) : node := match o with Some n => n | None => nnone end.
Definition npos (p : A) : node := Nd GPos [p] [] [] [].

Definition kid (n : node) (i : nat) : node := nth i (n_kids n) nnone.

(* replace the i-th child *)
Fixpoint set_nth {X} (i : nat) (x : X) (l : list X) : list X :=
  match i with
  | O => match l with [] => [] | _ :: r => x :: r end
  | S j => match l with [] => [] | y :: r => y :: set_nth j x r end
  end.
Definition set_kid (n : node) (i : nat) (k : node) : node :=
  match n with Nd t ps ats d ks => Nd t ps ats d (set_nth i k ks) end.
Definition set_ps (n : node) (ps : list A) : node :=
  match n with Nd t _ ats d ks => Nd t ps ats d ks end.
Definition set_ats (n : node) (ats : list attr) : node :=
  match n with Nd t ps _ d ks => Nd t ps ats d ks end.
Definition set_docs (n : node) (d : list C) : node :=
  match n with Nd t ps ats _ ks => Nd t ps ats d ks end.

End Node.

Arguments Nd {A C}.
Arguments n_tag {A C}.
Arguments n_ps {A C}.
Arguments n_ats {A C}.
Arguments n_docs {A C}.
Arguments n_kids {A C}.
Arguments is_tag {A C}.
Arguments nnone {A C}.
Arguments nlist {A C}.
Arguments nopt {A C}.
Arguments npos {A C}.
Arguments kid {A C}.
Arguments set_kid {A C}.
Arguments set_ps {A C}.
Arguments set_ats {A C}.
Arguments set_docs {A C}.

(* ------------------------------------------------------------ generic traversals *)

Section Maps.
Variables (A C A' C' : Type) (fa : A -> A') (fc : C -> C').
Fixpoint nmap (n : node A C) : node A' C' :=
  match n with
  | Nd t ps ats d ks => Nd t (map fa ps) ats (map fc d) (map nmap ks)
  end.
End Maps.
Arguments nmap {A C A' C'}.

(* erase positions and documentation: the SHAPE of a tree *)
Definition erase {A C} (n : node A C) : node unit unit :=
  nmap (fun _ => tt) (fun _ => tt) n.

Section Size.
Variables (A C : Type).
Fixpoint nsize (n : node A C) : nat :=
  match n with
  | Nd _ _ _ _ ks => S (fold_right (fun k acc => (nsize k + acc)%nat) 0%nat ks)
  end.
(* nesting depth *)
Fixpoint ndepth (n : node A C) : nat :=
  match n with
  | Nd _ _ _ _ ks => S (fold_right (fun k acc => Nat.max (ndepth k) acc) 0%nat ks)
  end.
End Size.
Arguments nsize {A C}.
Arguments ndepth {A C}.
