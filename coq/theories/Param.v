(* Free theorems of the polymorphic parser core (Paramcoq).  The binary
   parametricity translation of [parse_file] / [entry_expression] /
   [entry_stmt] / [parsers_at] is generated and re-checked by the kernel
   ("Closed under the global context"); below it is specialised to
   - the TOTAL relation on positions, comment groups, comment state, docs,
     comments and scanner errors: the result's shape and accept/reject decision
     depend on the token sequence only (C13, and the last clause of C08);
   - the SHIFT relation b = a + k on positions: parsing a stream whose
     positions are shifted gives the shifted tree (C15). *)
From Param Require Import Param.
From Coq Require Import List NArith Bool Arith Lia.
From GoSyn Require Import Token Tok Ast Core ParamGen.
Import ListNotations.

(* ------------------------------------------------------------ relations on data = equality *)

Lemma positive_R_eq p q : positive_R p q -> p = q.
Proof. induction 1; congruence. Qed.
Fixpoint positive_R_refl (p : positive) : positive_R p p :=
  match p with
  | xI q => positive_R_xI_R _ _ (positive_R_refl q)
  | xO q => positive_R_xO_R _ _ (positive_R_refl q)
  | xH => positive_R_xH_R
  end.
Lemma N_R_eq a b : N_R a b -> a = b.
Proof. destruct 1 as [|p q H]; [reflexivity|apply positive_R_eq in H; congruence]. Qed.
Definition N_R_refl (a : N) : N_R a a :=
  match a with N0 => N_R_N0_R | Npos p => N_R_Npos_R _ _ (positive_R_refl p) end.
Lemma nat_R_eq a b : nat_R a b -> a = b.
Proof. induction 1; congruence. Qed.
Fixpoint nat_R_refl (n : nat) : nat_R n n :=
  match n with O => nat_R_O_R | S m => nat_R_S_R _ _ (nat_R_refl m) end.
Lemma bool_R_eq a b : bool_R a b -> a = b.
Proof. destruct 1; reflexivity. Qed.
Definition bool_R_refl (b : bool) : bool_R b b :=
  match b with true => bool_R_true_R | false => bool_R_false_R end.

Lemma list_R_eq {X} (XR : X -> X -> Type) (HX : forall x y, XR x y -> x = y) l1 l2 :
  list_R X X XR l1 l2 -> l1 = l2.
Proof. induction 1 as [|x y Hxy l1 l2 _ IH]; [reflexivity|]. apply HX in Hxy. congruence. Qed.
Fixpoint list_R_refl {X} (XR : X -> X -> Type) (HX : forall x, XR x x) (l : list X)
  : list_R X X XR l l :=
  match l with
  | [] => list_R_nil_R _ _ _
  | x :: r => list_R_cons_R _ _ _ _ _ (HX x) _ _ (list_R_refl XR HX r)
  end.

Lemma operator_R_eq a b : operator_R a b -> a = b. Proof. destruct 1; reflexivity. Qed.
Lemma operator_R_refl a : operator_R a a. Proof. destruct a; constructor. Qed.
Lemma keyword_R_eq a b : keyword_R a b -> a = b. Proof. destruct 1; reflexivity. Qed.
Lemma keyword_R_refl a : keyword_R a a. Proof. destruct a; constructor. Qed.
Lemma litkind_R_eq a b : litkind_R a b -> a = b. Proof. destruct 1; reflexivity. Qed.
Lemma litkind_R_refl a : litkind_R a a. Proof. destruct a; constructor. Qed.
Lemma tag_R_eq a b : tag_R a b -> a = b. Proof. destruct 1; reflexivity. Qed.

Lemma str_R_eq (a b : str) : list_R N N N_R a b -> a = b.
Proof. apply list_R_eq. exact N_R_eq. Qed.
Definition str_R_refl (a : str) : list_R N N N_R a a := list_R_refl N_R N_R_refl a.

Lemma token_R_eq a b : token_R a b -> a = b.
Proof.
  destruct 1 as [? ? H|? ? H|? ? H|? ? H1 ? ? H2].
  - apply str_R_eq in H; congruence.
  - apply keyword_R_eq in H; congruence.
  - apply operator_R_eq in H; congruence.
  - apply litkind_R_eq in H1. apply str_R_eq in H2. congruence.
Qed.
Definition token_R_refl (t : token) : token_R t t.
Proof.
  destruct t; constructor;
    first [apply str_R_refl | apply keyword_R_refl | apply operator_R_refl | apply litkind_R_refl].
Defined.

Lemma attr_R_eq a b : attr_R a b -> a = b.
Proof.
  destruct 1 as [? ? H|? ? H|? ? H|? ? H|? ? H|? ? H].
  - apply str_R_eq in H; congruence.
  - apply operator_R_eq in H; congruence.
  - apply keyword_R_eq in H; congruence.
  - apply litkind_R_eq in H; congruence.
  - apply bool_R_eq in H; congruence.
  - apply nat_R_eq in H; congruence.
Qed.

Lemma option_token_R_eq a b : option_R token token token_R a b -> a = b.
Proof. destruct 1 as [? ? H|]; [apply token_R_eq in H; congruence|reflexivity]. Qed.

(* ------------------------------------------------------------ total relation: shapes *)

Definition total {X Y : Type} : X -> Y -> Type := fun _ _ => True.

Lemma map_tt_R {X Y} (XR : X -> Y -> Type) l1 l2 :
  list_R X Y XR l1 l2 -> map (fun _ => tt) l1 = map (fun _ => tt) l2.
Proof. induction 1; simpl; congruence. Qed.

Fixpoint node_R_erase A1 A2 (AR : A1 -> A2 -> Type) C1 C2 (CR : C1 -> C2 -> Type)
         (n1 : node A1 C1) (n2 : node A2 C2) (H : node_R A1 A2 AR C1 C2 CR n1 n2) {struct H}
  : erase n1 = erase n2.
Proof.
  destruct H as [t1 t2 tR ps1 ps2 psR ats1 ats2 atsR d1 d2 dR k1 k2 kR].
  unfold erase. simpl.
  apply tag_R_eq in tR. apply (list_R_eq attr_R attr_R_eq) in atsR. subst.
  rewrite (map_tt_R _ _ _ psR), (map_tt_R _ _ _ dR).
  f_equal.
  revert k1 k2 kR.
  refine (fix go k1 k2 (r : list_R _ _ (node_R A1 A2 AR C1 C2 CR) k1 k2) {struct r} :
            map (nmap (fun _ => tt) (fun _ => tt)) k1 = map (nmap (fun _ => tt) (fun _ => tt)) k2 :=
            match r with
            | list_R_nil_R _ _ _ => eq_refl
            | list_R_cons_R _ _ _ x1 x2 xr l1 l2 lr => _
            end).
  simpl. f_equal.
  - exact (node_R_erase A1 A2 AR C1 C2 CR x1 x2 xr).
  - exact (go l1 l2 lr).
Qed.

(* what an outcome looks like when positions, comments and state are ignored *)
Inductive outcome : Type :=
| OOk (shape : node unit unit)
| OUnexpected (actual : option token)
| OElse
| OScan
| OPanic (site : nat)
| OFuel.

Definition outcome_of {A G D C E} (r : res A G D E (node A C)) : outcome :=
  match r with
  | Ok n _ => OOk (erase n)
  | Err (PUnexpected _ a _) _ => OUnexpected a
  | Err (PElse _ _) _ => OElse
  | Err (PScan _) _ => OScan
  | Panic n => OPanic n
  | Fuel => OFuel
  end.

Lemma res_R_outcome A1 A2 AR G1 G2 GR D1 D2 DR E1 E2 ER C1 C2 CR
      (r1 : res A1 G1 D1 E1 (node A1 C1)) (r2 : res A2 G2 D2 E2 (node A2 C2)) :
  res_R A1 A2 AR G1 G2 GR D1 D2 DR E1 E2 ER _ _ (node_R A1 A2 AR C1 C2 CR) r1 r2 ->
  outcome_of r1 = outcome_of r2.
Proof.
  destruct 1 as [x1 x2 xR s1 s2 _|e1 e2 eR s1 s2 _|n1 n2 nR|]; simpl.
  - f_equal. eapply node_R_erase; eauto.
  - destruct eR as [? ? _ a1 a2 aR ? ? _|? ? _ ? ? _|? ? _]; try reflexivity.
    apply option_token_R_eq in aR. congruence.
  - apply nat_R_eq in nR. congruence.
  - reflexivity.
Qed.

(* the token content of a state: everything the core is allowed to look at *)
Definition elem_tok {A G} (e : selem A G) : token := match e with SE _ _ t _ => t end.
Definition term_is_eof {A G E} (t : sterm A G E) : bool :=
  match t with TEof _ _ => true | TErr _ _ => false end.

Record same_tokens {A1 G1 D1 E1 A2 G2 D2 E2}
       (s1 : pstate A1 G1 D1 E1) (s2 : pstate A2 G2 D2 E2) : Prop := {
  st_cur : option_map snd (s_cur _ _ _ _ s1) = option_map snd (s_cur _ _ _ _ s2);
  st_rest : map elem_tok (s_rest _ _ _ _ s1) = map elem_tok (s_rest _ _ _ _ s2);
  st_mark : map elem_tok (s_mark _ _ _ _ s1) = map elem_tok (s_mark _ _ _ _ s2);
  st_term : term_is_eof (s_term _ _ _ _ s1) = term_is_eof (s_term _ _ _ _ s2);
  st_lp : s_lp _ _ _ _ s1 = s_lp _ _ _ _ s2;
  st_ln : s_ln _ _ _ _ s1 = s_ln _ _ _ _ s2;
  st_started : s_started _ _ _ _ s1 = s_started _ _ _ _ s2;
  st_depth : s_depth _ _ _ _ s1 = s_depth _ _ _ _ s2
}.

Fixpoint elems_R_total {A1 G1 A2 G2} (l1 : list (selem A1 G1)) (l2 : list (selem A2 G2))
  : map elem_tok l1 = map elem_tok l2 ->
    list_R _ _ (selem_R A1 A2 total G1 G2 total) l1 l2.
Proof.
  destruct l1 as [|[a0 a1 t g] r1], l2 as [|[b0 b1 t' g'] r2]; simpl; intro H;
    try discriminate.
  - constructor.
  - injection H as Ht Hr. subst t'. constructor.
    + constructor; try exact I. apply token_R_refl.
    + apply elems_R_total. exact Hr.
Defined.

Lemma same_tokens_R {A1 G1 D1 E1 A2 G2 D2 E2}
      (s1 : pstate A1 G1 D1 E1) (s2 : pstate A2 G2 D2 E2) :
  same_tokens s1 s2 ->
  pstate_R A1 A2 total G1 G2 total D1 D2 total E1 E2 total s1 s2.
Proof.
  intros [Hc Hr Hm Ht Hlp Hln Hs Hd].
  destruct s1 as [c1 r1 m1 t1 p1 lp1 ln1 d1 st1 dp1], s2 as [c2 r2 m2 t2 p2 lp2 ln2 d2 st2 dp2].
  simpl in *. subst. constructor; try exact I.
  - destruct c1 as [[a t]|], c2 as [[b t']|]; simpl in Hc; try discriminate.
    + injection Hc as ->. constructor. constructor; [exact I|apply token_R_refl].
    + constructor.
  - apply elems_R_total; assumption.
  - apply elems_R_total; assumption.
  - destruct t1, t2; simpl in Ht; try discriminate; constructor; exact I.
  - apply nat_R_refl.
  - apply nat_R_refl.
  - apply bool_R_refl.
  - apply nat_R_refl.
Qed.

(* any two operation records are related by the total relation *)
Lemma ops_R_total {A1 G1 D1 C1 A2 G2 D2 C2}
      (O1 : ops A1 G1 D1 C1) (O2 : ops A2 G2 D2 C2) :
  ops_R A1 A2 total G1 G2 total D1 D2 total C1 C2 total O1 O2.
Proof.
  destruct O1, O2. constructor; unfold total; intros; try exact I.
  - match goal with |- prod_R _ _ _ _ _ _ ?x ?y => destruct x, y end. constructor; exact I.
  - match goal with |- prod_R _ _ _ _ _ _ ?x ?y => destruct x as [[? ?] ?], y as [[? ?] ?] end.
    repeat constructor.
Qed.

(* ------------------------------------------------------------ C13: layout freedom *)

Section Layout.
Context {A1 G1 D1 C1 E1 A2 G2 D2 C2 E2 : Type}.
Variables (O1 : ops A1 G1 D1 C1) (O2 : ops A2 G2 D2 C2).

Lemma parsers_total d :
  parsers_R A1 A2 total G1 G2 total D1 D2 total C1 C2 total E1 E2 total
            (parsers_at A1 G1 D1 C1 E1 O1 d) (parsers_at A2 G2 D2 C2 E2 O2 d).
Proof. apply parsers_at_R; [apply ops_R_total|apply nat_R_refl]. Qed.

Theorem layout_free_file d s1 s2 :
  same_tokens s1 s2 ->
  outcome_of (parse_file A1 G1 D1 C1 E1 O1 (parsers_at A1 G1 D1 C1 E1 O1 d) s1) =
  outcome_of (parse_file A2 G2 D2 C2 E2 O2 (parsers_at A2 G2 D2 C2 E2 O2 d) s2).
Proof.
  intro H. eapply res_R_outcome.
  apply parse_file_R; [apply ops_R_total|apply parsers_total|apply same_tokens_R; exact H].
Qed.

Theorem layout_free_expression d s1 s2 :
  same_tokens s1 s2 ->
  outcome_of (entry_expression A1 G1 D1 C1 E1 O1 (parsers_at A1 G1 D1 C1 E1 O1 d) s1) =
  outcome_of (entry_expression A2 G2 D2 C2 E2 O2 (parsers_at A2 G2 D2 C2 E2 O2 d) s2).
Proof.
  intro H. eapply res_R_outcome.
  apply entry_expression_R; [apply ops_R_total|apply parsers_total|apply same_tokens_R; exact H].
Qed.

Theorem layout_free_stmt d s1 s2 :
  same_tokens s1 s2 ->
  outcome_of (entry_stmt A1 G1 D1 C1 E1 O1 (parsers_at A1 G1 D1 C1 E1 O1 d) s1) =
  outcome_of (entry_stmt A2 G2 D2 C2 E2 O2 (parsers_at A2 G2 D2 C2 E2 O2 d) s2).
Proof.
  intro H. eapply res_R_outcome.
  apply entry_stmt_R; [apply ops_R_total|apply parsers_total|apply same_tokens_R; exact H].
Qed.

(* the state after a run is again related: repeated entry-point calls stay in step *)
Theorem layout_free_stmt_state d s1 s2 :
  pstate_R A1 A2 total G1 G2 total D1 D2 total E1 E2 total s1 s2 ->
  res_R A1 A2 total G1 G2 total D1 D2 total E1 E2 total _ _ (node_R A1 A2 total C1 C2 total)
        (entry_stmt A1 G1 D1 C1 E1 O1 (parsers_at A1 G1 D1 C1 E1 O1 d) s1)
        (entry_stmt A2 G2 D2 C2 E2 O2 (parsers_at A2 G2 D2 C2 E2 O2 d) s2).
Proof.
  intro H. apply entry_stmt_R; [apply ops_R_total|apply parsers_total|exact H].
Qed.

End Layout.

(* ------------------------------------------------------------ C15 / C05: relations on positions *)

(* [posrel P Q a b]: the two runs see positions related by Q, and the first one's satisfy P *)
Section PosRel.
Context {G1 D1 C1 E1 G2 D2 C2 E2 : Type}.
Variable AR : N -> N -> Type.
Variables (O1 : ops N G1 D1 C1) (O2 : ops N G2 D2 C2).
Hypothesis plus2_R : forall a b, AR a b -> AR (a_plus2 _ _ _ _ O1 a) (a_plus2 _ _ _ _ O2 b).

Lemma ops_R_pos : ops_R N N AR G1 G2 total D1 D2 total C1 C2 total O1 O2.
Proof.
  destruct O1, O2. constructor; unfold total; intros; try exact I.
  - match goal with |- prod_R _ _ _ _ _ _ ?x ?y => destruct x, y end. constructor; exact I.
  - match goal with |- prod_R _ _ _ _ _ _ ?x ?y => destruct x as [[? ?] ?], y as [[? ?] ?] end.
    repeat constructor.
  - apply plus2_R. assumption.
Qed.

Theorem pos_free_file d s1 s2 :
  pstate_R N N AR G1 G2 total D1 D2 total E1 E2 total s1 s2 ->
  res_R N N AR G1 G2 total D1 D2 total E1 E2 total _ _ (node_R N N AR C1 C2 total)
        (parse_file N G1 D1 C1 E1 O1 (parsers_at N G1 D1 C1 E1 O1 d) s1)
        (parse_file N G2 D2 C2 E2 O2 (parsers_at N G2 D2 C2 E2 O2 d) s2).
Proof.
  intro H. apply parse_file_R; [apply ops_R_pos| |exact H].
  apply parsers_at_R; [apply ops_R_pos|apply nat_R_refl].
Qed.

Theorem pos_free_expression d s1 s2 :
  pstate_R N N AR G1 G2 total D1 D2 total E1 E2 total s1 s2 ->
  res_R N N AR G1 G2 total D1 D2 total E1 E2 total _ _ (node_R N N AR C1 C2 total)
        (entry_expression N G1 D1 C1 E1 O1 (parsers_at N G1 D1 C1 E1 O1 d) s1)
        (entry_expression N G2 D2 C2 E2 O2 (parsers_at N G2 D2 C2 E2 O2 d) s2).
Proof.
  intro H. apply entry_expression_R; [apply ops_R_pos| |exact H].
  apply parsers_at_R; [apply ops_R_pos|apply nat_R_refl].
Qed.

Theorem pos_free_stmt d s1 s2 :
  pstate_R N N AR G1 G2 total D1 D2 total E1 E2 total s1 s2 ->
  res_R N N AR G1 G2 total D1 D2 total E1 E2 total _ _ (node_R N N AR C1 C2 total)
        (entry_stmt N G1 D1 C1 E1 O1 (parsers_at N G1 D1 C1 E1 O1 d) s1)
        (entry_stmt N G2 D2 C2 E2 O2 (parsers_at N G2 D2 C2 E2 O2 d) s2).
Proof.
  intro H. apply entry_stmt_R; [apply ops_R_pos| |exact H].
  apply parsers_at_R; [apply ops_R_pos|apply nat_R_refl].
Qed.

End PosRel.

(* all positions of a tree, in traversal order *)
Fixpoint positions {C} (n : node N C) : list N :=
  match n with
  | Nd _ ps _ _ ks => ps ++ flat_map positions ks
  end.

Lemma list_R_app {X Y} (R : X -> Y -> Type) a1 a2 b1 b2 :
  list_R X Y R a1 a2 -> list_R X Y R b1 b2 -> list_R X Y R (a1 ++ b1) (a2 ++ b2).
Proof. induction 1; simpl; [auto|]. intro. constructor; auto. Qed.

Fixpoint node_R_positions {C1 C2} (AR : N -> N -> Type) (CR : C1 -> C2 -> Type)
      (n1 : node N C1) (n2 : node N C2) (H : node_R N N AR C1 C2 CR n1 n2) {struct H} :
  list_R N N AR (positions n1) (positions n2).
Proof.
  destruct H as [t1 t2 tR ps1 ps2 psR ats1 ats2 atsR d1 d2 dR k1 k2 kR].
  cbn [positions]. apply list_R_app; [exact psR|].
  revert k1 k2 kR.
  refine (fix go k1 k2 (r : list_R _ _ (node_R N N AR C1 C2 CR) k1 k2) {struct r} :
            list_R N N AR (flat_map positions k1) (flat_map positions k2) :=
            match r with
            | list_R_nil_R _ _ _ => list_R_nil_R _ _ _
            | list_R_cons_R _ _ _ x1 x2 xr l1 l2 lr => _
            end).
  cbn [flat_map]. apply list_R_app.
  - exact (node_R_positions C1 C2 AR CR x1 x2 xr).
  - exact (go l1 l2 lr).
Qed.

(* positions of a parser state: everything a production can put into a tree *)
Definition elem_positions {G} (e : selem N G) : list N := match e with SE a0 a1 _ _ => [a0; a1] end.
Definition state_positions {G D E} (s : pstate N G D E) : list N :=
  s_spos _ _ _ _ s ::
  match s_cur _ _ _ _ s with Some (p, _) => [p] | None => [] end ++
  flat_map elem_positions (s_rest _ _ _ _ s) ++ flat_map elem_positions (s_mark _ _ _ _ s) ++
  match s_term _ _ _ _ s with TEof a _ => [a] | TErr _ _ => [] end.

Lemma list_R_diag {X} (P : X -> Prop) (l : list X) :
  (forall x, In x l -> P x) -> list_R X X (fun a b => ((a = b) * P a)%type) l l.
Proof.
  induction l as [|x l IH]; intro H; constructor.
  - split; [reflexivity|apply H; left; reflexivity].
  - apply IH. intros y Hy. apply H. right. exact Hy.
Qed.

Lemma list_R_diag_inv {X} (P : X -> Prop) (l1 l2 : list X) :
  list_R X X (fun a b => ((a = b) * P a)%type) l1 l2 -> l1 = l2 /\ Forall P l1.
Proof.
  induction 1 as [|x y [Hxy Hp] l1 l2 _ [IH1 IH2]]; [split; [reflexivity|constructor]|].
  subst. split; [reflexivity|constructor; assumption].
Qed.
