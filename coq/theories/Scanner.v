(* Executable model of src/scanner.rs (after the fix: commits listed in
   KNOWN_FINDINGS.json).  Same phases, same order of tests as the Rust code.
   Positions are char indices (N); [rest] is the suffix of the char vector
   that starts at the scanner position. *)
From Coq Require Import List NArith Bool Lia.
From GoSyn Require Import Token Tok.
Import ListNotations.
Open Scope N_scope.

(* ------------------------------------------------------------ error kinds *)
(* Only used to tell errors apart in the correspondence; wording is not modelled. *)
Inductive serr : Set :=
| SE_unresolved_char          (* "unresolved character" *)
| SE_comment_not_terminated
| SE_rune_illegal             (* must_be: invalid digit in an escape *)
| SE_lit_not_terminated
| SE_unknown_escape
| SE_unexpected_char          (* raw newline inside rune / interpreted string *)
| SE_invalid_code_point
| SE_rune_empty               (* ''' or '' *)
| SE_rune_expect_term
| SE_rune_not_term
| SE_string_not_terminated
| SE_num_separator
| SE_num_radix_point
| SE_num_no_digits
| SE_num_e_exponent
| SE_num_p_exponent
| SE_num_hex_no_exponent
| SE_num_exp_separator
| SE_num_exp_no_digits
| SE_num_octal_digit
| SE_fuel.                    (* model-only: a fuelled loop ran out (excluded by lemmas) *)

Definition sres (X : Type) : Type := (X + (N * serr))%type.  (* error: offset from token start *)

(* ------------------------------------------------------------ comments, identifiers *)

Fixpoint take_until_nl (l : str) : str :=
  match l with
  | [] => []
  | c :: l' => if c =? c_nl then [] else c :: take_until_nl l'
  end.

(* [l] is the text after the opening "/*"; result: body including the closing "*/" *)
Fixpoint gc_body (l : str) : option str :=
  match l with
  | [] => None
  | c :: l' =>
      match l' with
      | c2 :: _ =>
          if (c =? c_star) && (c2 =? c_slash) then Some [c; c2]
          else option_map (cons c) (gc_body l')
      | [] => None
      end
  end.

Fixpoint take_while (p : N -> bool) (l : str) : str :=
  match l with
  | [] => []
  | c :: l' => if p c then c :: take_while p l' else []
  end.

(* ------------------------------------------------------------ digits *)

(* scan_digits / scan_digits2: digits with single '_' separators; [underline]
   is the Rust variable of that name (true = the previous char was not '_') *)
Fixpoint scan_digits (valid : N -> bool) (underline : bool) (l : str) : str :=
  match l with
  | [] => []
  | c :: l' =>
      if ((c =? c_under) && negb underline) || (negb (c =? c_under) && negb (valid c))
      then []
      else c :: scan_digits valid (negb (c =? c_under)) l'
  end.

Inductive radix : Set := R2 | R8 | R10 | R16.

Definition radix_eqb (a b : radix) : bool :=
  match a, b with
  | R2, R2 | R8, R8 | R10, R10 | R16, R16 => true
  | _, _ => false
  end.

Definition is_e (c : option N) : bool :=
  match c with Some c => (c =? 101) || (c =? 69) | None => false end.
Definition is_p (c : option N) : bool :=
  match c with Some c => (c =? 112) || (c =? 80) | None => false end.
Definition is_sign (c : option N) : bool :=
  match c with Some c => (c =? c_plus) || (c =? c_minus) | None => false end.

Definition nth_c (l : str) (i : nat) : option N := nth_error l i.

(* scan_lit_number: [l] starts at the literal.  Returns kind and text. *)
Definition scan_lit_number (l : str) : sres (litkind * str) :=
  (* integer part *)
  let '(rdx, numlit) :=
    match l with
    | [] => (R10, [])
    | c0 :: _ =>
        if c0 =? c_dot then (R10, [])
        else
          let next2 := firstn 2 l in
          if str_eqb next2 [48; 98] || str_eqb next2 [48; 66]
          then (R2, next2 ++ scan_digits is_binary_digit true (skipn 2 l))
          else if str_eqb next2 [48; 111] || str_eqb next2 [48; 79]
          then (R8, next2 ++ scan_digits is_octal_digit true (skipn 2 l))
          else if str_eqb next2 [48; 120] || str_eqb next2 [48; 88]
          then (R16, next2 ++ scan_digits is_hex_digit true (skipn 2 l))
          else (R10, scan_digits is_decimal_digit true l)
    end in
  if last_is c_under numlit then inr (lenN numlit, SE_num_separator) else
  let fac_start := length numlit in
  let has_dot := match nth_c l fac_start with Some c => c =? c_dot | None => false end in
  if has_dot && (radix_eqb rdx R2 || radix_eqb rdx R8)
  then inr (N.of_nat fac_start, SE_num_radix_point) else
  let fac_part :=
    if has_dot then
      c_dot :: scan_digits (if radix_eqb rdx R16 then is_hex_digit else is_decimal_digit)
                 true (skipn (S fac_start) l)
    else [] in
  if starts_with [c_dot; c_under] fac_part || last_is c_under fac_part
  then inr (N.of_nat fac_start, SE_num_separator) else
  let mant := numlit ++ fac_part in
  let skipped := length mant in
  let next1 := nth_c l skipped in
  match mant with
  | [] => inr (N.of_nat skipped, SE_num_radix_point)
  | _ =>
  if negb (radix_eqb rdx R10) && Nat.eqb fac_start 2 && Nat.leb (length fac_part) 1
  then inr (N.of_nat skipped, SE_num_no_digits)
  else if negb (radix_eqb rdx R10) && is_e next1
  then inr (N.of_nat skipped, SE_num_e_exponent)
  else if negb (radix_eqb rdx R16) && is_p next1
  then inr (N.of_nat skipped, SE_num_p_exponent)
  else
  let exp_part :=
    if is_e next1 || is_p next1 then
      match next1 with
      | Some e =>
          let sgn := nth_c l (S skipped) in
          let sg := if is_sign sgn then match sgn with Some s => [s] | None => [] end else [] in
          let digs := scan_digits is_decimal_digit true (skipn (S skipped + length sg) l) in
          e :: sg ++ digs
      | None => []
      end
    else [] in
  let exp_digs := match exp_part with
                  | _ :: r => match r with
                              | s :: r' => if is_sign (Some s) then r' else r
                              | [] => []
                              end
                  | [] => []
                  end in
  let exp_len := N.of_nat (skipped + length exp_part) in
  if radix_eqb rdx R16 && negb (Nat.eqb (length fac_part) 0) && Nat.eqb (length exp_part) 0
  then inr (N.of_nat skipped, SE_num_hex_no_exponent)
  else if starts_with [c_under] exp_digs || last_is c_under exp_part
  then inr (exp_len, SE_num_exp_separator)
  else if negb (Nat.eqb (length exp_part) 0) &&
          negb (match rev exp_part with c :: _ => is_decimal_digit c | [] => false end)
  then inr (exp_len, SE_num_exp_no_digits)
  else
  let full := mant ++ exp_part in
  let char_count := length full in
  if match nth_c l char_count with Some c => c =? 105 | None => false end
  then inl (LImag, full ++ [105])
  else if contains c_dot full || negb (Nat.eqb (length exp_part) 0)
  then inl (LFloat, full)
  else if radix_eqb rdx R10 && Nat.ltb 1 (length full) && starts_with [c_0] full &&
          (contains 56 full || contains 57 full)
  then inr (N.of_nat char_count, SE_num_octal_digit)
  else inl (LInteger, full)
  end.

(* ------------------------------------------------------------ runes and strings *)

Fixpoint match_n (n : nat) (valid : N -> bool) (l : str) : str + serr :=
  match n with
  | O => inl []
  | S n' =>
      match l with
      | [] => inr SE_lit_not_terminated
      | c :: l' =>
          if valid c then
            match match_n n' valid l' with
            | inl r => inl (c :: r)
            | inr e => inr e
            end
          else inr SE_rune_illegal
      end
  end.

Definition hex_val (c : N) : N :=
  if is_decimal_digit c then c - 48
  else if (97 <=? c) && (c <=? 102) then c - 87
  else c - 55.

Definition digits_value (base : N) (ds : str) : N :=
  fold_left (fun acc c => acc * base + hex_val c) ds 0.

(* char::from_u32 succeeds: a Unicode scalar value *)
Definition valid_scalar (v : N) : bool :=
  (v <=? 1114111) && negb ((55296 <=? v) && (v <=? 57343)).

(* scan_rune(start_at, quote): [l] starts at start_at.  All its errors are
   reported at the token start, so no offset is returned. *)
Definition scan_rune (quote : N) (l : str) : str + serr :=
  match l with
  | [] => inr SE_lit_not_terminated
  | c1 :: l1 =>
      if c1 =? c_backslash then
        match l1 with
        | [] => inr SE_lit_not_terminated
        | c2 :: l2 =>
            let esc (n : nat) (valid : N -> bool) (base : N) (pre : str) :=
              match match_n n valid l2 with
              | inr e => inr e
              | inl ds =>
                  let v := digits_value base (pre ++ ds) in
                  if valid_scalar v && (negb (base =? 8) || (v <=? 255))
                  then inl (c1 :: c2 :: ds)
                  else inr SE_invalid_code_point
              end in
            if c2 =? 120 then esc 2%nat is_hex_digit 16 []
            else if c2 =? 117 then esc 4%nat is_hex_digit 16 []
            else if c2 =? 85 then esc 8%nat is_hex_digit 16 []
            else if is_octal_digit c2 then esc 2%nat is_octal_digit 8 [c2]
            else if is_escaped_char c2 &&
                    (negb ((c2 =? c_squote) || (c2 =? c_dquote)) || (c2 =? quote))
            then inl [c1; c2]
            else inr SE_unknown_escape
        end
      else if is_unicode_char c1 then inl [c1]
      else inr SE_unexpected_char
  end.

(* [l] starts with the opening single quote *)
Definition scan_lit_rune (l : str) : sres str :=
  match scan_rune c_squote (tl l) with
  | inr e => inr (0, e)
  | inl rune =>
      if str_eqb rune [c_squote] then inr (0, SE_rune_empty)
      else
        match nth_c l (S (length rune)) with
        | Some c => if c =? c_squote then inl (c_squote :: rune ++ [c_squote])
                    else inr (0, SE_rune_expect_term)
        | None => inr (0, SE_rune_not_term)
        end
  end.

Fixpoint raw_body (l : str) : option str :=
  match l with
  | [] => None
  | c :: l' => if c =? c_bquote then Some [c] else option_map (cons c) (raw_body l')
  end.

(* interpreted string body; [l] starts after the opening quote.
   inl body (including the closing quote) | inr (None = ran off the end, Some e = rune error) *)
Fixpoint istr_body (fuel : nat) (l : str) : str + option serr :=
  match fuel with
  | O => inr (Some SE_fuel)
  | S f =>
      match l with
      | [] => inr None
      | _ =>
          match scan_rune c_dquote l with
          | inr e => inr (Some e)
          | inl r =>
              if str_eqb r [c_dquote] then inl r
              else
                match istr_body f (skipn (length r) l) with
                | inl b => inl (r ++ b)
                | inr e => inr e
                end
          end
      end
  end.

(* [l] starts with the opening quote (double quote or back quote) *)
Definition scan_lit_string (l : str) : sres str :=
  match l with
  | [] => inr (0, SE_string_not_terminated)
  | q :: l' =>
      if q =? c_bquote then
        match raw_body l' with
        | Some b => inl (q :: b)
        | None => inr (0, SE_string_not_terminated)
        end
      else
        match istr_body (S (length l')) l' with
        | inl b => inl (q :: b)
        | inr None => inr (0, SE_string_not_terminated)
        | inr (Some e) => inr (0, e)
        end
  end.

(* ------------------------------------------------------------ scan_token *)

Section WithClasses.
Variable U : uclass.

Definition ident_char (c : N) : bool := is_letter U c || is_unicode_digit U c.

(* [l] is not empty (caller skipped white space and checked for EOF) *)
Definition scan_token (l : str) : sres (token * N) :=
  match op_of_str (firstn 3 l) with
  | Some op => inl (TOperator op, lenN (op_str op))
  | None =>
      let two := firstn 2 l in
      if str_eqb two [c_slash; c_slash] then
        let c := take_until_nl l in inl (TComment c, lenN c)
      else if str_eqb two [c_slash; c_star] then
        match gc_body (skipn 2 l) with
        | Some b => let c := c_slash :: c_star :: b in inl (TComment c, lenN c)
        | None => inr (0, SE_comment_not_terminated)
        end
      else
        match op_of_str two with
        | Some op => inl (TOperator op, lenN (op_str op))
        | None =>
            match l with
            | [] => inr (0, SE_fuel)   (* next_char(0).unwrap(): excluded by the caller *)
            | c0 :: l1 =>
                let next1_is_digit :=
                  match l1 with c1 :: _ => is_decimal_digit c1 | [] => false end in
                if is_decimal_digit c0 || ((c0 =? c_dot) && next1_is_digit) then
                  match scan_lit_number l with
                  | inl (k, s) => inl (TLiteral k s, lenN s)
                  | inr e => inr e
                  end
                else if c0 =? c_squote then
                  match scan_lit_rune l with
                  | inl s => inl (TLiteral LChar s, lenN s)
                  | inr e => inr e
                  end
                else if (c0 =? c_dquote) || (c0 =? c_bquote) then
                  match scan_lit_string l with
                  | inl s => inl (TLiteral LString s, lenN s)
                  | inr e => inr e
                  end
                else if is_letter U c0 then
                  let id := take_while ident_char l in
                  match kw_of_str id with
                  | Some k => inl (TKeyword k, lenN id)
                  | None => inl (TLiteral LIdent id, lenN id)
                  end
                else
                  match op_of_str [c0] with
                  | Some op => inl (TOperator op, lenN (op_str op))
                  | None => inr (0, SE_unresolved_char)
                  end
            end
        end
  end.

(* ------------------------------------------------------------ semicolons *)

(* try_insert_semicolon; the crate lists Keyword::Package too (known finding KF-5,
   pinned by the unit test parse_package) *)
Definition semi_trigger (t : token) : bool :=
  match t with
  | TLiteral _ _ => true
  | TOperator OInc | TOperator ODec
  | TOperator OParenRight | TOperator OBraceRight | TOperator OBarackRight => true
  | TKeyword KBreak | TKeyword KReturn | TKeyword KContinue | TKeyword KFallThrough => true
  | TKeyword KPackage => true
  | _ => false
  end.

Fixpoint line_ended (l : str) : bool :=
  match l with
  | [] => true
  | c :: l' =>
      if c =? c_nl then true
      else if is_whitespace U c then line_ended l'
      else if c =? c_slash then
        match l' with
        | c2 :: l'' =>
            if c2 =? c_slash then true
            else if c2 =? c_star then le_comment l''
            else false
        | [] => false
        end
      else false
  end
with le_comment (l : str) : bool :=
  match l with
  | [] => true
  | c :: l' =>
      if c =? c_nl then true
      else if c =? c_star then
        match l' with
        | c2 :: l'' => if c2 =? c_slash then line_ended l'' else le_comment l'
        | [] => true
        end
      else le_comment l'
  end.

(* ------------------------------------------------------------ line table *)

(* newest entry first; add_line keeps the table strictly increasing *)
Definition add_line (ls : list N) (x : N) : list N :=
  match ls with
  | [] => [x]
  | y :: _ => if y <? x then x :: ls else ls
  end.

Fixpoint cross_lines (pos : N) (text : str) (ls : list N) : list N :=
  match text with
  | [] => ls
  | c :: t => cross_lines (pos + 1) t (if c =? c_nl then add_line ls (pos + 1) else ls)
  end.

Definition add_token_cross_line (pos : N) (t : token) (ls : list N) : list N :=
  match t with
  | TComment s | TLiteral _ s => cross_lines pos s ls
  | _ => ls
  end.

(* Scanner::line_info over an ascending table (binary search on a strictly
   sorted vector = number of entries below [pos]) *)
Definition line_info (lines : list N) (pos : N) : N * N :=
  let below := filter (fun x => x <? pos) lines in
  if existsb (N.eqb pos) lines then (lenN below + 1, 0)
  else
    match rev below with
    | [] => (1, pos)
    | x :: _ => (lenN below, pos - x)
    end.

(* ------------------------------------------------------------ next_token *)

Record sstate : Type := {
  s_pos : N;
  s_rest : str;
  s_semi : bool;
  s_lines : list N      (* newest first *)
}.

Definition init_state (src : str) : sstate :=
  {| s_pos := 0; s_rest := src; s_semi := false; s_lines := [] |}.

Fixpoint skip_ws (pos : N) (l : str) (ls : list N) : N * str * list N :=
  match l with
  | c :: l' =>
      if is_whitespace U c
      then skip_ws (pos + 1) l' (if c =? c_nl then add_line ls (pos + 1) else ls)
      else (pos, l, ls)
  | [] => (pos, [], ls)
  end.

Inductive step_result : Type :=
| SR_tok (p : N) (t : token) (s' : sstate)
| SR_eof (s' : sstate)
| SR_err (p : N) (k : serr) (s' : sstate).

Definition next_token (s : sstate) : step_result :=
  if s_semi s && line_ended (s_rest s) then
    SR_tok (s_pos s) (TOperator OSemiColon)
      {| s_pos := s_pos s; s_rest := s_rest s; s_semi := false; s_lines := s_lines s |}
  else
    let '(pos, l, ls) := skip_ws (s_pos s) (s_rest s) (s_lines s) in
    match l with
    | [] => SR_eof {| s_pos := pos; s_rest := []; s_semi := false; s_lines := ls |}
    | _ =>
        match scan_token l with
        | inr (off, k) =>
            SR_err (pos + off) k {| s_pos := pos; s_rest := l; s_semi := false; s_lines := ls |}
        | inl (tok, cnt) =>
            SR_tok pos tok
              {| s_pos := pos + cnt;
                 s_rest := skipn (N.to_nat cnt) l;
                 s_semi := semi_trigger tok;
                 s_lines := add_token_cross_line pos tok ls |}
        end
    end.

(* the raw token stream: what repeated next_token calls return *)
Inductive scan_end : Type :=
| SE_Eof (s : sstate)
| SE_Err (p : N) (k : serr) (s : sstate)
| SE_Fuel.

Fixpoint scan_loop (fuel : nat) (s : sstate) : list (N * token) * scan_end :=
  match fuel with
  | O => ([], SE_Fuel)
  | S f =>
      match next_token s with
      | SR_tok p t s' => let '(ts, e) := scan_loop f s' in ((p, t) :: ts, e)
      | SR_eof s' => ([], SE_Eof s')
      | SR_err p k s' => ([], SE_Err p k s')
      end
  end.

Definition scan_all (src : str) : list (N * token) * scan_end :=
  scan_loop (2 * length src + 2) (init_state src).

End WithClasses.

(* the raw token stream with the scanner position after each token (a synthetic
   ';' does not move the scanner) *)
Section Ext.
Variable U : uclass.
Fixpoint scan_loop_ext (fuel : nat) (s : sstate) : list (N * token * N) * scan_end :=
  match fuel with
  | O => ([], SE_Fuel)
  | S f =>
      match next_token U s with
      | SR_tok p t s' => let '(ts, e) := scan_loop_ext f s' in ((p, t, s_pos s') :: ts, e)
      | SR_eof s' => ([], SE_Eof s')
      | SR_err p k s' => ([], SE_Err p k s')
      end
  end.
Definition scan_all_ext (src : str) : list (N * token * N) * scan_end :=
  scan_loop_ext (2 * length src + 2) (init_state src).
End Ext.
