(* Byte-level model of Scanner::next_nstr (the crate's only unchecked
   conversion, `std::str::from_utf8_unchecked`): `indices` are the byte offsets
   of the characters, the slice runs from indices[pos] to indices[pos+n] (or the
   end of the source).  Theorem: the slice is exactly the UTF-8 encoding of the
   n characters at pos (fewer at the end of input), hence valid UTF-8, and it is
   the string [firstn n rest] that the scanner model works with. *)
From Coq Require Import List Arith NArith Bool Lia.
From GoSyn Require Import Token Tok.
Import ListNotations.
Open Scope N_scope.

Definition utf8_enc (c : N) : list N :=
  if c <? 128 then [c]
  else if c <? 2048 then [192 + c / 64; 128 + c mod 64]
  else if c <? 65536 then [224 + c / 4096; 128 + (c / 64) mod 64; 128 + c mod 64]
  else [240 + c / 262144; 128 + (c / 4096) mod 64; 128 + (c / 64) mod 64; 128 + c mod 64].

Definition utf8 (s : str) : list N := flat_map utf8_enc s.

(* Vec<usize> `indices` of the Rust scanner: byte offset of every character *)
Fixpoint boffs (off : nat) (s : str) : list nat :=
  match s with
  | [] => []
  | c :: r => off :: boffs (off + length (utf8_enc c)) r
  end.

Definition blen (s : str) : nat := length (utf8 s).

(* next_nstr(n) with the scanner at char index pos: None = indexing panic *)
Definition next_nstr_range (chars : str) (pos n : nat) : option (nat * nat) :=
  match nth_error (boffs 0 chars) pos with
  | None => None
  | Some start =>
      Some (start, match nth_error (boffs 0 chars) (pos + n) with
                   | Some e => e
                   | None => blen chars
                   end)
  end.

Definition slice {X} (l : list X) (s e : nat) : list X := firstn (e - s) (skipn s l).

(* valid UTF-8 = the encoding of some sequence of characters *)
Definition valid_utf8 (bytes : list N) : Prop := exists s, bytes = utf8 s.

Lemma utf8_app a b : utf8 (a ++ b) = utf8 a ++ utf8 b.
Proof. unfold utf8. apply flat_map_app. Qed.

Lemma boffs_nth off s i :
  (i < length s)%nat -> nth_error (boffs off s) i = Some (off + blen (firstn i s))%nat.
Proof.
  revert off i; induction s as [|c r IH]; intros off i Hi; simpl in Hi; [lia|].
  destruct i as [|i]; simpl.
  - f_equal. unfold blen. simpl. lia.
  - rewrite IH by lia. f_equal. unfold blen, utf8. simpl. rewrite app_length. lia.
Qed.

Lemma boffs_length off s : length (boffs off s) = length s.
Proof. revert off; induction s as [|c r IH]; intro off; simpl; auto. Qed.

Lemma slice_app_mid {X} (a b c : list X) :
  slice (a ++ b ++ c) (length a) (length a + length b) = b.
Proof.
  unfold slice. rewrite skipn_app, skipn_all, Nat.sub_diag. simpl.
  replace (length a + length b - length a)%nat with (length b) by lia.
  rewrite firstn_app, firstn_all, Nat.sub_diag. simpl. apply app_nil_r.
Qed.

Theorem next_nstr_valid chars pos n :
  (pos < length chars)%nat ->
  exists s e,
    next_nstr_range chars pos n = Some (s, e) /\
    (s <= e <= blen chars)%nat /\
    slice (utf8 chars) s e = utf8 (firstn n (skipn pos chars)).
Proof.
  intro Hpos. unfold next_nstr_range.
  rewrite boffs_nth by assumption. simpl.
  pose proof (firstn_skipn pos chars) as Hsplit.
  pose proof (firstn_skipn n (skipn pos chars)) as Hsplit2.
  set (a := firstn pos chars) in *.
  set (b := firstn n (skipn pos chars)) in *.
  set (c := skipn n (skipn pos chars)) in *.
  assert (Hchars : chars = a ++ b ++ c) by (rewrite Hsplit2; symmetry; exact Hsplit).
  assert (Hlen_a : length a = pos) by (subst a; rewrite firstn_length; lia).
  assert (Hblen : blen chars = (blen a + blen b + blen c)%nat).
  { unfold blen. rewrite Hchars, !utf8_app, !app_length. lia. }
  assert (Hutf : utf8 chars = utf8 a ++ utf8 b ++ utf8 c).
  { rewrite Hchars at 1. rewrite !utf8_app. reflexivity. }
  destruct (Nat.lt_ge_cases (pos + n) (length chars)) as [Hin|Hout].
  - rewrite boffs_nth by assumption.
    assert (Hfirst : firstn (pos + n) chars = a ++ b).
    { rewrite Hchars at 1. rewrite <- Hlen_a.
      rewrite firstn_app_2. f_equal.
      assert (Hlb : length b = n).
      { subst b. rewrite firstn_length, skipn_length. lia. }
      rewrite <- Hlb at 1. rewrite firstn_app, firstn_all, Nat.sub_diag. simpl.
      apply app_nil_r. }
    exists (blen a), (blen a + blen b)%nat. split; [|split].
    + simpl. rewrite Hfirst. unfold blen. rewrite utf8_app, app_length. reflexivity.
    + lia.
    + rewrite Hutf. unfold blen. apply slice_app_mid.
  - assert (Hnone : nth_error (boffs 0 chars) (pos + n) = None).
    { apply nth_error_None. rewrite boffs_length. lia. }
    rewrite Hnone.
    assert (Hc : c = []).
    { subst c. apply skipn_all2. rewrite skipn_length. lia. }
    exists (blen a), (blen chars). split; [|split].
    + reflexivity.
    + lia.
    + rewrite Hutf, Hblen, Hc. unfold blen at 4. simpl. rewrite Nat.add_0_r.
      unfold blen. rewrite <- (app_nil_r (utf8 b)) at 1.
      replace (utf8 a ++ (utf8 b ++ []) ++ []) with (utf8 a ++ utf8 b ++ []) by (rewrite !app_nil_r; reflexivity).
      apply slice_app_mid.
Qed.

Corollary next_nstr_is_valid_utf8 chars pos n s e :
  (pos < length chars)%nat -> next_nstr_range chars pos n = Some (s, e) ->
  valid_utf8 (slice (utf8 chars) s e).
Proof.
  intros Hpos H. destruct (next_nstr_valid chars pos n Hpos) as (s' & e' & H1 & _ & H2).
  rewrite H in H1. inversion H1; subst. eexists. exact H2.
Qed.

(* the pre-fix behaviour (end = start + n BYTES) is refuted: character U+65E5 with n = 2 *)
Definition next_nstr_range_bytes (chars : str) (pos n : nat) : option (nat * nat) :=
  match nth_error (boffs 0 chars) pos with
  | None => None
  | Some start => Some (start, Nat.min (start + n) (blen chars))
  end.

Example next_nstr_bytes_refuted :
  exists chars pos n s e,
    next_nstr_range_bytes chars pos n = Some (s, e) /\
    slice (utf8 chars) s e <> utf8 (firstn n (skipn pos chars)) /\
    slice (utf8 chars) s e = [230; 151].
Proof.
  exists [26085; 26412], 0%nat, 2%nat, 0%nat, 2%nat. vm_compute.
  split; [reflexivity|]. split; [discriminate|reflexivity].
Qed.
