(* C14 (with C02 / C03) — round trip on the expression fragment of spec/Print.v:
   "printing a derivation to tokens and parsing the tokens returns the derivation".

   Scope (the inductive [Print.exp] IS the statement of scope):
     identifiers, basic literals, parentheses, unary operators (+ - ! ^ * & <-),
     the 19 binary operators, calls f(a, b) and f(a, b...), selectors x.f,
     index expressions a[i], index lists a[i, j] (generic instantiation), slice
     expressions a[lo:hi] and a[lo:hi:max].
   [print] inserts no parentheses; [wf] says the derivation is the one the Go
   specification assigns to its own printing (precedence and associativity as
   Prec.PrecWF, unary operands are UnaryExprs, call / selector / index / slice
   bases are PrimaryExprs); [depth e <= DEPTH_BOUND = 64] keeps the parser below
   MAX_DEPTH = 64 and MAX_NESTING = 192.  The tree is compared up to positions
   and documentation ([Ast.erase]); [shape e = erase (to_node a e)].

   Statements ([Print.stmt], second part of this file): expression statements,
   assignments and short variable declarations, ++ / --, send, return, go, defer
   over the expression fragment, each with its terminating ";".

   Property theorems only; vocabulary in spec/Print.v, proofs in
   proofs/RoundTripProofs.v and proofs/RoundTripStmt.v.  Every theorem is about the model's own parser
   ([entry_expression], [k_binary] of the closed [parsers_at d]) for every
   instance of the polymorphic core (any positions, comments, policies). *)
From Coq Require Import List Arith NArith Lia Bool.
From GoSyn Require Import Token Tok Ast Core.
From GoSyn.spec Require Import Prec Print.
From GoSyn.proofs Require Import PrecProofs RoundTripProofs RoundTripStmt.
Import ListNotations.

(* ------------------------------------------------------------ the round trip *)

(* Parser::expression on a stream whose tokens are [print e] (any positions,
   any comment groups) followed by the end of input returns the tree of e and
   consumes everything.  [need e + 2] unfoldings of the recursion suffice. *)
Theorem C14_expr_roundtrip : forall (A G D C E : Type) (OPS : ops A G D C) e,
  wf e -> depth e <= DEPTH_BOUND ->
  forall d a0 d0 (elems : list (selem A G)) ae ge,
    map tok_of elems = print e -> need e + 2 <= d ->
    exists n s',
      entry_expression A G D C E OPS (parsers_at A G D C E OPS d)
        (init_state A G D E a0 d0 elems (TEof ae ge)) = Ok n s' /\
      erase n = shape e /\
      s_cur A G D E s' = None /\ s_rest A G D E s' = [].
Proof. exact expr_roundtrip. Qed.
Print Assumptions C14_expr_roundtrip.

(* the same with the fuel bound in tokens and the tree as [to_node] (all
   positions a) up to erasure *)
Theorem C14_expr_roundtrip_tokens : forall (A G D C E : Type) (OPS : ops A G D C) e,
  wf e -> depth e <= DEPTH_BOUND ->
  forall d a0 d0 (elems : list (selem A G)) ae ge (a : A),
    map tok_of elems = print e -> 3 * length elems + 2 <= d ->
    exists n s',
      entry_expression A G D C E OPS (parsers_at A G D C E OPS d)
        (init_state A G D E a0 d0 elems (TEof ae ge)) = Ok n s' /\
      erase n = erase (to_node (C := C) a e) /\
      s_cur A G D E s' = None /\ s_rest A G D E s' = [].
Proof. exact expr_roundtrip_tokens. Qed.
Print Assumptions C14_expr_roundtrip_tokens.

(* in context: binary_expression(None, prec) standing at the first token of
   [print e ++ rst] returns the tree of e and stands at the first token of rst,
   with Parser.depth and expr_level restored, whenever rst does not continue
   the expression ([follow prec rst]: rst is empty, or starts with a token that
   is neither . ( [ { nor a binary operator of precedence above prec) *)
Theorem C14_expr_in_context : forall (A G D C E : Type) (OPS : ops A G D C) e,
  wf e -> forall d prec (s : pstate A G D E) rst,
    need e + 1 <= d -> tighter_than prec e -> at_toks s (print e ++ rst) -> follow prec rst ->
    s_depth A G D E s + depth e <= MAX_NESTING ->
    s_lp A G D E s + depth e <= s_ln A G D E s + 65 ->
    exists n s1,
      k_binary A G D C E (parsers_at A G D C E OPS d) None prec s = Ok n s1 /\
      erase n = shape e /\ at_toks s1 rst /\ frame s s1.
Proof. exact expr_in_context. Qed.
Print Assumptions C14_expr_in_context.

(* ------------------------------------------------------------ consequences *)

(* [wf] singles out ONE derivation per token list: the fragment is unambiguous *)
Theorem C14_unambiguous : forall e1 e2,
  wf e1 -> wf e2 -> depth e1 <= DEPTH_BOUND -> depth e2 <= DEPTH_BOUND ->
  print e1 = print e2 -> e1 = e2.
Proof. exact print_inj. Qed.
Print Assumptions C14_unambiguous.

(* the shape determines the derivation *)
Theorem C14_shape_injective : forall e1 e2, shape e1 = shape e2 -> e1 = e2.
Proof. exact shape_inj. Qed.
Print Assumptions C14_shape_injective.

Theorem C14_shape_to_node : forall (A C : Type) (a : A) e,
  erase (to_node (C := C) a e) = shape e.
Proof. exact erase_to_node. Qed.
Print Assumptions C14_shape_to_node.

Theorem C14_fuel_in_tokens : forall e, need e <= 3 * length (print e).
Proof. exact need_le_tokens. Qed.
Print Assumptions C14_fuel_in_tokens.

(* ------------------------------------------------------------ examples, through the real parser
   (PrecProofs.demo_parse: positions = token indices, no comments) *)

Definition id_ (c : N) : exp := EIdent [c].
Definition a_ := 97%N. Definition b_ := 98%N. Definition c_ := 99%N.
Definition f_ := 102%N. Definition i_ := 105%N. Definition j_ := 106%N.
Definition k_ := 107%N. Definition x_ := 120%N. Definition y_ := 121%N.

Ltac wf_tac := vm_compute; repeat split; try lia; try discriminate; try (intros; congruence).

(*  -a * (b + c).f(x, y)[i]  *)
Definition ex1 : exp :=
  EBinary OStar (EUnary OSub (id_ a_))
    (EIndex (ECall (ESelector (EParen (EBinary OAdd (id_ b_) (id_ c_))) [f_])
                   [id_ x_; id_ y_] false)
            (id_ i_)).
Example C14_ex1 :
  wf ex1 /\ depth ex1 <= DEPTH_BOUND /\
  print ex1 =
    [tk OSub; TLiteral LIdent [a_]; tk OStar; tk OParenLeft; TLiteral LIdent [b_]; tk OAdd;
     TLiteral LIdent [c_]; tk OParenRight; tk ODot; TLiteral LIdent [f_]; tk OParenLeft;
     TLiteral LIdent [x_]; tk OComma; TLiteral LIdent [y_]; tk OParenRight; tk OBarackLeft;
     TLiteral LIdent [i_]; tk OBarackRight] /\
  demo_shape (print ex1) = Some (shape ex1).
Proof. split; [wf_tac |]. split; [vm_compute; lia |]. split; vm_compute; reflexivity. Qed.

(*  a || b && c == x + y * -i  *)
Definition ex2 : exp :=
  EBinary OOrOr (id_ a_)
    (EBinary OAndAnd (id_ b_)
       (EBinary OEqual (id_ c_)
          (EBinary OAdd (id_ x_) (EBinary OStar (id_ y_) (EUnary OSub (id_ i_)))))).
Example C14_ex2 : wf ex2 /\ demo_shape (print ex2) = Some (shape ex2).
Proof. split; [wf_tac | vm_compute; reflexivity]. Qed.

(*  a - b - c * x / y  (left associativity on two levels) *)
Definition ex3 : exp :=
  EBinary OSub (EBinary OSub (id_ a_) (id_ b_))
    (EBinary OQuo (EBinary OStar (id_ c_) (id_ x_)) (id_ y_)).
Example C14_ex3 : wf ex3 /\ demo_shape (print ex3) = Some (shape ex3).
Proof. split; [wf_tac | vm_compute; reflexivity]. Qed.

(*  f(a[i:j], b[:], c[i:j:k], x...)  *)
Definition ex4 : exp :=
  ECall (id_ f_)
    [ESlice (id_ a_) (Some (id_ i_)) (Some (id_ j_)) None;
     ESlice (id_ b_) None None None;
     ESlice (id_ c_) (Some (id_ i_)) (Some (id_ j_)) (Some (id_ k_));
     id_ x_] true.
Example C14_ex4 : wf ex4 /\ demo_shape (print ex4) = Some (shape ex4).
Proof. split; [wf_tac | vm_compute; reflexivity]. Qed.

(*  <-c + *a.b[:j] - &x.y(1)("s") + ^2.5  *)
Definition ex5 : exp :=
  EBinary OAdd
    (EBinary OSub
       (EBinary OAdd (EUnary OArrow (id_ c_))
          (EUnary OStar (ESlice (ESelector (id_ a_) [b_]) None (Some (id_ j_)) None)))
       (EUnary OAnd (ECall (ECall (ESelector (id_ x_) [y_]) [ELit LInteger [49%N]] false)
                           [ELit LString [34; 115; 34]%N] false)))
    (EUnary OXor (ELit LFloat [50; 46; 53]%N)).
Example C14_ex5 : wf ex5 /\ demo_shape (print ex5) = Some (shape ex5).
Proof. split; [wf_tac | vm_compute; reflexivity]. Qed.

(*  f[a, b.c, i](x)  *)
Definition ex8 : exp :=
  ECall (EIndexList (id_ f_) [id_ a_; ESelector (id_ b_) [c_]; id_ i_]) [id_ x_] false.
Example C14_ex8 : wf ex8 /\ demo_shape (print ex8) = Some (shape ex8).
Proof. split; [wf_tac | vm_compute; reflexivity]. Qed.

(*  !-^+a  and  ((((a))))()  *)
Definition ex6 : exp := EUnary ONot (EUnary OSub (EUnary OXor (EUnary OAdd (id_ a_)))).
Definition ex7 : exp := ECall (EParen (EParen (EParen (EParen (id_ a_))))) [] false.
Example C14_ex67 :
  wf ex6 /\ demo_shape (print ex6) = Some (shape ex6) /\
  wf ex7 /\ demo_shape (print ex7) = Some (shape ex7).
Proof. split; [wf_tac |]. split; [vm_compute; reflexivity |]. split; [wf_tac | vm_compute; reflexivity]. Qed.

(* the theorem instantiated (no computation through the parser) *)
Example C14_ex1_by_theorem : forall d, need ex1 + 2 <= d ->
  exists n s',
    entry_expression nat unit unit unit unit demo_ops (parsers_at nat unit unit unit unit demo_ops d)
      (init_state nat unit unit unit 0 tt (demo_stream 0 (print ex1)) (TEof 18 tt)) = Ok n s' /\
    erase n = shape ex1 /\ s_cur _ _ _ _ s' = None /\ s_rest _ _ _ _ s' = [].
Proof.
  intros d Hd.
  apply (C14_expr_roundtrip nat unit unit unit unit demo_ops ex1);
    [exact (proj1 C14_ex1) | exact (proj1 (proj2 C14_ex1)) | apply demo_stream_toks | exact Hd].
Qed.

(* ---- [wf] is necessary: derivations that are NOT the spec's reading of their
   own printing do not come back *)

(*  (a + b) * c  without the parentheses prints  a + b * c  *)
Definition bad1 : exp := EBinary OStar (EBinary OAdd (id_ a_) (id_ b_)) (id_ c_).
(*  a - (b - c)  without the parentheses prints  a - b - c  *)
Definition bad2 : exp := EBinary OSub (id_ a_) (EBinary OSub (id_ b_) (id_ c_)).
(*  -(a + b)  without the parentheses prints  -a + b  *)
Definition bad3 : exp := EUnary OSub (EBinary OAdd (id_ a_) (id_ b_)).
(*  (-f)()  without the parentheses prints  -f()  *)
Definition bad4 : exp := ECall (EUnary OSub (id_ f_)) [] false.
Example C14_wf_necessary :
  ~ wf bad1 /\ demo_shape (print bad1) =
     Some (shape (EBinary OAdd (id_ a_) (EBinary OStar (id_ b_) (id_ c_)))) /\
  ~ wf bad2 /\ demo_shape (print bad2) =
     Some (shape (EBinary OSub (EBinary OSub (id_ a_) (id_ b_)) (id_ c_))) /\
  ~ wf bad3 /\ demo_shape (print bad3) =
     Some (shape (EBinary OAdd (EUnary OSub (id_ a_)) (id_ b_))) /\
  ~ wf bad4 /\ demo_shape (print bad4) =
     Some (shape (EUnary OSub (ECall (id_ f_) [] false))).
Proof.
  repeat split; try (vm_compute; reflexivity); vm_compute; intro H; decompose [and] H;
    try lia; try contradiction.
Qed.

(* ---- the depth bound is sharp for parentheses: 63 pairs around an identifier
   (depth 64) come back, 64 pairs (depth 65) hit MAX_DEPTH *)
Fixpoint parens (n : nat) (e : exp) : exp :=
  match n with O => e | S m => EParen (parens m e) end.
Example C14_depth_sharp :
  depth (parens 63 (id_ a_)) = 64 /\
  demo_shape (print (parens 63 (id_ a_))) = Some (shape (parens 63 (id_ a_))) /\
  depth (parens 64 (id_ a_)) = 65 /\
  demo_shape (print (parens 64 (id_ a_))) = None.
Proof. repeat split; vm_compute; reflexivity. Qed.

(* ------------------------------------------------------------ simple statements (C02 / C03 leg) *)

(* Parser::parse_stmt on a stream whose tokens are [print_stmt st] (the statement
   and its ";") followed by the end of input returns the tree of st *)
Theorem C14_stmt_roundtrip : forall (A G D C E : Type) (OPS : ops A G D C) st,
  wf_stmt st -> depth_stmt st <= DEPTH_BOUND ->
  forall d a0 d0 (elems : list (selem A G)) ae ge,
    map tok_of elems = print_stmt st -> need_stmt st + 3 <= d ->
    exists n s',
      entry_stmt A G D C E OPS (parsers_at A G D C E OPS d)
        (init_state A G D E a0 d0 elems (TEof ae ge)) = Ok n s' /\
      erase n = shape_stmt st /\
      s_cur A G D E s' = None /\ s_rest A G D E s' = [].
Proof. exact stmt_roundtrip. Qed.
Print Assumptions C14_stmt_roundtrip.

(* in context: after its ";" a statement needs no follow condition at all *)
Theorem C14_stmt_in_context : forall (A G D C E : Type) (OPS : ops A G D C) st,
  wf_stmt st -> forall d (s : pstate A G D E) rst,
    need_stmt st + 3 <= d ->
    s_depth A G D E s + 1 + depth_stmt st <= MAX_NESTING ->
    s_lp A G D E s + depth_stmt st <= s_ln A G D E s + 65 ->
    at_toks s (print_stmt st ++ rst) ->
    exists n s1,
      k_stmt A G D C E (parsers_at A G D C E OPS d) s = Ok n s1 /\
      erase n = shape_stmt st /\ at_toks s1 rst /\ frame s s1.
Proof. exact stmt_in_context. Qed.
Print Assumptions C14_stmt_in_context.

(*  a, b[i] = f(x), <-c ;   x, y := y, x ;   a.b++ ;   c <- a + b ;
    return a, f(x...) ;   go f(x) ;   defer a.b() ;   f(x) ;  *)
Definition st1 : stmt :=
  SAssign OAssign [id_ a_; EIndex (id_ b_) (id_ i_)]
    [ECall (id_ f_) [id_ x_] false; EUnary OArrow (id_ c_)].
Definition st2 : stmt := SAssign ODefine [id_ x_; id_ y_] [id_ y_; id_ x_].
Definition st3 : stmt := SIncDec OInc (ESelector (id_ a_) [b_]).
Definition st4 : stmt := SSend (id_ c_) (EBinary OAdd (id_ a_) (id_ b_)).
Definition st5 : stmt := SReturn [id_ a_; ECall (id_ f_) [id_ x_] true].
Definition st6 : stmt := SGo (ECall (id_ f_) [id_ x_] false).
Definition st7 : stmt := SDefer (ECall (ESelector (id_ a_) [b_]) [] false).
Definition st8 : stmt := SExpr (ECall (id_ f_) [id_ x_] false).
Definition st9 : stmt := SAssign OAddAssign [id_ a_] [ELit LInteger [49%N]].
Definition st10 : stmt := SReturn [].

Example C14_stmt_examples :
  Forall (fun st => wf_stmt st /\ demo_stmt_shape (print_stmt st) = Some (shape_stmt st))
    [st1; st2; st3; st4; st5; st6; st7; st8; st9; st10].
Proof.
  repeat constructor; try (vm_compute; reflexivity);
    vm_compute; repeat split; try lia; try discriminate; try (intros; congruence); auto.
Qed.

(*  x, f() := 1, 2 ;  is refused by the parser (and is not wf_stmt) *)
Definition bad_st : stmt :=
  SAssign ODefine [id_ x_; ECall (id_ f_) [] false] [ELit LInteger [49%N]; ELit LInteger [50%N]].
Example C14_stmt_define_idents :
  ~ wf_stmt bad_st /\ demo_stmt_shape (print_stmt bad_st) = None.
Proof.
  split; [| vm_compute; reflexivity].
  intros (_ & _ & _ & _ & _ & _ & H). destruct (H eq_refl) as (_ & [] & _).
Qed.
