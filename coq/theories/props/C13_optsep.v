(* C13, optional separators: omitting the ";" in front of the closing "}" of a block
   does not change the tree (proofs/OptionalSep.v). *)
From Coq Require Import List.
From GoSyn Require Import Token Tok Ast Core.
From GoSyn.spec Require Import Prec Print Print2 Print3.
From GoSyn.proofs Require Import RoundTripBase2 OptionalSep.
Import ListNotations.

Theorem C13_block_last_semicolon : forall (A G D C E : Type) (OPS : ops A G D C) body sm,
  all2 wf_stmt body -> seq_ok body -> wf_stmt (StSimple sm) ->
  BP_toks A G D C E OPS (body ++ [StSimple sm])
    (tk OBraceLeft :: print_stmts body ++ print_simple print2 sm ++ [tk OBraceRight]).
Proof. exact block_nosemi_wf. Qed.
Print Assumptions C13_block_last_semicolon.

(* the same for every last statement that prints a ";" of its own: simple statements,
   go / defer, return, break / continue / goto / fallthrough *)
Theorem C13_block_last_stmt_semicolon : forall (A G D C E : Type) (OPS : ops A G D C)
    body last toks,
  all2 wf_stmt body -> seq_ok body -> wf_stmt last -> nosemi_toks last = Some toks ->
  BP_toks A G D C E OPS (body ++ [last])
    (tk OBraceLeft :: print_stmts body ++ toks ++ [tk OBraceRight]).
Proof. exact block_last_wf. Qed.
Print Assumptions C13_block_last_stmt_semicolon.

(* import ( "a" ; "b" )  for  import ( "a" ; "b" ; ) *)
Theorem C13_import_group_last_semicolon : forall (A G D C E : Type) (OPS : ops A G D C)
    specs sp,
  IDP_toks A G D C E OPS (true, specs ++ [sp])
    (kw KImport :: tk OParenLeft ::
       flat_map (fun sp => print_importspec sp ++ [tk OSemiColon]) specs ++
       print_importspec sp ++ [tk OParenRight; tk OSemiColon]).
Proof. exact import_group_nosemi. Qed.
Print Assumptions C13_import_group_last_semicolon.

(* ... and as a whole statement from the initial state (as C02's stmt2_roundtrip) *)
Theorem C13_block_last_semicolon_roundtrip : forall (A G D C E : Type) (OPS : ops A G D C)
    body last toks,
  all2 wf_stmt body -> seq_ok body -> wf_stmt last -> nosemi_toks last = Some toks ->
  depth_stmt2 (StBlock (body ++ [last])) <= DEPTH_BOUND2 ->
  forall d a0 d0 (elems : list (selem A G)) ae ge,
    map tok_of elems = tk OBraceLeft :: print_stmts body ++ toks ++ [tk OBraceRight] ->
    need_stmt2 (StBlock (body ++ [last])) <= d ->
    exists n s',
      entry_stmt A G D C E OPS (parsers_at A G D C E OPS d)
        (init_state A G D E a0 d0 elems (TEof ae ge)) = Ok n s' /\
      erase n = shape_stmt (StBlock (body ++ [last])) /\
      s_cur A G D E s' = None /\ s_rest A G D E s' = [].
Proof. exact block_last_roundtrip. Qed.
Print Assumptions C13_block_last_semicolon_roundtrip.
