(* C16 — the line table kept by the scanner and Scanner::line_info, against
   lines and columns defined directly on the source text (spec/LineCol.v).
   Property theorems only; proofs in proofs/LineProofs.v.

   Known defect made explicit (pinned by the crate's unit tests, so it stays):
   for every position after line 1, line_info reports the true 1-based line
   minus 1 (lines 1 and 2 collide); [adj] is that map.  The column is right. *)
From Coq Require Import List NArith.
From GoSyn Require Import Token Tok Scanner.
From GoSyn.spec Require Import LineCol.
From GoSyn.proofs Require Import LineProofs.
Import ListNotations.
Open Scope N_scope.

(* (2) line_info on any strictly ascending table: line = adj (1 + number of
   entries <= p), column = p - (last entry <= p), or p if there is none
   ([last_le] is 0 then) *)
Theorem C16_line_info : forall tbl p, sorted_strict tbl ->
  line_info tbl p = (adj (1 + count_le tbl p), p - last_le tbl p).
Proof. exact line_info_sorted. Qed.
Print Assumptions C16_line_info.

(* the un-adjusted statement is false *)
Theorem C16_line_refuted :
  exists tbl p, sorted_strict tbl /\ fst (line_info tbl p) <> 1 + count_le tbl p.
Proof. exact line_info_line_refuted. Qed.
Print Assumptions C16_line_refuted.

(* the table of a text: exactly the offsets just after a newline, ascending *)
Theorem C16_line_starts_in : forall src upto y,
  In y (line_starts src upto) <->
  exists i, y = i + 1 /\ i < upto /\ nth_error src (N.to_nat i) = Some 10.
Proof. exact line_starts_in. Qed.
Print Assumptions C16_line_starts_in.

Theorem C16_line_starts_sorted : forall src upto, sorted_strict (line_starts src upto).
Proof. exact line_starts_sorted. Qed.
Print Assumptions C16_line_starts_sorted.

(* (2, on text) with the table of the first [upto] characters, every p <= upto
   gets (adj (true line), true column).  No bound p <= length src is needed. *)
Theorem C16_line_info_text : forall src upto p, p <= upto ->
  line_info (line_starts src upto) p = (adj (true_line src p), true_col src p).
Proof. exact line_info_text. Qed.
Print Assumptions C16_line_info_text.

(* (3) the state-machine invariant, for every state reachable from
   [init_state src] by next_token steps ([reachable]: the SR_tok successor and
   the states carried by SR_eof / SR_err) *)
Theorem C16_lines_inv : forall U src s, reachable U src s ->
  rev (s_lines s) = line_starts src (s_pos s) /\
  s_rest s = skipn (N.to_nat (s_pos s)) src /\
  s_pos s <= N.of_nat (length src).
Proof. exact reachable_inv. Qed.
Print Assumptions C16_lines_inv.

(* one step preserves the invariant (whatever the outcome) *)
Theorem C16_lines_inv_step : forall U src s,
  lines_inv src s -> lines_inv src (step_state (next_token U s)).
Proof. exact next_token_inv. Qed.
Print Assumptions C16_lines_inv_step.

(* used by (3): a token's text is verbatim the consumed prefix of the input and
   the returned count is its length *)
Theorem C16_token_text : forall U l tok cnt,
  scan_token U l = inl (tok, cnt) ->
  (exists rest, l = tok_text tok ++ rest) /\ cnt = lenN (tok_text tok).
Proof. exact scan_token_text. Qed.
Print Assumptions C16_token_text.

(* the final states of scan_all are reachable; at EOF the table is complete *)
Theorem C16_scan_all_reachable : forall U src ts e,
  scan_all U src = (ts, e) ->
  match e with SE_Eof s | SE_Err _ _ s => reachable U src s | SE_Fuel => True end.
Proof.
  intros U src ts e H. unfold scan_all in H.
  exact (scan_loop_reachable U src _ _ _ _ (reach_init U src) H).
Qed.
Print Assumptions C16_scan_all_reachable.

Theorem C16_eof_table : forall U src ts s,
  scan_all U src = (ts, SE_Eof s) ->
  s_pos s = lenN src /\ rev (s_lines s) = line_starts src (lenN src).
Proof. exact scan_all_eof_table. Qed.
Print Assumptions C16_eof_table.

(* end to end: for any position the scanner has passed *)
Theorem C16_scanner_line_info : forall U src s p, reachable U src s -> p <= s_pos s ->
  line_info (rev (s_lines s)) p = (adj (true_line src p), true_col src p).
Proof. exact scanner_line_info. Qed.
Print Assumptions C16_scanner_line_info.

(* (4) entries added later (all above p) do not change the answer for p.
   Sortedness of the extended table is not needed. *)
Theorem C16_lookup_stable : forall tbl extra p,
  (forall x, In x extra -> p < x) -> line_info (tbl ++ extra) p = line_info tbl p.
Proof. exact line_info_stable. Qed.
Print Assumptions C16_lookup_stable.

Theorem C16_lookup_stable_scanner : forall U src s s' p,
  reachable U src s -> reachable U src s' -> p <= s_pos s -> p <= s_pos s' ->
  line_info (rev (s_lines s')) p = line_info (rev (s_lines s)) p.
Proof. exact scanner_lookup_stable. Qed.
Print Assumptions C16_lookup_stable_scanner.

(* non-vacuity: the three-line source "a\nbc\nd" *)
Definition ex_src : str := [97; 10; 98; 99; 10; 100].

Example C16_examples :
  line_starts ex_src 6 = [2; 5] /\ sorted_strict [2; 5] /\
  (* 'c' (offset 3) is on line 2, column 1; the scanner says line 1 *)
  true_line ex_src 3 = 2 /\ true_col ex_src 3 = 1 /\ line_info [2; 5] 3 = (1, 1) /\
  (* 'd' (offset 5) starts line 3; the scanner says line 2 *)
  true_line ex_src 5 = 3 /\ true_col ex_src 5 = 0 /\ line_info [2; 5] 5 = (2, 0) /\
  (* 'a' (offset 0) is on line 1 and is reported on line 1 *)
  true_line ex_src 0 = 1 /\ line_info [2; 5] 0 = (1, 0) /\
  (* stability: hypotheses satisfiable *)
  (forall x, In x [5] -> 3 < x) /\ line_info ([2] ++ [5]) 3 = line_info [2] 3.
Proof.
  repeat split; try (vm_compute; reflexivity).
  intros x [Hx|[]]. subst x. reflexivity.
Qed.

(* the scanner reaches EOF on the example with exactly that table *)
Example C16_example_scan :
  exists ts s, scan_all ascii_uclass ex_src = (ts, SE_Eof s) /\
    reachable ascii_uclass ex_src s /\ s_pos s = 6 /\ rev (s_lines s) = [2; 5].
Proof.
  destruct (scan_all ascii_uclass ex_src) as [ts e] eqn:E.
  pose proof (C16_scan_all_reachable ascii_uclass ex_src ts e E) as Hr.
  vm_compute in E. inversion E; subst ts e. clear E.
  eexists. eexists. split; [reflexivity|]. split; [exact Hr|]. split; reflexivity.
Qed.
