(* C08 — automatic semicolon insertion, rule 1 of the Go specification's
   section "Semicolons": a semicolon is synthesised after a line's final token
   (or at the end of the input) iff that token is an identifier, a literal, one
   of break/continue/fallthrough/return, or one of ++ -- ) ] }.  Comments do
   not interfere: a line comment or a general comment holding a newline counts
   as the line end, a general comment without a newline does not.

   Property theorems only; specification in spec/Semi.v, proofs in
   proofs/SemiProofs.v.

   KNOWN DEFECT that stays (KF-5, pinned by the crate's unit test
   parse_package): the crate's trigger table also lists the keyword `package`.
   [C08_trigger] therefore excludes that one token, [C08_trigger_package_refuted]
   is the witness, and [C08_trigger_iff] says there is no other difference. *)
From Coq Require Import List NArith Bool.
From GoSyn Require Import Token Tok Scanner.
From GoSyn.spec Require Import Semi.
From GoSyn.proofs Require Import SemiProofs.
Import ListNotations.
Open Scope N_scope.

(* ------------------------------------------------------------ (1) the trigger set *)

Theorem C08_trigger : forall t,
  t <> TKeyword KPackage -> semi_trigger t = spec_trigger t.
Proof. exact trigger_agrees. Qed.
Print Assumptions C08_trigger.

Theorem C08_trigger_package_refuted :
  semi_trigger (TKeyword KPackage) = true /\ spec_trigger (TKeyword KPackage) = false.
Proof. exact trigger_package_refuted. Qed.
Print Assumptions C08_trigger_package_refuted.

(* the crate's set is the specification's set plus `package`, nothing else *)
Theorem C08_trigger_iff : forall t,
  semi_trigger t = true <-> (spec_trigger t = true \/ t = TKeyword KPackage).
Proof. exact trigger_iff. Qed.
Print Assumptions C08_trigger_iff.

(* ------------------------------------------------------------ (2) the line end *)

(* try_insert_semicolon's look-ahead decides exactly [LineEnd], for every
   classification oracle *)
Theorem C08_line_ended : forall U l,
  line_ended U l = true <-> LineEnd (is_whitespace U) l.
Proof. exact line_ended_iff. Qed.
Print Assumptions C08_line_ended.

(* the same against the reading without the side condition "'/' is not white
   space", for every oracle that is right on ASCII *)
Theorem C08_line_ended_ascii : forall U l, uclass_ascii_ok U ->
  (line_ended U l = true <-> LineEnd0 (is_whitespace U) l).
Proof. exact line_ended_iff_ascii. Qed.
Print Assumptions C08_line_ended_ascii.

(* ------------------------------------------------------------ (3) one call of next_token *)

(* [synthetic U s]: the pending flag is set and the line ends at the scanner
   position (SemiProofs.synthetic := s_semi s && line_ended U (s_rest s));
   [synth_state s]: [s] with the flag cleared, nothing else changed *)

(* next_token answers with a semicolon that consumed nothing iff the previous
   token set the flag and the rest of the line is blank *)
Theorem C08_insert : forall U s,
  (exists p s', next_token U s = SR_tok p (TOperator OSemiColon) s' /\
                s_pos s' = s_pos s /\ s_rest s' = s_rest s)
  <-> (s_semi s = true /\ LineEnd (is_whitespace U) (s_rest s)).
Proof. exact insert_iff. Qed.
Print Assumptions C08_insert.

(* ... and then the answer is this one: at the scanner position, flag cleared *)
Theorem C08_insert_result : forall U s,
  s_semi s = true -> LineEnd (is_whitespace U) (s_rest s) ->
  next_token U s = SR_tok (s_pos s) (TOperator OSemiColon) (synth_state s).
Proof. exact insert_result. Qed.
Print Assumptions C08_insert_result.

(* after any token the flag is the trigger of that token (for the synthetic
   semicolon: false, and semi_trigger ';' = false) *)
Theorem C08_insert_flag : forall U s p t s',
  next_token U s = SR_tok p t s' -> s_semi s' = semi_trigger t.
Proof. exact next_token_flag. Qed.
Print Assumptions C08_insert_flag.

(* a token that was read from the source is never mistaken for the synthetic
   one: "a semicolon that ends where it starts" characterises the first branch *)
Theorem C08_insert_recognised : forall U s p t s',
  next_token U s = SR_tok p t s' ->
  ((t = TOperator OSemiColon /\ s_pos s' = p) <-> synthetic U s = true).
Proof. exact synthetic_recognised. Qed.
Print Assumptions C08_insert_recognised.

(* at most one synthetic semicolon per line end *)
Theorem C08_insert_once : forall U s p t s',
  synthetic U s = true -> next_token U s = SR_tok p t s' -> synthetic U s' = false.
Proof. exact insert_once. Qed.
Print Assumptions C08_insert_once.

(* ------------------------------------------------------------ (4) the token stream *)

(* scan_all_ext records (start, token, scanner position after the token); the
   plain stream of scan_all is its projection *)
Theorem C08_stream_erase : forall U src,
  scan_all U src =
    (map fst (fst (scan_all_ext U src)), snd (scan_all_ext U src)).
Proof. intros U src. apply scan_loop_ext_erase. Qed.
Print Assumptions C08_stream_erase.

(* token i+1 is a synthetic semicolon (a ';' whose end is its start) iff
   token i triggers and the line ends in the source text after token i *)
Theorem C08_stream : forall U src ts e i p t en p' t' en',
  scan_all_ext U src = (ts, e) ->
  nth_error ts i = Some (p, t, en) -> nth_error ts (S i) = Some (p', t', en') ->
  ((t' = TOperator OSemiColon /\ en' = p') <->
   (semi_trigger t = true /\ LineEnd (is_whitespace U) (skipn (N.to_nat en) src))).
Proof.
  intros U src ts e i p t en p' t' en' H.
  apply (stream_step U src _ (init_state src) ts e (wf_init src) H).
Qed.
Print Assumptions C08_stream.

(* the same against the specification's trigger set: `package` is the only
   token after which the crate inserts and the specification does not *)
Theorem C08_stream_spec : forall U src ts e i p t en p' t' en',
  scan_all_ext U src = (ts, e) ->
  nth_error ts i = Some (p, t, en) -> nth_error ts (S i) = Some (p', t', en') ->
  ((t' = TOperator OSemiColon /\ en' = p') <->
   ((spec_trigger t = true \/ t = TKeyword KPackage) /\
    LineEnd (is_whitespace U) (skipn (N.to_nat en) src))).
Proof.
  intros U src ts e i p t en p' t' en' H Hi Hi'.
  rewrite <- trigger_iff. apply (C08_stream U src ts e i p t en p' t' en' H Hi Hi').
Qed.
Print Assumptions C08_stream_spec.

(* for any fuel and any start state whose text is the suffix of [src] at its
   position *)
Theorem C08_stream_loop : forall U src fuel s ts e, wf src s ->
  scan_loop_ext U fuel s = (ts, e) ->
  forall i p t en p' t' en',
    nth_error ts i = Some (p, t, en) -> nth_error ts (S i) = Some (p', t', en') ->
    ((t' = TOperator OSemiColon /\ en' = p') <->
     (semi_trigger t = true /\ LineEnd (is_whitespace U) (skipn (N.to_nat en) src))).
Proof. exact stream_step. Qed.
Print Assumptions C08_stream_loop.

(* the first token of a file is never synthetic *)
Theorem C08_stream_first : forall U src ts e p t en,
  scan_all_ext U src = (ts, e) -> nth_error ts 0 = Some (p, t, en) ->
  ~ (t = TOperator OSemiColon /\ en = p).
Proof.
  intros U src ts e p t en H. unfold scan_all_ext in H.
  apply (stream_first U (init_state src) _ ts e p t en eq_refl H).
Qed.
Print Assumptions C08_stream_first.

(* no two synthetic semicolons in a row *)
Theorem C08_stream_once : forall U src ts e i p t en p' t' en',
  scan_all_ext U src = (ts, e) ->
  nth_error ts i = Some (p, t, en) -> nth_error ts (S i) = Some (p', t', en') ->
  t = TOperator OSemiColon -> ~ (t' = TOperator OSemiColon /\ en' = p').
Proof.
  intros U src ts e i p t en p' t' en' H Hi Hi' Ht Hs.
  apply (C08_stream U src ts e i p t en p' t' en' H Hi Hi') in Hs.
  destruct Hs as [Hs _]. subst t. discriminate Hs.
Qed.
Print Assumptions C08_stream_once.

(* "... or at the end of the input": when the scan reaches the end of the
   source no semicolon is owed -- the last token of the stream does not trigger
   (if the last token of the source triggers, its synthetic ';' comes last) *)
Theorem C08_stream_eof : forall U src ts0 x sf,
  scan_all_ext U src = (ts0 ++ [x], SE_Eof sf) -> semi_trigger (snd (fst x)) = false.
Proof. intros U src ts0 x sf H. apply (stream_eof U _ _ ts0 x sf H). Qed.
Print Assumptions C08_stream_eof.

(* ------------------------------------------------------------ non-vacuity *)

(* after the identifier in   x /* c */ // d\n   the line has ended; with a
   token after the general comment it has not; a general comment with a newline
   ends it; so does an unterminated one (the crate's choice) *)
Example C08_line_examples :
  LineEnd ascii_ws [32; 47;42;32;99;32;42;47; 32; 47;47;32;100; 10] /\      (*  /* c */ // d\n *)
  ~ LineEnd ascii_ws [32; 47;42;32;99;32;42;47; 32; 43] /\                  (*  /* c */ + *)
  LineEnd ascii_ws [47;42;32;10;32;42;47; 32; 43] /\                        (* /* \n */ + *)
  LineEnd ascii_ws [32; 47;42;32;99] /\                                     (*  /* c *)
  ~ LineEnd ascii_ws [32; 47; 61; 50; 10].                                  (*  /=2\n *)
Proof.
  repeat split;
    try (apply (line_ended_iff ascii_uclass); vm_compute; reflexivity);
    intros H; apply (line_ended_iff ascii_uclass) in H; vm_compute in H; discriminate H.
Qed.

(* the first of them again, built from the constructors *)
Example C08_line_example_direct :
  LineEnd ascii_ws [32; 47;42;32;99;32;42;47; 32; 47;47;32;100; 10].
Proof.
  apply LE_ws; [discriminate|reflexivity|].
  apply (LE_gc_inline ascii_ws [32; 99; 32] [32; 47;47;32;100; 10]).
  - reflexivity.
  - intros p q H.
    destruct p as [|a [|b [|c [|d p]]]]; cbn [app] in H; inversion H.
  - cbn [In]. intros [H|[H|[H|[]]]]; discriminate H.
  - apply LE_ws; [discriminate|reflexivity|]. apply LE_line_comment. reflexivity.
Qed.

(* x /* c */ // d\n}  : a synthetic ';' after x (before the comments) and after
   the final '}' at the end of the input; the real tokens consume characters *)
Example C08_stream_example :
  fst (scan_all_ext ascii_uclass
         [120; 32; 47;42;32;99;32;42;47; 32; 47;47;32;100; 10; 125]) =
  [(0, TLiteral LIdent [120], 1); (1, TOperator OSemiColon, 1);
   (2, TComment [47; 42; 32; 99; 32; 42; 47], 9);
   (10, TComment [47; 47; 32; 100], 14);
   (15, TOperator OBraceRight, 16); (16, TOperator OSemiColon, 16)].
Proof. vm_compute. reflexivity. Qed.

(* a /* c */ +  : no semicolon, the general comment acts like a space *)
Example C08_stream_example_inline :
  map (fun x => snd (fst x))
      (fst (scan_all_ext ascii_uclass [97; 32; 47;42;32;99;32;42;47; 32; 43])) =
  [TLiteral LIdent [97]; TComment [47; 42; 32; 99; 32; 42; 47]; TOperator OAdd].
Proof. vm_compute. reflexivity. Qed.

(* the defect, on a source: package\nx  gets a ';' after `package` *)
Example C08_stream_example_package :
  fst (scan_all_ext ascii_uclass [112;97;99;107;97;103;101; 10; 120]) =
  [(0, TKeyword KPackage, 7); (7, TOperator OSemiColon, 7);
   (8, TLiteral LIdent [120], 9); (9, TOperator OSemiColon, 9)].
Proof. vm_compute. reflexivity. Qed.
