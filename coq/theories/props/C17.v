(* C17 — text built without checks is always valid UTF-8.
   Property theorems only; proofs live in Utf8.v. *)
From Coq Require Import List NArith.
From GoSyn Require Import Token Tok Utf8.

(* the byte range next_nstr hands to from_utf8_unchecked is exactly the UTF-8
   encoding of the (at most) n characters at the scanner position *)
Theorem C17_boundary : forall chars pos n,
  (pos < length chars)%nat ->
  exists s e,
    next_nstr_range chars pos n = Some (s, e) /\
    (s <= e <= blen chars)%nat /\
    slice (utf8 chars) s e = utf8 (firstn n (skipn pos chars)).
Proof. exact next_nstr_valid. Qed.
Print Assumptions C17_boundary.

Theorem C17_valid_utf8 : forall chars pos n s e,
  (pos < length chars)%nat -> next_nstr_range chars pos n = Some (s, e) ->
  valid_utf8 (slice (utf8 chars) s e).
Proof. exact next_nstr_is_valid_utf8. Qed.
Print Assumptions C17_valid_utf8.

(* the byte-counting range of the pinned tree (before fix fb6be0f) is refuted *)
Theorem C17_bytes_refuted :
  exists chars pos n s e,
    next_nstr_range_bytes chars pos n = Some (s, e) /\
    slice (utf8 chars) s e <> utf8 (firstn n (skipn pos chars)) /\
    slice (utf8 chars) s e = (230 :: 151 :: nil)%N.
Proof. exact next_nstr_bytes_refuted. Qed.
Print Assumptions C17_bytes_refuted.
