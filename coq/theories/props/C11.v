(* C11 -- for an accepted file the list of comments returned with the tree
   contains each comment of the source exactly once, in source order, with its
   exact text and start offset, wherever the comment sits.  No comment is
   missing and none is duplicated.

   In the model the returned list is [rev (c_all (s_d s'))] of the final state
   of [run_entry EFile p] (Parser.comments, kept newest first).
   [all_comments p] is the concatenation of the comment groups of the
   pre-scanned stream (the group in front of each token, then the group in
   front of the end of input); [stream_sorted p] says that the offsets of those
   comments strictly increase.  Prepared sources satisfy it
   ([C11_prepared_sorted]), and their comments are the scanner's comment tokens
   ([C11_prepared_comments]; by C07 a token's text is the source text at its
   offset).
   Property theorems only; proofs in proofs/CommentProofs.v (invariant) and
   proofs/LiftAnchored.v (lifting through every production). *)
From Coq Require Import String List NArith Sorted.
From GoSyn Require Import Token Tok Scanner Ast Core Policy Entry.
From GoSyn.spec Require Import Lex.
From GoSyn.proofs Require Import Lift CommentProofs.
Import ListNotations.

Theorem C11_complete : forall (p : prepared) n s',
  stream_sorted p ->
  run_entry EFile p = Ok n s' ->
  rev (c_all (s_d s')) = all_comments p.
Proof. exact file_comments_complete. Qed.
Print Assumptions C11_complete.

(* the hypothesis holds of every scanned source, whatever the Unicode classes *)
Theorem C11_prepared_sorted : forall U src p, prepare U src = Some p -> stream_sorted p.
Proof. exact prepared_sorted. Qed.
Print Assumptions C11_prepared_sorted.

(* the comments of the stream are the scanner's comment tokens in order:
   (offset, text) of every (offset, TComment text, _) of the token sequence *)
Theorem C11_prepared_comments : forall U src p, prepare U src = Some p ->
  all_comments p = comments_of (fst (scan_all_ext U src)).
Proof. exact prepared_all_comments. Qed.
Print Assumptions C11_prepared_comments.

(* from the source text to the returned list *)
Theorem C11_source : forall U src p n s',
  prepare U src = Some p ->
  run_entry EFile p = Ok n s' ->
  rev (c_all (s_d s')) = comments_of (fst (scan_all_ext U src)).
Proof.
  intros U src p n s' Hp H. rewrite <- (prepared_all_comments U src p Hp).
  exact (file_comments_complete p n s' (prepared_sorted U src p Hp) H).
Qed.
Print Assumptions C11_source.

(* none is duplicated: the offsets in the returned list are pairwise distinct *)
Theorem C11_no_duplicates : forall (p : prepared) n s',
  stream_sorted p ->
  run_entry EFile p = Ok n s' ->
  NoDup (map fst (rev (c_all (s_d s')))).
Proof. exact file_comments_nodup. Qed.
Print Assumptions C11_no_duplicates.

(* a file is accepted only when the scanner reached the end of the source *)
Theorem C11_accepted_eof : forall (p : prepared) n s',
  stream_sorted p ->
  run_entry EFile p = Ok n s' ->
  exists a g, pr_term p = TEof a g.
Proof. exact file_accepted_eof. Qed.
Print Assumptions C11_accepted_eof.

(* the other entry points (Parser::expression, Parser::parse_stmt once, or n
   times on one parser) stop before the end of input: the list is then a prefix
   of the comments of the stream -- nothing duplicated, nothing out of order,
   nothing skipped in front of what was recorded.  Also at Err, and for EFile. *)
Theorem C11_entry_prefix : forall e (p : prepared) n s',
  stream_sorted p ->
  run_entry e p = Ok n s' ->
  exists rest, all_comments p = rev (c_all (s_d s')) ++ rest.
Proof. exact entry_comments_prefix_ok. Qed.
Print Assumptions C11_entry_prefix.

Theorem C11_entry_prefix_err : forall e (p : prepared) er s',
  stream_sorted p ->
  run_entry e p = Err er s' ->
  exists rest, all_comments p = rev (c_all (s_d s')) ++ rest.
Proof. exact entry_comments_prefix_err. Qed.
Print Assumptions C11_entry_prefix_err.

(* [Sorted] is enough *)
Theorem C11_sorted_enough : forall p,
  Sorted N.lt (map fst (all_comments p)) -> stream_sorted p.
Proof. exact stream_sorted_of_Sorted. Qed.
Print Assumptions C11_sorted_enough.

(* non-vacuity: comments in a struct body (trailing a field, leading a field,
   between tokens, after the ';'), in an interface body (where the parser
   backtracks), inside the brackets of a type declaration (backtracks again),
   before the package clause and before the end of input *)
Definition c11_src : str := s2l "// head
package p // pk
type T struct { // open
	a int // trailing a
	// lead b
	b int /* mid */ ; /* after */
} // close
type I interface { // i
  m() // mm
  T // emb
}
type A [n /* in */]int
// tail
".

Example C11_example :
  exists p n s',
    prepare ascii_uclass c11_src = Some p /\ stream_sorted p /\
    run_entry EFile p = Ok n s' /\
    map fst (all_comments p) = [0; 18; 40; 55; 70; 87; 99; 113; 141; 152; 162; 181; 194]%N /\
    rev (c_all (s_d s')) = all_comments p.
Proof.
  destruct (prepare ascii_uclass c11_src) as [p|] eqn:Hp; [ | vm_compute in Hp; discriminate Hp ].
  destruct (run_entry EFile p) as [n s'| | |] eqn:Hr;
    try (exfalso; vm_compute in Hp; injection Hp as <-; vm_compute in Hr; discriminate Hr).
  exists p, n, s'. split; [ reflexivity | ].
  split; [ exact (C11_prepared_sorted _ _ _ Hp) | ].
  split; [ exact Hr | ].
  split; [ vm_compute in Hp; injection Hp as <-; vm_compute; reflexivity | ].
  exact (C11_complete p n s' (C11_prepared_sorted _ _ _ Hp) Hr).
Qed.
