(* C03 (shapes) -- "For an accepted file the tree has exactly the structure the
   spec's grammar gives that text: ... parameter/field grouping, statements with
   their init/condition/post/else/label/case parts, ... channel direction
   association, ... define vs assign".

   The four places where the tree is assembled AFTER the fact, each characterised
   exactly, for every instance of the polymorphic core.  Property theorems only;
   vocabulary and proofs in proofs/ShapeProofs.v (which also has vm_compute
   examples on concrete token streams for every shape below). *)
From Coq Require Import List Arith NArith Lia Bool.
From GoSyn Require Import Token Tok Ast Core.
From GoSyn.proofs Require Import PrecProofs ShapeProofs.
Import ListNotations.

(* ------------------------------------------------------------ 1. channel direction association (reset_chan_arrow)
   [directions typ]: the directions d1 d2 .. (0 `chan`, 1 `chan<-`, 2 `<-chan`) of the nest
   chan d1 (chan d2 (.. T)), outermost first; [chan_elem]: T; [undirected]: the nest without
   positions and directions.  [reassoc] is the re-association on direction lists:
   k >= 0 sends followed by a bare channel become k+1 receive-only channels, the rest of
   the nest is untouched; a receive-only channel where an arrow has to be absorbed
   (ErrRecv, site 71) or sends down to a non-channel element (ErrElem, site 72) fail. *)

Theorem C03_reassoc_some_iff :
  forall l l' : list nat,
  Forall (fun d : nat => d <= 2) l ->
  reassoc l = Some l' <->
  (exists (k : nat) (r : list nat), l = repeat 1 k ++ 0 :: r /\ l' = repeat 2 (S k) ++ r).
Proof. exact reassoc_some_iff. Qed.
Print Assumptions C03_reassoc_some_iff.

Theorem C03_reassoc_none_iff :
  forall l : list nat,
  Forall (fun d : nat => d <= 2) l ->
  reassoc l = None <->
  (exists (k : nat) (r : list nat), l = repeat 1 k ++ 2 :: r) \/
  (exists k : nat, l = repeat 1 k).
Proof. exact reassoc_none_iff. Qed.
Print Assumptions C03_reassoc_none_iff.

Theorem C03_reassoc_err_recv_iff :
  forall l : list nat,
  Forall (fun d : nat => d <= 2) l ->
  reassoc_err l = Some ErrRecv <-> (exists (k : nat) (r : list nat), l = repeat 1 k ++ 2 :: r).
Proof. exact reassoc_err_recv_iff. Qed.
Print Assumptions C03_reassoc_err_recv_iff.

Theorem C03_reassoc_err_elem_iff :
  forall l : list nat,
  Forall (fun d : nat => d <= 2) l ->
  reassoc_err l = Some ErrElem <-> (exists k : nat, l = repeat 1 k).
Proof. exact reassoc_err_elem_iff. Qed.
Print Assumptions C03_reassoc_err_elem_iff.

Theorem C03_reset_chan_arrow_spec :
  forall (A C E : Type) (typ : node A C) (pos : A),
  is_tag GTypeChannel typ = true ->
  match reset_chan_arrow A C E pos typ with
  | inl typ' =>
      reassoc (directions typ) = Some (directions typ') /\
      is_tag GTypeChannel typ' = true /\
      chan_elem typ' = chan_elem typ /\ undirected typ' = undirected typ
  | inr e =>
      reassoc (directions typ) = None /\ chan_err_of A E e = reassoc_err (directions typ)
  end.
Proof. exact reset_chan_arrow_spec. Qed.
Print Assumptions C03_reset_chan_arrow_spec.

Theorem C03_reset_chan_arrow_positions :
  forall (A C E : Type) (typ : node A C) (pos dflt : A),
  is_tag GTypeChannel typ = true ->
  chan_wf typ ->
  match reset_chan_arrow A C E pos typ with
  | inl typ' =>
      chan_wf typ' /\
      chan_poss dflt typ' = chan_poss dflt typ /\
      arrow_poss dflt typ' =
      shift_arrows A (reassoc_depth (directions typ)) pos (arrow_poss dflt typ)
  | inr e =>
      e =
      match reassoc_err (directions typ) with
      | Some ErrRecv =>
          PUnexpected (nth (reassoc_depth (directions typ)) (arrow_poss dflt typ) dflt)
            (Some (TOperator OArrow)) 71
      | _ =>
          PElse
            (nth (Init.Nat.pred (reassoc_depth (directions typ))) (arrow_poss dflt typ) dflt)
            72
      end
  end.
Proof. exact reset_chan_arrow_positions. Qed.
Print Assumptions C03_reset_chan_arrow_positions.

Theorem C03_read_spell :
  forall l : list nat,
  Forall (fun d : nat => d <= 2) l -> canon l -> read_chan (spell l) = Some l.
Proof. exact read_spell. Qed.
Print Assumptions C03_read_spell.

Theorem C03_reassoc_same_tokens :
  forall l l' : list nat, reassoc l = Some l' -> spell l' = CArrow :: spell l.
Proof. exact reassoc_same_tokens. Qed.
Print Assumptions C03_reassoc_same_tokens.

Theorem C03_read_arrow_spell :
  forall l : list nat,
  Forall (fun d : nat => d <= 2) l -> canon l -> read_chan (CArrow :: spell l) = reassoc l.
Proof. exact read_arrow_spell. Qed.
Print Assumptions C03_read_arrow_spell.

Theorem C03_reset_chan_arrow_reads :
  forall (A C E : Type) (typ : node A C) (pos : A),
  is_tag GTypeChannel typ = true ->
  Forall (fun d : nat => d <= 2) (directions typ) ->
  canon (directions typ) ->
  match reset_chan_arrow A C E pos typ with
  | inl typ' =>
      spell (directions typ') = CArrow :: spell (directions typ) /\
      read_chan (CArrow :: spell (directions typ)) = Some (directions typ') /\
      canon (directions typ') /\ Forall (fun d : nat => d <= 2) (directions typ')
  | inr _ => read_chan (CArrow :: spell (directions typ)) = None
  end.
Proof. exact reset_chan_arrow_reads. Qed.
Print Assumptions C03_reset_chan_arrow_reads.

Theorem C03_unary_arrow :
  forall (A G D C E : Type) (OPS : ops A G D C) (self : parsers A G D C E)
    (s s1 s2 : pstate A G D E) (pos : A) (x : node A C),
  s_cur A G D E s = Some (pos, TOperator OArrow) ->
  next A G D C E OPS s = Ok tt s1 ->
  k_unary A G D C E self s1 = Ok x s2 ->
  unary_body A G D C E OPS self s =
  (if is_tag GTypeChannel x
   then match reset_chan_arrow A C E pos x with
        | inl t => Ok t s2
        | inr e => Err e s2
        end
   else Ok (n_operation A C pos OArrow x None) s2).
Proof. exact unary_arrow. Qed.
Print Assumptions C03_unary_arrow.

(* ------------------------------------------------------------ 2. the kind of a simple statement (parse_simple_stmt)
   for ARBITRARY recursive parsers [self]: the kind is decided by the one token that
   follows the expression list ([classify_simple]); define vs assign is that token. *)

Theorem C03_simple_stmt_inv :
  forall (A G D C E : Type) (OPS : ops A G D C) (self : parsers A G D C E)
    (s : pstate A G D E) (st : node A C) (s' : pstate A G D E),
  parse_simple_stmt A G D C E OPS self s = Ok st s' ->
  exists (l : list (node A C)) (s1 : pstate A G D E) (pos : A) (tok : token),
    expression_list A G D C E OPS self s = Ok l s1 /\
    s_cur A G D E s1 = Some (pos, tok) /\
    match classify_simple tok with
    | CAssign op =>
        exists (s2 : pstate A G D E) (r : list (node A C)),
          next A G D C E OPS s1 = Ok tt s2 /\
          st = mk A C GAssign [pos] [AOp op] [nlist l; nlist r] /\
          length r <= length l /\
          (op = ODefine -> forallb (is_tag GIdent) l = true) /\
          (if cur_is A G D E s2 (KKw KRange) && (op_eqb op OAssign || op_eqb op ODefine)
           then
            exists (pr : A) (s2' : pstate A G D E) (x : node A C),
              expect A G D C E OPS (KKw KRange) 73 s2 = Ok pr s2' /\
              k_expr A G D C E self s2' = Ok x s' /\ r = [mk A C GRange [pr] [] [x]]
           else expression_list A G D C E OPS self s2 = Ok r s')
    | CLabel =>
        exists (e : node A C) (s2 : pstate A G D E) (stmt : node A C),
          l = [e] /\
          is_tag GIdent e = true /\
          next A G D C E OPS s1 = Ok tt s2 /\
          k_stmt A G D C E self s2 = Ok stmt s' /\ st = mk A C GLabel [pos] [] [e; stmt]
    | CSend =>
        exists (e : node A C) (s2 : pstate A G D E) (v : node A C),
          l = [e] /\
          next A G D C E OPS s1 = Ok tt s2 /\
          k_expr A G D C E self s2 = Ok v s' /\ st = mk A C GSend [pos] [] [e; v]
    | CIncDec op =>
        exists e : node A C,
          l = [e] /\
          next A G D C E OPS s1 = Ok tt s' /\ st = mk A C GIncDec [pos] [AOp op] [e]
    | CExpr => exists e : node A C, l = [e] /\ s' = s1 /\ st = mk A C GExprStmt [] [] [e]
    end.
Proof. exact simple_stmt_inv. Qed.
Print Assumptions C03_simple_stmt_inv.

Theorem C03_simple_stmt_kind :
  forall (A G D C E : Type) (OPS : ops A G D C) (self : parsers A G D C E)
    (s : pstate A G D E) (st : node A C) (s' : pstate A G D E),
  parse_simple_stmt A G D C E OPS self s = Ok st s' ->
  exists (l : list (node A C)) (s1 : pstate A G D E) (pos : A) (tok : token),
    expression_list A G D C E OPS self s = Ok l s1 /\
    s_cur A G D E s1 = Some (pos, tok) /\
    n_tag st = simple_tag (classify_simple tok) /\ n_ats st = simple_ats (classify_simple tok).
Proof. exact simple_stmt_kind. Qed.
Print Assumptions C03_simple_stmt_kind.

Theorem C03_expression_list_nonempty :
  forall (A G D C E : Type) (OPS : ops A G D C) (self : parsers A G D C E)
    (s : pstate A G D E) (l : list (node A C)) (s' : pstate A G D E),
  expression_list A G D C E OPS self s = Ok l s' -> 1 <= length l.
Proof. exact expression_list_nonempty. Qed.
Print Assumptions C03_expression_list_nonempty.

Theorem C03_ss_eof :
  forall (A G D C E : Type) (OPS : ops A G D C) (self : parsers A G D C E)
    (s s1 : pstate A G D E) (l : list (node A C)),
  expression_list A G D C E OPS self s = Ok l s1 ->
  s_cur A G D E s1 = None ->
  parse_simple_stmt A G D C E OPS self s = Err (else_error A G D E s1 76) s1.
Proof. exact ss_eof. Qed.
Print Assumptions C03_ss_eof.

Theorem C03_ss_assign :
  forall (A G D C E : Type) (OPS : ops A G D C) (self : parsers A G D C E)
    (s s1 : pstate A G D E) (l : list (node A C)),
  expression_list A G D C E OPS self s = Ok l s1 ->
  forall (pos : A) (op : operator) (s2 : pstate A G D E) (r : list (node A C))
    (s3 : pstate A G D E),
  s_cur A G D E s1 = Some (pos, TOperator op) ->
  is_assign_op op = true ->
  next A G D C E OPS s1 = Ok tt s2 ->
  cur_is A G D E s2 (KKw KRange) && (op_eqb op OAssign || op_eqb op ODefine) = false ->
  expression_list A G D C E OPS self s2 = Ok r s3 ->
  (op = ODefine -> forallb (is_tag GIdent) l = true) ->
  parse_simple_stmt A G D C E OPS self s =
  (if length l <? length r
   then Err (else_error_at A E pos 77) s3
   else Ok (mk A C GAssign [pos] [AOp op] [nlist l; nlist r]) s3).
Proof. exact ss_assign. Qed.
Print Assumptions C03_ss_assign.

Theorem C03_ss_define_err :
  forall (A G D C E : Type) (OPS : ops A G D C) (self : parsers A G D C E)
    (s s1 : pstate A G D E) (l : list (node A C)),
  expression_list A G D C E OPS self s = Ok l s1 ->
  forall (pos : A) (s2 : pstate A G D E) (r : list (node A C)) (s3 : pstate A G D E)
    (l1 : list (node A C)) (e0 : node A C) (l2 : list (node A C)),
  s_cur A G D E s1 = Some (pos, TOperator ODefine) ->
  next A G D C E OPS s1 = Ok tt s2 ->
  cur_is A G D E s2 (KKw KRange) = false ->
  expression_list A G D C E OPS self s2 = Ok r s3 ->
  l = l1 ++ e0 :: l2 ->
  forallb (is_tag GIdent) l1 = true ->
  is_tag GIdent e0 = false ->
  parse_simple_stmt A G D C E OPS self s =
  match expr_pos A C e0 with
  | Some p => Err (else_error_at A E p 75) s3
  | None => Panic 642
  end.
Proof. exact ss_define_err. Qed.
Print Assumptions C03_ss_define_err.

Theorem C03_ss_range :
  forall (A G D C E : Type) (OPS : ops A G D C) (self : parsers A G D C E)
    (s s1 : pstate A G D E) (l : list (node A C)),
  expression_list A G D C E OPS self s = Ok l s1 ->
  forall (pos : A) (op : operator) (s2 : pstate A G D E) (pr : A) 
    (s2' : pstate A G D E) (x : node A C) (s3 : pstate A G D E),
  s_cur A G D E s1 = Some (pos, TOperator op) ->
  op = OAssign \/ op = ODefine ->
  next A G D C E OPS s1 = Ok tt s2 ->
  cur_is A G D E s2 (KKw KRange) = true ->
  expect A G D C E OPS (KKw KRange) 73 s2 = Ok pr s2' ->
  k_expr A G D C E self s2' = Ok x s3 ->
  (op = ODefine -> forallb (is_tag GIdent) l = true) ->
  parse_simple_stmt A G D C E OPS self s =
  Ok (mk A C GAssign [pos] [AOp op] [nlist l; nlist [mk A C GRange [pr] [] [x]]]) s3.
Proof. exact ss_range. Qed.
Print Assumptions C03_ss_range.

Theorem C03_ss_label :
  forall (A G D C E : Type) (OPS : ops A G D C) (self : parsers A G D C E)
    (s s1 : pstate A G D E) (l : list (node A C)),
  expression_list A G D C E OPS self s = Ok l s1 ->
  forall (pos : A) (e : node A C) (s2 : pstate A G D E) (st : node A C) (s3 : pstate A G D E),
  s_cur A G D E s1 = Some (pos, TOperator OColon) ->
  l = [e] ->
  is_tag GIdent e = true ->
  next A G D C E OPS s1 = Ok tt s2 ->
  k_stmt A G D C E self s2 = Ok st s3 ->
  parse_simple_stmt A G D C E OPS self s = Ok (mk A C GLabel [pos] [] [e; st]) s3.
Proof. exact ss_label. Qed.
Print Assumptions C03_ss_label.

Theorem C03_ss_label_err :
  forall (A G D C E : Type) (OPS : ops A G D C) (self : parsers A G D C E)
    (s s1 : pstate A G D E) (l : list (node A C)),
  expression_list A G D C E OPS self s = Ok l s1 ->
  forall (pos : A) (e : node A C),
  s_cur A G D E s1 = Some (pos, TOperator OColon) ->
  l = [e] ->
  is_tag GIdent e = false ->
  parse_simple_stmt A G D C E OPS self s = Err (else_error_at A E pos 78) s1.
Proof. exact ss_label_err. Qed.
Print Assumptions C03_ss_label_err.

Theorem C03_ss_send :
  forall (A G D C E : Type) (OPS : ops A G D C) (self : parsers A G D C E)
    (s s1 : pstate A G D E) (l : list (node A C)),
  expression_list A G D C E OPS self s = Ok l s1 ->
  forall (pos : A) (e : node A C) (s2 : pstate A G D E) (v : node A C) (s3 : pstate A G D E),
  s_cur A G D E s1 = Some (pos, TOperator OArrow) ->
  l = [e] ->
  next A G D C E OPS s1 = Ok tt s2 ->
  k_expr A G D C E self s2 = Ok v s3 ->
  parse_simple_stmt A G D C E OPS self s = Ok (mk A C GSend [pos] [] [e; v]) s3.
Proof. exact ss_send. Qed.
Print Assumptions C03_ss_send.

Theorem C03_ss_incdec :
  forall (A G D C E : Type) (OPS : ops A G D C) (self : parsers A G D C E)
    (s s1 : pstate A G D E) (l : list (node A C)),
  expression_list A G D C E OPS self s = Ok l s1 ->
  forall (pos : A) (op : operator) (e : node A C) (s2 : pstate A G D E),
  s_cur A G D E s1 = Some (pos, TOperator op) ->
  op = OInc \/ op = ODec ->
  l = [e] ->
  next A G D C E OPS s1 = Ok tt s2 ->
  parse_simple_stmt A G D C E OPS self s = Ok (mk A C GIncDec [pos] [AOp op] [e]) s2.
Proof. exact ss_incdec. Qed.
Print Assumptions C03_ss_incdec.

Theorem C03_ss_expr :
  forall (A G D C E : Type) (OPS : ops A G D C) (self : parsers A G D C E)
    (s s1 : pstate A G D E) (l : list (node A C)),
  expression_list A G D C E OPS self s = Ok l s1 ->
  forall (pos : A) (tok : token) (e : node A C),
  s_cur A G D E s1 = Some (pos, tok) ->
  classify_simple tok = CExpr ->
  l = [e] -> parse_simple_stmt A G D C E OPS self s = Ok (mk A C GExprStmt [] [] [e]) s1.
Proof. exact ss_expr. Qed.
Print Assumptions C03_ss_expr.

Theorem C03_ss_many_err :
  forall (A G D C E : Type) (OPS : ops A G D C) (self : parsers A G D C E)
    (s s1 : pstate A G D E) (l : list (node A C)),
  expression_list A G D C E OPS self s = Ok l s1 ->
  forall (pos : A) (tok : token) (e1 e2 : node A C) (r : list (node A C)),
  s_cur A G D E s1 = Some (pos, tok) ->
  (forall op : operator, classify_simple tok <> CAssign op) ->
  l = e1 :: e2 :: r ->
  parse_simple_stmt A G D C E OPS self s =
  match expr_pos A C e1 with
  | Some p => Err (else_error_at A E p 74) s1
  | None => Panic 642
  end.
Proof. exact ss_many_err. Qed.
Print Assumptions C03_ss_many_err.

(* ------------------------------------------------------------ 3. parameter grouping (parse_parameter_decl / param_decl_loop)
   the stream is described by the chain of Parser::next results and the current tokens;
   the type T is whatever [k_type self] returns at that point.  [more_names s ids s']:
   from s the tokens are `, b1 , b2 .. , bk`, ids are those identifiers, s' is the state after. *)

Theorem C03_param_name_type :
  forall (A G D C E : Type) (OPS : ops A G D C) (self : parsers A G D C E)
    (s s1 s2 : pstate A G D E) (pa : A) (a : str) (p1 : A) (t1 : token) 
    (T : node A C),
  s_cur A G D E s = Some (pa, TLiteral LIdent a) ->
  next A G D C E OPS s = Ok tt s1 ->
  s_cur A G D E s1 = Some (p1, t1) ->
  param_type_start t1 = true ->
  k_type A G D C E self s1 = Ok T s2 ->
  cur_is A G D E s2 (KOp OOr) = false ->
  parse_parameter_decl A G D C E OPS self s =
  Ok [n_field A C [n_ident A C pa a] T None (c_empty A G D C OPS)] s2.
Proof. exact param_name_type. Qed.
Print Assumptions C03_param_name_type.

Theorem C03_param_names_type :
  forall (A G D C E : Type) (OPS : ops A G D C) (self : parsers A G D C E)
    (s s1 s2 s3 s4 : pstate A G D E) (pa : A) (a : str) (pc pb : A) 
    (b : str) (p3 : A) (t3 : token) (T : node A C),
  s_cur A G D E s = Some (pa, TLiteral LIdent a) ->
  next A G D C E OPS s = Ok tt s1 ->
  s_cur A G D E s1 = Some (pc, TOperator OComma) ->
  next A G D C E OPS s1 = Ok tt s2 ->
  s_cur A G D E s2 = Some (pb, TLiteral LIdent b) ->
  next A G D C E OPS s2 = Ok tt s3 ->
  s_cur A G D E s3 = Some (p3, t3) ->
  param_type_start t3 = true ->
  k_type A G D C E self s3 = Ok T s4 ->
  cur_is A G D E s4 (KOp OOr) = false ->
  parse_parameter_decl A G D C E OPS self s =
  Ok [n_field A C [n_ident A C pa a; n_ident A C pb b] T None (c_empty A G D C OPS)] s4.
Proof. exact param_names_type. Qed.
Print Assumptions C03_param_names_type.

Theorem C03_param_group_named :
  forall (A G D C E : Type) (OPS : ops A G D C) (self : parsers A G D C E)
    (s s1 s' s'' : pstate A G D E) (pa : A) (a : str) (more : list (node A C)) 
    (p : A) (t : token) (T : node A C),
  s_cur A G D E s = Some (pa, TLiteral LIdent a) ->
  next A G D C E OPS s = Ok tt s1 ->
  more_names A G D C E OPS s1 more s' ->
  s_cur A G D E s' = Some (p, t) ->
  param_type_start t = true ->
  k_type A G D C E self s' = Ok T s'' ->
  cur_is A G D E s'' (KOp OOr) = false ->
  parse_parameter_decl A G D C E OPS self s =
  Ok [n_field A C (n_ident A C pa a :: more) T None (c_empty A G D C OPS)] s''.
Proof. exact param_group_named. Qed.
Print Assumptions C03_param_group_named.

Theorem C03_param_type_only :
  forall (A G D C E : Type) (OPS : ops A G D C) (self : parsers A G D C E)
    (s s1 : pstate A G D E) (pa : A) (a : str) (p1 : A),
  s_cur A G D E s = Some (pa, TLiteral LIdent a) ->
  next A G D C E OPS s = Ok tt s1 ->
  s_cur A G D E s1 = Some (p1, TOperator OParenRight) ->
  parse_parameter_decl A G D C E OPS self s = Ok [field_of A G D C OPS (n_ident A C pa a)] s1.
Proof. exact param_type_only. Qed.
Print Assumptions C03_param_type_only.

Theorem C03_param_type_comma :
  forall (A G D C E : Type) (OPS : ops A G D C) (self : parsers A G D C E)
    (s s1 s2 : pstate A G D E) (pa : A) (a : str) (pc p2 : A) (t2 : token),
  s_cur A G D E s = Some (pa, TLiteral LIdent a) ->
  next A G D C E OPS s = Ok tt s1 ->
  s_cur A G D E s1 = Some (pc, TOperator OComma) ->
  next A G D C E OPS s1 = Ok tt s2 ->
  s_cur A G D E s2 = Some (p2, t2) ->
  tok_is t2 (KLit LIdent) = false ->
  param_type_start t2 = true \/ t2 = TOperator OParenRight ->
  parse_parameter_decl A G D C E OPS self s = Ok [field_of A G D C OPS (n_ident A C pa a)] s2.
Proof. exact param_type_comma. Qed.
Print Assumptions C03_param_type_comma.

Theorem C03_param_two_types :
  forall (A G D C E : Type) (OPS : ops A G D C) (self : parsers A G D C E)
    (s s1 s2 s3 : pstate A G D E) (pa : A) (a : str) (pc pb : A) (b : str) 
    (p3 : A),
  s_cur A G D E s = Some (pa, TLiteral LIdent a) ->
  next A G D C E OPS s = Ok tt s1 ->
  s_cur A G D E s1 = Some (pc, TOperator OComma) ->
  next A G D C E OPS s1 = Ok tt s2 ->
  s_cur A G D E s2 = Some (pb, TLiteral LIdent b) ->
  next A G D C E OPS s2 = Ok tt s3 ->
  s_cur A G D E s3 = Some (p3, TOperator OParenRight) ->
  parse_parameter_decl A G D C E OPS self s =
  Ok [field_of A G D C OPS (n_ident A C pa a); field_of A G D C OPS (n_ident A C pb b)] s3.
Proof. exact param_two_types. Qed.
Print Assumptions C03_param_two_types.

Theorem C03_param_group_types :
  forall (A G D C E : Type) (OPS : ops A G D C) (self : parsers A G D C E)
    (s s1 s' : pstate A G D E) (pa : A) (a : str) (more : list (node A C)) 
    (p : A),
  s_cur A G D E s = Some (pa, TLiteral LIdent a) ->
  next A G D C E OPS s = Ok tt s1 ->
  more_names A G D C E OPS s1 more s' ->
  s_cur A G D E s' = Some (p, TOperator OParenRight) ->
  parse_parameter_decl A G D C E OPS self s =
  Ok (map (fun id : node A C => field_of A G D C OPS id) (n_ident A C pa a :: more)) s'.
Proof. exact param_group_types. Qed.
Print Assumptions C03_param_group_types.

Theorem C03_param_name_ellipsis :
  forall (A G D C E : Type) (OPS : ops A G D C) (self : parsers A G D C E)
    (s s1 s2 s3 : pstate A G D E) (pa : A) (a : str) (pe : A) (T : node A C),
  s_cur A G D E s = Some (pa, TLiteral LIdent a) ->
  next A G D C E OPS s = Ok tt s1 ->
  s_cur A G D E s1 = Some (pe, TOperator ODotDotDot) ->
  next A G D C E OPS s1 = Ok tt s2 ->
  k_type A G D C E self s2 = Ok T s3 ->
  parse_parameter_decl A G D C E OPS self s =
  Ok
    [n_field A C [n_ident A C pa a] (mk A C GEllipsis [pe] [] [T]) None (c_empty A G D C OPS)]
    s3.
Proof. exact param_name_ellipsis. Qed.
Print Assumptions C03_param_name_ellipsis.

Theorem C03_param_names_ellipsis_err :
  forall (A G D C E : Type) (OPS : ops A G D C) (self : parsers A G D C E)
    (s s1 s2 s3 s4 s5 : pstate A G D E) (pa : A) (a : str) (pc pb : A) 
    (b : str) (pe : A) (T : node A C),
  s_cur A G D E s = Some (pa, TLiteral LIdent a) ->
  next A G D C E OPS s = Ok tt s1 ->
  s_cur A G D E s1 = Some (pc, TOperator OComma) ->
  next A G D C E OPS s1 = Ok tt s2 ->
  s_cur A G D E s2 = Some (pb, TLiteral LIdent b) ->
  next A G D C E OPS s2 = Ok tt s3 ->
  s_cur A G D E s3 = Some (pe, TOperator ODotDotDot) ->
  next A G D C E OPS s3 = Ok tt s4 ->
  k_type A G D C E self s4 = Ok T s5 ->
  parse_parameter_decl A G D C E OPS self s = Err (else_error A G D E s3 24) s3.
Proof. exact param_names_ellipsis_err. Qed.
Print Assumptions C03_param_names_ellipsis_err.

Theorem C03_param_qualified :
  forall (A G D C E : Type) (OPS : ops A G D C) (self : parsers A G D C E)
    (s s1 s2 s3 : pstate A G D E) (pp : A) (pkg : str) (pd pt : A) 
    (t : str),
  s_cur A G D E s = Some (pp, TLiteral LIdent pkg) ->
  next A G D C E OPS s = Ok tt s1 ->
  s_cur A G D E s1 = Some (pd, TOperator ODot) ->
  next A G D C E OPS s1 = Ok tt s2 ->
  s_cur A G D E s2 = Some (pt, TLiteral LIdent t) ->
  next A G D C E OPS s2 = Ok tt s3 ->
  cur_is A G D E s3 (KOp OBarackLeft) = false ->
  parse_parameter_decl A G D C E OPS self s =
  Ok [field_of A G D C OPS (mk A C GSelector [pd] [] [n_ident A C pp pkg; n_ident A C pt t])]
    s3.
Proof. exact param_qualified. Qed.
Print Assumptions C03_param_qualified.

Theorem C03_param_type_qualified :
  forall (A G D C E : Type) (OPS : ops A G D C) (self : parsers A G D C E)
    (s s1 s2 s3 s4 s5 : pstate A G D E) (pa : A) (a : str) (pc pp : A) 
    (pkg : str) (pd pt : A) (t : str),
  s_cur A G D E s = Some (pa, TLiteral LIdent a) ->
  next A G D C E OPS s = Ok tt s1 ->
  s_cur A G D E s1 = Some (pc, TOperator OComma) ->
  next A G D C E OPS s1 = Ok tt s2 ->
  s_cur A G D E s2 = Some (pp, TLiteral LIdent pkg) ->
  next A G D C E OPS s2 = Ok tt s3 ->
  s_cur A G D E s3 = Some (pd, TOperator ODot) ->
  next A G D C E OPS s3 = Ok tt s4 ->
  s_cur A G D E s4 = Some (pt, TLiteral LIdent t) ->
  next A G D C E OPS s4 = Ok tt s5 ->
  cur_is A G D E s5 (KOp OBarackLeft) = false ->
  parse_parameter_decl A G D C E OPS self s =
  Ok
    [field_of A G D C OPS (n_ident A C pa a);
     field_of A G D C OPS (mk A C GSelector [pd] [] [n_ident A C pp pkg; n_ident A C pt t])]
    s5.
Proof. exact param_type_qualified. Qed.
Print Assumptions C03_param_type_qualified.

Theorem C03_param_ellipsis_only :
  forall (A G D C E : Type) (OPS : ops A G D C) (self : parsers A G D C E)
    (s s1 s2 : pstate A G D E) (pe : A) (T : node A C),
  s_cur A G D E s = Some (pe, TOperator ODotDotDot) ->
  next A G D C E OPS s = Ok tt s1 ->
  k_type A G D C E self s1 = Ok T s2 ->
  parse_parameter_decl A G D C E OPS self s =
  Ok [field_of A G D C OPS (mk A C GEllipsis [pe] [] [T])] s2.
Proof. exact param_ellipsis_only. Qed.
Print Assumptions C03_param_ellipsis_only.

Theorem C03_param_nonident_type :
  forall (A G D C E : Type) (OPS : ops A G D C) (self : parsers A G D C E)
    (s s1 : pstate A G D E) (T : node A C),
  cur_is A G D E s (KOp ODotDotDot) = false ->
  cur_is A G D E s (KLit LIdent) = false ->
  k_type A G D C E self s = Ok T s1 ->
  parse_parameter_decl A G D C E OPS self s = Ok [field_of A G D C OPS T] s1.
Proof. exact param_nonident_type. Qed.
Print Assumptions C03_param_nonident_type.

(* ------------------------------------------------------------ 4. if / for headers (parse_if_header, if_body, parse_for_stmt)
   headers run at expr_level -1 ([reset_level]) and restore the level afterwards. *)

Theorem C03_ifh_brace :
  forall (A G D C E : Type) (OPS : ops A G D C) (self : parsers A G D C E)
    (s : pstate A G D E),
  cur_is A G D E s (KOp OBraceLeft) = true ->
  parse_if_header A G D C E OPS self s = Err (else_error A G D E s 88) s.
Proof. exact ifh_brace. Qed.
Print Assumptions C03_ifh_brace.

Theorem C03_ifh_var :
  forall (A G D C E : Type) (OPS : ops A G D C) (self : parsers A G D C E)
    (s : pstate A G D E),
  cur_is A G D E s (KOp OBraceLeft) = false ->
  cur_is A G D E s (KOp OSemiColon) = false ->
  cur_is A G D E s (KKw KVar) = true ->
  parse_if_header A G D C E OPS self s =
  Err (else_error A G D E (reset_level A G D E s) 89) (reset_level A G D E s).
Proof. exact ifh_var. Qed.
Print Assumptions C03_ifh_var.

Theorem C03_ifh_cond :
  forall (A G D C E : Type) (OPS : ops A G D C) (self : parsers A G D C E)
    (s : pstate A G D E) (c : node A C) (s1 : pstate A G D E),
  cur_is A G D E s (KOp OBraceLeft) = false ->
  cur_is A G D E s (KOp OSemiColon) = false ->
  cur_is A G D E s (KKw KVar) = false ->
  parse_simple_stmt A G D C E OPS self (reset_level A G D E s) = Ok c s1 ->
  cur_is A G D E s1 (KOp OBraceLeft) = true ->
  parse_if_header A G D C E OPS self s =
  (if is_tag GExprStmt c
   then Ok (None, kid c 0) (upd_level A G D E s1 (s_lp A G D E s) (s_ln A G D E s))
   else Err (else_error A G D E s1 92) s1).
Proof. exact ifh_cond. Qed.
Print Assumptions C03_ifh_cond.

Theorem C03_ifh_init_cond :
  forall (A G D C E : Type) (OPS : ops A G D C) (self : parsers A G D C E)
    (s : pstate A G D E) (i : node A C) (s1 : pstate A G D E) (p : A) 
    (s2 : pstate A G D E) (c : node A C) (s3 : pstate A G D E),
  cur_is A G D E s (KOp OBraceLeft) = false ->
  cur_is A G D E s (KOp OSemiColon) = false ->
  cur_is A G D E s (KKw KVar) = false ->
  parse_simple_stmt A G D C E OPS self (reset_level A G D E s) = Ok i s1 ->
  cur_is A G D E s1 (KOp OBraceLeft) = false ->
  expect A G D C E OPS (KOp OSemiColon) 90 s1 = Ok p s2 ->
  parse_simple_stmt A G D C E OPS self s2 = Ok c s3 ->
  parse_if_header A G D C E OPS self s =
  (if is_tag GExprStmt c
   then Ok (Some i, kid c 0) (upd_level A G D E s3 (s_lp A G D E s) (s_ln A G D E s))
   else Err (else_error A G D E s3 92) s3).
Proof. exact ifh_init_cond. Qed.
Print Assumptions C03_ifh_init_cond.

Theorem C03_ifh_semi_cond :
  forall (A G D C E : Type) (OPS : ops A G D C) (self : parsers A G D C E)
    (s : pstate A G D E) (p : A) (s2 : pstate A G D E) (c : node A C) 
    (s3 : pstate A G D E),
  cur_is A G D E s (KOp OBraceLeft) = false ->
  cur_is A G D E s (KOp OSemiColon) = true ->
  expect A G D C E OPS (KOp OSemiColon) 90 (reset_level A G D E s) = Ok p s2 ->
  parse_simple_stmt A G D C E OPS self s2 = Ok c s3 ->
  parse_if_header A G D C E OPS self s =
  (if is_tag GExprStmt c
   then Ok (None, kid c 0) (upd_level A G D E s3 (s_lp A G D E s) (s_ln A G D E s))
   else Err (else_error A G D E s3 92) s3).
Proof. exact ifh_semi_cond. Qed.
Print Assumptions C03_ifh_semi_cond.

Theorem C03_if_header_inv :
  forall (A G D C E : Type) (OPS : ops A G D C) (self : parsers A G D C E)
    (s : pstate A G D E) (init : option (node A C)) (cond : node A C) 
    (s' : pstate A G D E),
  parse_if_header A G D C E OPS self s = Ok (init, cond) s' ->
  cur_is A G D E s (KOp OBraceLeft) = false /\
  (exists (c : node A C) (s3 : pstate A G D E),
     is_tag GExprStmt c = true /\
     cond = kid c 0 /\
     s' = upd_level A G D E s3 (s_lp A G D E s) (s_ln A G D E s) /\
     (init = None /\
      cur_is A G D E s (KOp OSemiColon) = false /\
      parse_simple_stmt A G D C E OPS self (reset_level A G D E s) = Ok c s3 /\
      cur_is A G D E s3 (KOp OBraceLeft) = true \/
      (exists (i : node A C) (s1 : pstate A G D E) (p : A) (s2 : pstate A G D E),
         init = Some i /\
         cur_is A G D E s (KOp OSemiColon) = false /\
         parse_simple_stmt A G D C E OPS self (reset_level A G D E s) = Ok i s1 /\
         cur_is A G D E s1 (KOp OBraceLeft) = false /\
         expect A G D C E OPS (KOp OSemiColon) 90 s1 = Ok p s2 /\
         parse_simple_stmt A G D C E OPS self s2 = Ok c s3) \/
      init = None /\
      cur_is A G D E s (KOp OSemiColon) = true /\
      (exists (p : A) (s2 : pstate A G D E),
         expect A G D C E OPS (KOp OSemiColon) 90 (reset_level A G D E s) = Ok p s2 /\
         parse_simple_stmt A G D C E OPS self s2 = Ok c s3))).
Proof. exact if_header_inv. Qed.
Print Assumptions C03_if_header_inv.

Theorem C03_if_body_inv :
  forall (A G D C E : Type) (OPS : ops A G D C) (self : parsers A G D C E)
    (s : pstate A G D E) (n : node A C) (s' : pstate A G D E),
  if_body A G D C E OPS self s = Ok n s' ->
  exists
    (pos : A) (s1 : pstate A G D E) (init : option (node A C)) (cond : node A C) 
  (s2 : pstate A G D E) (body : node A C) (s3 : pstate A G D E) (els : node A C),
    expect A G D C E OPS (KKw KIf) 93 s = Ok pos s1 /\
    parse_if_header A G D C E OPS self s1 = Ok (init, cond) s2 /\
    k_block A G D C E self s2 = Ok body s3 /\
    n = mk A C GIf [pos] [] [nopt init; cond; body; els] /\
    (cur_is A G D E s3 (KKw KElse) = false /\
     els = nnone /\ (exists b : bool, skipped A G D C E OPS (KOp OSemiColon) s3 = Ok b s') \/
     cur_is A G D E s3 (KKw KElse) = true /\
     (exists s4 : pstate A G D E,
        next A G D C E OPS s3 = Ok tt s4 /\
        ((exists p : A,
            s_cur A G D E s4 = Some (p, TKeyword KIf) /\ k_if A G D C E self s4 = Ok els s') \/
         (exists (p : A) (s5 : pstate A G D E) (b : bool),
            s_cur A G D E s4 = Some (p, TOperator OBraceLeft) /\
            k_block A G D C E self s4 = Ok els s5 /\
            skipped A G D C E OPS (KOp OSemiColon) s5 = Ok b s')))).
Proof. exact if_body_inv. Qed.
Print Assumptions C03_if_body_inv.

Theorem C03_if_no_else :
  forall (A G D C E : Type) (OPS : ops A G D C) (self : parsers A G D C E)
    (s s1 s2 s3 : pstate A G D E) (pos : A) (init : option (node A C)) 
    (cond body : node A C),
  expect A G D C E OPS (KKw KIf) 93 s = Ok pos s1 ->
  parse_if_header A G D C E OPS self s1 = Ok (init, cond) s2 ->
  k_block A G D C E self s2 = Ok body s3 ->
  forall (b : bool) (s5 : pstate A G D E),
  cur_is A G D E s3 (KKw KElse) = false ->
  skipped A G D C E OPS (KOp OSemiColon) s3 = Ok b s5 ->
  if_body A G D C E OPS self s = Ok (mk A C GIf [pos] [] [nopt init; cond; body; nnone]) s5.
Proof. exact if_no_else. Qed.
Print Assumptions C03_if_no_else.

Theorem C03_if_else_if :
  forall (A G D C E : Type) (OPS : ops A G D C) (self : parsers A G D C E)
    (s s1 s2 s3 : pstate A G D E) (pos : A) (init : option (node A C)) 
    (cond body : node A C),
  expect A G D C E OPS (KKw KIf) 93 s = Ok pos s1 ->
  parse_if_header A G D C E OPS self s1 = Ok (init, cond) s2 ->
  k_block A G D C E self s2 = Ok body s3 ->
  forall (s4 : pstate A G D E) (p : A) (st : node A C) (s5 : pstate A G D E),
  cur_is A G D E s3 (KKw KElse) = true ->
  next A G D C E OPS s3 = Ok tt s4 ->
  s_cur A G D E s4 = Some (p, TKeyword KIf) ->
  k_if A G D C E self s4 = Ok st s5 ->
  if_body A G D C E OPS self s = Ok (mk A C GIf [pos] [] [nopt init; cond; body; st]) s5.
Proof. exact if_else_if. Qed.
Print Assumptions C03_if_else_if.

Theorem C03_if_else_block :
  forall (A G D C E : Type) (OPS : ops A G D C) (self : parsers A G D C E)
    (s s1 s2 s3 : pstate A G D E) (pos : A) (init : option (node A C)) 
    (cond body : node A C),
  expect A G D C E OPS (KKw KIf) 93 s = Ok pos s1 ->
  parse_if_header A G D C E OPS self s1 = Ok (init, cond) s2 ->
  k_block A G D C E self s2 = Ok body s3 ->
  forall (s4 : pstate A G D E) (p : A) (blk : node A C) (s5 : pstate A G D E) 
    (b : bool) (s6 : pstate A G D E),
  cur_is A G D E s3 (KKw KElse) = true ->
  next A G D C E OPS s3 = Ok tt s4 ->
  s_cur A G D E s4 = Some (p, TOperator OBraceLeft) ->
  k_block A G D C E self s4 = Ok blk s5 ->
  skipped A G D C E OPS (KOp OSemiColon) s5 = Ok b s6 ->
  if_body A G D C E OPS self s = Ok (mk A C GIf [pos] [] [nopt init; cond; body; blk]) s6.
Proof. exact if_else_block. Qed.
Print Assumptions C03_if_else_block.

Theorem C03_if_else_err :
  forall (A G D C E : Type) (OPS : ops A G D C) (self : parsers A G D C E)
    (s s1 s2 s3 : pstate A G D E) (pos : A) (init : option (node A C)) 
    (cond body : node A C),
  expect A G D C E OPS (KKw KIf) 93 s = Ok pos s1 ->
  parse_if_header A G D C E OPS self s1 = Ok (init, cond) s2 ->
  k_block A G D C E self s2 = Ok body s3 ->
  forall s4 : pstate A G D E,
  cur_is A G D E s3 (KKw KElse) = true ->
  next A G D C E OPS s3 = Ok tt s4 ->
  cur_is A G D E s4 (KKw KIf) = false ->
  cur_is A G D E s4 (KOp OBraceLeft) = false ->
  if_body A G D C E OPS self s = Err (else_error A G D E s4 95) s4.
Proof. exact if_else_err. Qed.
Print Assumptions C03_if_else_err.

Theorem C03_for_range_bare :
  forall (A G D C E : Type) (OPS : ops A G D C) (self : parsers A G D C E)
    (s s1 : pstate A G D E) (pos : A),
  expect A G D C E OPS (KKw KFor) 111 s = Ok pos s1 ->
  forall (pr : A) (s3 : pstate A G D E) (x : node A C) (s4 : pstate A G D E) 
    (body : node A C) (s5 : pstate A G D E),
  cur_is A G D E s1 (KKw KRange) = true ->
  expect A G D C E OPS (KKw KRange) 112 (reset_level A G D E s1) = Ok pr s3 ->
  k_expr A G D C E self s3 = Ok x s4 ->
  k_block A G D C E self (upd_level A G D E s4 (s_lp A G D E s1) (s_ln A G D E s1)) =
  Ok body s5 ->
  parse_for_stmt A G D C E OPS self s =
  Ok (mk A C GRangeStmt [pos; pr] [] [nnone; nnone; nnone; x; body]) s5.
Proof. exact for_range_bare. Qed.
Print Assumptions C03_for_range_bare.

Theorem C03_for_bare :
  forall (A G D C E : Type) (OPS : ops A G D C) (self : parsers A G D C E)
    (s s1 : pstate A G D E) (pos : A),
  expect A G D C E OPS (KKw KFor) 111 s = Ok pos s1 ->
  forall (body : node A C) (s3 : pstate A G D E),
  cur_is A G D E s1 (KKw KRange) = false ->
  cur_is A G D E s1 (KOp OBraceLeft) = true ->
  k_block A G D C E self
    (upd_level A G D E (reset_level A G D E s1) (s_lp A G D E s1) (s_ln A G D E s1)) =
  Ok body s3 ->
  parse_for_stmt A G D C E OPS self s =
  Ok (mk A C GFor [pos] [] [nnone; nnone; nnone; body]) s3.
Proof. exact for_bare. Qed.
Print Assumptions C03_for_bare.

Theorem C03_for_cond :
  forall (A G D C E : Type) (OPS : ops A G D C) (self : parsers A G D C E)
    (s s1 : pstate A G D E) (pos : A),
  expect A G D C E OPS (KKw KFor) 111 s = Ok pos s1 ->
  forall (st : node A C) (s3 : pstate A G D E) (body : node A C) (s5 : pstate A G D E),
  cur_is A G D E s1 (KKw KRange) = false ->
  cur_is A G D E s1 (KOp OBraceLeft) = false ->
  cur_is A G D E s1 (KOp OSemiColon) = false ->
  parse_simple_stmt A G D C E OPS self (reset_level A G D E s1) = Ok st s3 ->
  assign_is_range A C st = false ->
  cur_is A G D E s3 (KOp OSemiColon) = false ->
  k_block A G D C E self (upd_level A G D E s3 (s_lp A G D E s1) (s_ln A G D E s1)) =
  Ok body s5 ->
  parse_for_stmt A G D C E OPS self s = Ok (mk A C GFor [pos] [] [nnone; st; nnone; body]) s5.
Proof. exact for_cond. Qed.
Print Assumptions C03_for_cond.

Theorem C03_for_clauses :
  forall (A G D C E : Type) (OPS : ops A G D C) (self : parsers A G D C E)
    (s s1 : pstate A G D E) (pos : A),
  expect A G D C E OPS (KKw KFor) 111 s = Ok pos s1 ->
  forall (init : option (node A C)) (s3 s4 : pstate A G D E) (cond : option (node A C))
    (s5 : pstate A G D E) (p : A) (s6 : pstate A G D E) (post : option (node A C))
    (s7 : pstate A G D E) (body : node A C) (s8 : pstate A G D E),
  cur_is A G D E s1 (KKw KRange) = false ->
  cur_is A G D E s1 (KOp OBraceLeft) = false ->
  for_init A G D C E OPS self s1 init s3 ->
  cur_is A G D E s3 (KOp OSemiColon) = true ->
  next A G D C E OPS s3 = Ok tt s4 ->
  opt_clause A G D C E OPS self (KOp OSemiColon) s4 cond s5 ->
  expect A G D C E OPS (KOp OSemiColon) 113 s5 = Ok p s6 ->
  opt_clause A G D C E OPS self (KOp OBraceLeft) s6 post s7 ->
  k_block A G D C E self (upd_level A G D E s7 (s_lp A G D E s1) (s_ln A G D E s1)) =
  Ok body s8 ->
  parse_for_stmt A G D C E OPS self s =
  Ok (mk A C GFor [pos] [] [nopt init; nopt cond; nopt post; body]) s8.
Proof. exact for_clauses. Qed.
Print Assumptions C03_for_clauses.

Theorem C03_for_range_assign :
  forall (A G D C E : Type) (OPS : ops A G D C) (self : parsers A G D C E)
    (s s1 : pstate A G D E) (pos : A),
  expect A G D C E OPS (KKw KFor) 111 s = Ok pos s1 ->
  forall (apos : A) (op : operator) (left : list (node A C)) (pr : A) 
    (x : node A C) (s3 : pstate A G D E) (body : node A C) (s4 : pstate A G D E),
  cur_is A G D E s1 (KKw KRange) = false ->
  cur_is A G D E s1 (KOp OBraceLeft) = false ->
  cur_is A G D E s1 (KOp OSemiColon) = false ->
  parse_simple_stmt A G D C E OPS self (reset_level A G D E s1) =
  Ok (mk A C GAssign [apos] [AOp op] [nlist left; nlist [mk A C GRange [pr] [] [x]]]) s3 ->
  k_block A G D C E self (upd_level A G D E s3 (s_lp A G D E s1) (s_ln A G D E s1)) =
  Ok body s4 ->
  parse_for_stmt A G D C E OPS self s =
  (if 3 <=? length left
   then Err (else_error_at A E apos 114) s3
   else
    Ok
      (mk A C GRangeStmt [pos; pr] []
         [nopt (nth_error left 0); nopt (nth_error left 1); Nd GPos [apos] [AOp op] [] []; x;
          body]) s4).
Proof. exact for_range_assign. Qed.
Print Assumptions C03_for_range_assign.

(* ------------------------------------------------------------ non-vacuity: the closed parser on concrete
   token streams (positions = token indices, PrecProofs.demo_ops; demo_expr / demo_simple /
   demo_param / demo_stmt run k_expr / parse_simple_stmt / parse_parameter_decl / k_stmt of
   [parsers_at 30] and report the result and the token the parser stopped at).
   The last two record text the model ACCEPTS although the spec's grammar does not
   derive it: a non-expression in the condition slot of a for, a range clause
   outside a for. *)

Example C03_ex_chan_recv :
  demo_expr [top OArrow; kw KChan; t_int] =
  Accepted (Nd GTypeChannel [1; 0] [ADir 2] [] [n_ident nat unit 2 [105%N]]) None.
Proof. exact ex_chan_recv. Qed.

Example C03_ex_chan_recv_send :
  demo_expr [top OArrow; kw KChan; top OArrow; kw KChan; t_int] =
  Accepted
    (Nd GTypeChannel [1; 0] [ADir 2] []
       [Nd GTypeChannel [3; 2] [ADir 2] [] [n_ident nat unit 4 [105%N]]]) None.
Proof. exact ex_chan_recv_send. Qed.

Example C03_ex_chan_recv_send_send :
  demo_expr [top OArrow; kw KChan; top OArrow; kw KChan; top OArrow; kw KChan; t_int] =
  Accepted
    (Nd GTypeChannel [1; 0] [ADir 2] []
       [Nd GTypeChannel [3; 2] [ADir 2] []
          [Nd GTypeChannel [5; 4] [ADir 2] [] [n_ident nat unit 6 [105%N]]]]) None.
Proof. exact ex_chan_recv_send_send. Qed.

Example C03_ex_chan_err_elem :
  demo_expr [top OArrow; kw KChan; top OArrow; t_int] = Rejected (PElse 2 72) None.
Proof. exact ex_chan_err_elem. Qed.

Example C03_ex_chan_err_recv :
  demo_expr [top OArrow; kw KChan; top OArrow; top OArrow; kw KChan; t_int] =
  Rejected (PUnexpected 3 (Some (TOperator OArrow)) 71) None.
Proof. exact ex_chan_err_recv. Qed.

Example C03_ex_reassoc :
  reassoc [0] = Some [2] /\
  reassoc [1; 0] = Some [2; 2] /\
  reassoc [1; 1; 0] = Some [2; 2; 2] /\
  reassoc [1; 0; 1; 0] = Some [2; 2; 1; 0] /\
  reassoc [2] = None /\
  reassoc [1; 2] = None /\
  reassoc [1] = None /\
  reassoc [1; 1] = None /\
  reassoc_err [1; 2] = Some ErrRecv /\ reassoc_err [1; 1] = Some ErrElem.
Proof. exact ex_reassoc. Qed.

Example C03_ex_read :
  spell [1; 0] = [CChan; CArrow; CChan; CElem] /\
  read_chan (CArrow :: spell [1; 0]) = Some [2; 2] /\
  spell [2; 2] = CArrow :: spell [1; 0] /\
  read_chan (CArrow :: spell [1]) = None /\ read_chan (CArrow :: spell [1; 2]) = None.
Proof. exact ex_read. Qed.

Example C03_ex_define :
  demo_simple [t_a; top ODefine; t_b; SC] =
  Accepted (asg 1 ODefine [n_ident nat unit 0 [97%N]] [n_ident nat unit 2 [98%N]])
    (Some (3, SC)).
Proof. exact ex_define. Qed.

Example C03_ex_assign :
  demo_simple [t_a; top OAssign; t_b; SC] =
  Accepted (asg 1 OAssign [n_ident nat unit 0 [97%N]] [n_ident nat unit 2 [98%N]])
    (Some (3, SC)).
Proof. exact ex_assign. Qed.

Example C03_ex_range_form :
  demo_simple [t_a; CM; t_b; top ODefine; kw KRange; t_c; SC] =
  Accepted
    (asg 3 ODefine [n_ident nat unit 0 [97%N]; n_ident nat unit 2 [98%N]]
       [mk nat unit GRange [4] [] [n_ident nat unit 5 [99%N]]]) (Some (6, SC)).
Proof. exact ex_range_form. Qed.

Example C03_ex_simple_errors :
  demo_simple [t_a; CM; t_b; top OInc; SC] = Rejected (PElse 0 74) (Some (3, top OInc)) /\
  demo_simple [t_a; top ODot; t_b; top ODefine; t_c; SC] =
  Rejected (PElse 0 75) (Some (5, SC)) /\
  demo_simple [t_a; top OAssign; t_b; CM; t_c; SC] = Rejected (PElse 1 77) (Some (5, SC)) /\
  demo_simple [t_a; top OParenLeft; RP; top OColon; t_b; SC] =
  Rejected (PElse 3 78) (Some (3, top OColon)).
Proof. exact ex_simple_errors. Qed.

Example C03_ex_param_names_type :
  demo_param [t_a; CM; t_b; t_T; RP] =
  Accepted
    [n_field nat unit [n_ident nat unit 0 [97%N]; n_ident nat unit 2 [98%N]]
       (n_ident nat unit 3 [84%N]) None tt] (Some (4, RP)).
Proof. exact ex_param_names_type. Qed.

Example C03_ex_param_two_types :
  demo_param [t_a; CM; t_b; RP] =
  Accepted
    [n_field nat unit [] (n_ident nat unit 0 [97%N]) None tt;
     n_field nat unit [] (n_ident nat unit 2 [98%N]) None tt] (Some (3, RP)).
Proof. exact ex_param_two_types. Qed.

Example C03_ex_param_type_only :
  demo_param [t_T; RP] =
  Accepted [n_field nat unit [] (n_ident nat unit 0 [84%N]) None tt] (Some (1, RP)).
Proof. exact ex_param_type_only. Qed.

Example C03_ex_param_qualified :
  demo_param [t_a; top ODot; t_T; RP] =
  Accepted
    [n_field nat unit []
       (mk nat unit GSelector [1] [] [n_ident nat unit 0 [97%N]; n_ident nat unit 2 [84%N]])
       None tt] (Some (3, RP)).
Proof. exact ex_param_qualified. Qed.

Example C03_ex_if_init_cond :
  demo_stmt [kw KIf; t_a; top ODefine; t_b; SC; t_a; LB; RB; SC] =
  Accepted
    (mk nat unit GIf [0] []
       [asg 2 ODefine [n_ident nat unit 1 [97%N]] [n_ident nat unit 3 [98%N]];
        n_ident nat unit 5 [97%N]; blk 6 7; nnone]) None.
Proof. exact ex_if_init_cond. Qed.

Example C03_ex_if_cond_err :
  demo_stmt [kw KIf; t_a; top ODefine; t_b; LB; RB; SC] = Rejected (PElse 5 92) (Some (4, LB)).
Proof. exact ex_if_cond_err. Qed.

Example C03_ex_for_clauses :
  demo_stmt
    [kw KFor; t_a; top ODefine; t_1; SC; t_a; top OLess; t_b; SC; t_a; top OInc; LB; RB; SC] =
  Accepted
    (mk nat unit GFor [0] []
       [asg 2 ODefine [n_ident nat unit 1 [97%N]] [n_basic nat unit 3 LInteger [49%N]];
        mk nat unit GExprStmt [] []
          [n_operation nat unit 6 OLess (n_ident nat unit 5 [97%N])
             (Some (n_ident nat unit 7 [98%N]))];
        mk nat unit GIncDec [10] [AOp OInc] [n_ident nat unit 9 [97%N]]; 
        blk 11 12]) (Some (13, SC)).
Proof. exact ex_for_clauses. Qed.

Example C03_ex_for_range :
  demo_stmt [kw KFor; t_a; CM; t_b; top ODefine; kw KRange; t_c; LB; RB; SC] =
  Accepted
    (mk nat unit GRangeStmt [0; 5] []
       [n_ident nat unit 1 [97%N]; n_ident nat unit 3 [98%N]; Nd GPos [4] [AOp ODefine] [] [];
        n_ident nat unit 6 [99%N]; blk 7 8]) (Some (9, SC)) /\
  demo_stmt [kw KFor; kw KRange; t_c; LB; RB; SC] =
  Accepted
    (mk nat unit GRangeStmt [0; 1] []
       [nnone; nnone; nnone; n_ident nat unit 2 [99%N]; blk 3 4]) 
    (Some (5, SC)) /\
  demo_stmt [kw KFor; t_a; CM; t_b; CM; t_c; top ODefine; kw KRange; t_c; LB; RB; SC] =
  Rejected (PElse 6 114) (Some (9, LB)).
Proof. exact ex_for_range. Qed.

Example C03_ex_for_cond_not_expr :
  demo_stmt [kw KFor; t_a; top ODefine; t_1; LB; RB; SC] =
  Accepted
    (mk nat unit GFor [0] []
       [nnone; asg 2 ODefine [n_ident nat unit 1 [97%N]] [n_basic nat unit 3 LInteger [49%N]];
        nnone; blk 4 5]) (Some (6, SC)).
Proof. exact ex_for_cond_not_expr. Qed.

Example C03_ex_range_outside_for :
  demo_stmt [t_a; top ODefine; kw KRange; t_c; SC] =
  Accepted
    (asg 1 ODefine [n_ident nat unit 0 [97%N]]
       [mk nat unit GRange [2] [] [n_ident nat unit 3 [99%N]]]) None /\
  demo_stmt [kw KIf; t_a; top ODefine; kw KRange; t_c; SC; t_a; LB; RB; SC] =
  Accepted
    (mk nat unit GIf [0] []
       [asg 2 ODefine [n_ident nat unit 1 [97%N]]
          [mk nat unit GRange [3] [] [n_ident nat unit 4 [99%N]]]; 
        n_ident nat unit 6 [97%N]; blk 7 8; nnone]) None.
Proof. exact ex_range_outside_for. Qed.

