(* C02 / C03 / C14 — round trip beyond the expression fragment of C14_roundtrip.v:
   "printing a derivation to tokens and parsing the tokens returns the derivation",
   stage by stage; each stage is a larger inductive of derivations with its
   printing, its tree, its side conditions (wf) and its nesting bound.

   Stage A — TYPES (spec/Print2.v, [typ X] over the expression derivations X of
   array lengths; here X := Print.exp): type names, qualified names, generic
   instantiation, pointer, slice, array ([n]T and [...]T), map, the three channel
   types, parenthesised types, function types with named / unnamed / variadic
   parameter groups and result lists, struct types (named fields, embedded
   fields, tags), interface types (methods, embedded type elements, unions with ~).

   Stages B, C, D (spec/Print3.v) — [exp2]: the expressions of C14_roundtrip.v
   plus type operands / conversions, function literals, composite literals (keyed,
   nested), type assertions; [stmt2]: simple statements, labelled statements,
   blocks, go / defer / return / break / continue / goto / fallthrough, empty
   statements, if (init; else-if chains), for (all header forms, range), switch,
   type switch, select, var / const / type declarations; [file]: package clause,
   imports, var / const / type / func / method declarations with receivers and
   type parameters.  [wf2 hdr e] carries the composite-literal gate (hdr = true:
   directly in an if / for / switch header).

   Property theorems only (closed by [exact]); vocabulary in spec/Print2.v and
   spec/Print3.v, proofs in proofs/RoundTripTypes*.v and proofs/RoundTrip{Base2,
   Expr2,Lit,Stmt2,StmtIf,StmtSwitch,Decl,File,All}.v.  Every theorem is about the model's own
   parser ([k_type] / [k_type_or_none] of the closed [parsers_at d]) for every
   instance of the polymorphic core. *)
From Coq Require Import List Arith NArith Lia Bool.
From GoSyn Require Import Token Tok Ast Core.
From GoSyn.spec Require Import Prec Print Print2 Print3.
From GoSyn.proofs Require Import PrecProofs RoundTripProofs RoundTripStmt RoundTripTypesBase
  RoundTripTypes RoundTripBase2 RoundTripAll RoundTripFuel.
Import ListNotations.

(* ============================================================ stage A: types *)

(* Parser::type_ standing at the first token of [printA t ++ rst] returns the
   tree of t and stands at the first token of rst, with Parser.depth and
   expr_level restored, whenever rst does not continue the type ([tfollow]:
   after a type name no "." / "[", after a result-less func type nothing that
   starts a type) *)
Theorem C14_type_in_context : forall (A G D C E : Type) (OPS : ops A G D C) (t : typA),
  wfA t -> forall d (s : pstate A G D E) rst,
    needA t + 1 <= d -> at_toks s (printA t ++ rst) -> tfollow t rst ->
    s_depth A G D E s + depthA t <= MAX_NESTING ->
    s_ln A G D E s <= s_lp A G D E s /\ s_lp A G D E s + depthA t <= s_ln A G D E s + 64 ->
    exists n s1,
      k_type A G D C E (parsers_at A G D C E OPS d) s = Ok n s1 /\
      erase n = shapeA t /\ at_toks s1 rst /\ frame s s1.
Proof. exact typeA_in_context. Qed.
Print Assumptions C14_type_in_context.

(* from the initial state, on a stream whose tokens are [printA t] *)
Theorem C14_type_roundtrip : forall (A G D C E : Type) (OPS : ops A G D C) (t : typA),
  wfA t -> depthA t <= TDEPTH_BOUND ->
  forall d a0 d0 (elems : list (selem A G)) ae ge,
    map tok_of elems = printA t -> needA t + 1 <= d ->
    exists n s',
      entry_type A G D C E OPS (parsers_at A G D C E OPS d)
        (init_state A G D E a0 d0 elems (TEof ae ge)) = Ok n s' /\
      erase n = shapeA t /\ s_cur A G D E s' = None /\ s_rest A G D E s' = [].
Proof. exact typeA_roundtrip. Qed.
Print Assumptions C14_type_roundtrip.

(* the same for types over ANY expression derivations X whose array lengths
   satisfy the contract XOK (Parser::expression returns their tree in front of
   "]"; they start neither with "]" nor with "..."): the form the later stages use *)
Theorem C14_type_in_context_gen :
  forall (A G D C E : Type) (OPS : ops A G D C) (X : Type)
         (printX : X -> list token) (shapeX : X -> shapeT) (wfX : X -> Prop)
         (depthX needX : X -> nat) (t : typ X),
  wfT wfX t -> allX (XOK A G D C E OPS X printX shapeX depthX needX) t ->
  forall d (s : pstate A G D E) rst,
    needT needX t + 1 <= d -> at_toks s (printT printX t ++ rst) -> tfollow t rst ->
    s_depth A G D E s + depthT depthX t <= MAX_NESTING ->
    s_ln A G D E s <= s_lp A G D E s /\
    s_lp A G D E s + depthT depthX t <= s_ln A G D E s + 64 ->
    exists n s1,
      k_type A G D C E (parsers_at A G D C E OPS d) s = Ok n s1 /\
      erase n = shapeTy shapeX t /\ at_toks s1 rst /\ frame s s1.
Proof. exact type_in_context. Qed.
Print Assumptions C14_type_in_context_gen.

Theorem C14_type_or_none_in_context :
  forall (A G D C E : Type) (OPS : ops A G D C) (X : Type)
         (printX : X -> list token) (shapeX : X -> shapeT) (wfX : X -> Prop)
         (depthX needX : X -> nat) (t : typ X),
  wfT wfX t -> allX (XOK A G D C E OPS X printX shapeX depthX needX) t ->
  forall d (s : pstate A G D E) rst,
    needT needX t <= d -> at_toks s (printT printX t ++ rst) -> tfollow t rst ->
    s_depth A G D E s + depthT depthX t <= MAX_NESTING ->
    s_ln A G D E s <= s_lp A G D E s /\
    s_lp A G D E s + depthT depthX t <= s_ln A G D E s + 65 ->
    exists n s1,
      k_type_or_none A G D C E (parsers_at A G D C E OPS d) s = Ok (Some n) s1 /\
      erase n = shapeTy shapeX t /\ at_toks s1 rst /\ frame s s1.
Proof. exact type_or_none_in_context. Qed.
Print Assumptions C14_type_or_none_in_context.

(* ------------------------------------------------------------ examples, through the real parser
   (PrecProofs.demo_ops: positions = token indices, no comments) *)

Definition demo_type_shape (l : list token) : option (node unit unit) :=
  match entry_type nat unit unit unit unit demo_ops
          (parsers_at nat unit unit unit unit demo_ops (2 * length l + 8))
          (init_state nat unit unit unit 0 tt (demo_stream 0 l) (TEof (length l) tt)) with
  | Ok n s => match s_cur _ _ _ _ s with None => Some (erase n) | Some _ => None end
  | _ => None
  end.

Definition N_ (c : N) : typA := TName [c].
Definition i_ : exp := EIdent [105%N].
Definition a_ := 97%N. Definition b_ := 98%N. Definition c_ := 99%N. Definition d_ := 100%N.
Definition p_ := 112%N. Definition T_ := 84%N. Definition U_ := 85%N. Definition V_ := 86%N.

Ltac wfA_step :=
  match goal with
  | |- _ /\ _ => split
  | |- True => exact I
  | |- _ = _ => reflexivity
  | |- _ <> _ => discriminate
  | |- ~ _ => let H := fresh in intro H; vm_compute in H; solve [destruct H | discriminate H | inversion H]
  | |- _ -> False => let H := fresh in intro H; vm_compute in H; solve [destruct H | discriminate H | inversion H]
  | |- False -> _ => intros []
  | |- (_ -> False) -> _ =>
      let H := fresh in intro H; first [exfalso; apply H; reflexivity | clear H]
  | |- _ = _ -> _ => let H := fresh in intro H; try discriminate H
  | |- _ <= _ => lia
  | |- _ \/ _ => first [left; solve [repeat wfA_step] | right; solve [repeat wfA_step]]
  | |- exists _, _ => eexists
  | H : False |- _ => destruct H
  end.
Ltac wfA_tac := vm_compute; repeat wfA_step.

(*  map[a][]*p.T  *)
Definition ty1 : typA := TMap (N_ a_) (TSlice (TPtr (TQual [p_] [T_]))).
(*  func(a, b T, c ...U) V  *)
Definition ty2 : typA :=
  TFunc (Sig [Group [[a_]; [b_]] false (N_ T_); Group [[c_]] true (N_ U_)] false
             [Group [] false (N_ V_)]).
(*  func(T, p.T, []U, *V, ...T) (V, V)  *)
Definition ty3 : typA :=
  TFunc (Sig [Group [] false (N_ T_); Group [] false (TQual [p_] [T_]); Group [] false (TSlice (N_ U_));
              Group [] false (TPtr (N_ V_)); Group [] true (N_ T_)] true
             [Group [] false (N_ V_); Group [] false (N_ V_)]).
(*  struct { a, b T "" ; *p.T ; c [i]T ; U ; d []T ; }  *)
Definition ty4 : typA :=
  TStruct [Field [[a_]; [b_]] (N_ T_) (Some [34%N; 34%N]); Field [] (TPtr (TQual [p_] [T_])) None;
           Field [[c_]] (TArray i_ (N_ T_)) None; Field [] (N_ U_) None;
           Field [[d_]] (TSlice (N_ T_)) None].
(*  interface { a(T) ; ~T | p.U ; V ; T[U, V] ; }  *)
Definition ty5 : typA :=
  TInterface [IMethod [a_] (Sig [Group [] false (N_ T_)] false []);
              IUnion [(true, N_ T_); (false, TQual [p_] [U_])]; IUnion [(false, N_ V_)];
              IUnion [(false, TInst (N_ T_) [N_ U_; N_ V_])]].
(*  chan (<-chan chan<- T)  *)
Definition ty6 : typA := TChan CBoth (TParen (TChan CRecv (TChan CSend (N_ T_)))).
(*  p.T[[...]U]  *)
Definition ty7 : typA := TInst (TQual [p_] [T_]) [TArrayDots (N_ U_)].
(*  func(func(), T) func() U  *)
Definition ty8 : typA :=
  TFunc (Sig [Group [] false (TFunc (Sig [] false [])); Group [] false (N_ T_)] false
             [Group [] false (TFunc (Sig [] false [Group [] false (N_ U_)]))]).

Example C14_type_examples :
  Forall (fun t => wfA t /\ depthA t <= TDEPTH_BOUND /\ demo_type_shape (printA t) = Some (shapeA t))
    [ty1; ty2; ty3; ty4; ty5; ty6; ty7; ty8].
Proof.
  repeat (apply Forall_cons; [split; [wfA_tac | split; [vm_compute; lia | vm_compute; reflexivity]] |]).
  apply Forall_nil.
Qed.

Example C14_type_print :
  printA ty2 =
    [TKeyword KFunc; tk OParenLeft; TLiteral LIdent [a_]; tk OComma; TLiteral LIdent [b_];
     TLiteral LIdent [T_]; tk OComma; TLiteral LIdent [c_]; tk ODotDotDot; TLiteral LIdent [U_];
     tk OParenRight; TLiteral LIdent [V_]].
Proof. vm_compute. reflexivity. Qed.

(* the theorem instantiated (no computation through the parser) *)
Example C14_type_by_theorem : forall d, needA ty4 + 1 <= d ->
  exists n s',
    entry_type nat unit unit unit unit demo_ops (parsers_at nat unit unit unit unit demo_ops d)
      (init_state nat unit unit unit 0 tt (demo_stream 0 (printA ty4)) (TEof 0 tt)) = Ok n s' /\
    erase n = shapeA ty4 /\ s_cur _ _ _ _ s' = None /\ s_rest _ _ _ _ s' = [].
Proof.
  intros d Hd.
  apply (C14_type_roundtrip nat unit unit unit unit demo_ops ty4);
    [wfA_tac | vm_compute; lia | apply demo_stream_toks | exact Hd].
Qed.

(* ---- [wfA] is necessary: derivations that are not the reading of their own printing *)

(*  chan (<-chan T)  without the parentheses prints  chan <- chan T  =  chan<- (chan T)  *)
Definition tbad1 : typA := TChan CBoth (TChan CRecv (N_ T_)).
(*  func() (T)  as ONE bare parenthesised result prints like a result list  *)
Definition tbad2 : typA := TFunc (Sig [] false [Group [] false (TParen (N_ T_))]).
(*  an unnamed parameter T[U]: the crate parses the type argument as an expression;
    here the trees agree (identifier), but T[*U] does not come back (recorded finding) *)
Definition tbad3 : typA := TFunc (Sig [Group [] false (TInst (N_ T_) [TPtr (N_ U_)])] false []).
Example C14_type_wf_necessary :
  ~ wfA tbad1 /\ demo_type_shape (printA tbad1) = Some (shapeA (TChan CSend (TChan CBoth (N_ T_)))) /\
  ~ wfA tbad2 /\
  demo_type_shape (printA tbad2) = Some (shapeA (TFunc (Sig [] true [Group [] false (N_ T_)]))) /\
  ~ wfA tbad3 /\ demo_type_shape (printA tbad3) <> Some (shapeA tbad3).
Proof.
  repeat split; try (vm_compute; reflexivity).
  - vm_compute. intros (_ & H). apply H; [reflexivity | exact I].
  - vm_compute. intros (_ & _ & _ & _ & _ & _ & H). destruct (H eq_refl) as [H1 | (t & H1 & H2)].
    + discriminate H1.
    + injection H1 as <-. apply H2. exact I.
  - vm_compute. intros (_ & _ & ((H & _) & _) & _). apply H. exact I.
  - vm_compute. discriminate.
Qed.


(* ============================================================ stage B: expressions with types,
   function literals, composite literals, type assertions *)

(* Parser::expression standing at the first token of [print2 e ++ rst] returns
   the tree of e and stands at rst.  hdr = true: the expression stands directly
   in an if / for / switch header (expr_level = -1), where [wf2 true] allows no
   composite literal of a named type at the top level and rst may start with the
   "{" of the block ([efollow] / [brace_stop]) *)
Theorem C14_expr2_in_context : forall (A G D C E : Type) (OPS : ops A G D C) e hdr,
  wf2 hdr e -> forall d (s : pstate A G D E) rst,
    need2 e + 2 <= d -> at_toks s (print2 e ++ rst) -> efollow hdr e rst ->
    s_depth A G D E s + depth2 e <= MAX_NESTING -> lev A G D E hdr s (depth2 e) ->
    exists n s1,
      k_expr A G D C E (parsers_at A G D C E OPS d) s = Ok n s1 /\
      erase n = shape2 e /\ at_toks s1 rst /\ frame s s1.
Proof. exact expr2_in_context. Qed.
Print Assumptions C14_expr2_in_context.

Theorem C14_expr2_roundtrip : forall (A G D C E : Type) (OPS : ops A G D C) e,
  wf2 false e -> depth2 e <= DEPTH_BOUND2 ->
  forall d a0 d0 (elems : list (selem A G)) ae ge,
    map tok_of elems = print2 e -> need2 e + 2 <= d ->
    exists n s',
      entry_expression A G D C E OPS (parsers_at A G D C E OPS d)
        (init_state A G D E a0 d0 elems (TEof ae ge)) = Ok n s' /\
      erase n = shape2 e /\ s_cur A G D E s' = None /\ s_rest A G D E s' = [].
Proof. exact expr2_roundtrip. Qed.
Print Assumptions C14_expr2_roundtrip.

(* types whose array lengths are exp2 *)
Theorem C14_type2_in_context : forall (A G D C E : Type) (OPS : ops A G D C) (t : typ2),
  wfT (wf2 false) t -> forall d (s : pstate A G D E) rst,
    needT need2 t <= d -> at_toks s (printT print2 t ++ rst) -> tfollow t rst ->
    s_depth A G D E s + depthT depth2 t <= MAX_NESTING ->
    s_ln A G D E s <= s_lp A G D E s /\
    s_lp A G D E s + depthT depth2 t <= s_ln A G D E s + 65 ->
    exists n s1,
      k_type_or_none A G D C E (parsers_at A G D C E OPS d) s = Ok (Some n) s1 /\
      erase n = shapeTy shape2 t /\ at_toks s1 rst /\ frame s s1.
Proof. exact type2_in_context. Qed.
Print Assumptions C14_type2_in_context.

(* ============================================================ stage C: statements *)

(* Parser::parse_stmt standing at the first token of [print_stmt st ++ rst]
   returns the tree of st and stands at rst — whatever rst is, except after an
   open-ended statement ([open_end]: a label on a statement that took its own
   ";", as in `L: x = 1 ;`), whose production takes one more ";" if rst starts
   with one ([sfollow]).  In statement lists this is the condition [seq_ok] of
   [wf_stmt]: no empty statement directly after an open-ended one. *)
Theorem C02_stmt2_in_context : forall (A G D C E : Type) (OPS : ops A G D C) st,
  wf_stmt st -> forall d (s : pstate A G D E) rst,
    need_stmt2 st <= d -> at_toks s (print_stmt st ++ rst) -> sfollow st rst ->
    s_depth A G D E s + depth_stmt2 st <= MAX_NESTING -> lev A G D E false s (depth_stmt2 st) ->
    exists n s1,
      k_stmt A G D C E (parsers_at A G D C E OPS d) s = Ok n s1 /\
      erase n = shape_stmt st /\ at_toks s1 rst /\ frame s s1.
Proof. exact stmt2_in_context. Qed.
Print Assumptions C02_stmt2_in_context.

Theorem C02_stmt2_roundtrip : forall (A G D C E : Type) (OPS : ops A G D C) st,
  wf_stmt st -> depth_stmt2 st <= DEPTH_BOUND2 ->
  forall d a0 d0 (elems : list (selem A G)) ae ge,
    map tok_of elems = print_stmt st -> need_stmt2 st <= d ->
    exists n s',
      entry_stmt A G D C E OPS (parsers_at A G D C E OPS d)
        (init_state A G D E a0 d0 elems (TEof ae ge)) = Ok n s' /\
      erase n = shape_stmt st /\ s_cur A G D E s' = None /\ s_rest A G D E s' = [].
Proof. exact stmt2_roundtrip. Qed.
Print Assumptions C02_stmt2_roundtrip.

(* parse_block_stmt *)
Theorem C02_block_in_context : forall (A G D C E : Type) (OPS : ops A G D C) (body : list stmt2),
  all2 wf_stmt body -> seq_ok body -> forall d (s : pstate A G D E) rst,
    need_block body <= d -> at_toks s (print_block body ++ rst) ->
    s_depth A G D E s + depth_block body <= MAX_NESTING -> levw A G D E s (depth_block body) ->
    exists n s1,
      k_block A G D C E (parsers_at A G D C E OPS d) s = Ok n s1 /\
      erase n = shape_block body /\ at_toks s1 rst /\ frame s s1.
Proof. exact block_in_context. Qed.
Print Assumptions C02_block_in_context.

(* ============================================================ stage D: declarations and files *)

(* parse_file on a stream whose tokens are [print_file f] returns the tree of f *)
Theorem C02_file_roundtrip : forall (A G D C E : Type) (OPS : ops A G D C) f,
  wf_file f -> depth_file f <= DEPTH_BOUND2 ->
  forall d a0 d0 (elems : list (selem A G)) ae ge,
    map tok_of elems = print_file f -> need_file f <= d ->
    exists n s',
      parse_file A G D C E OPS (parsers_at A G D C E OPS d)
        (init_state A G D E a0 d0 elems (TEof ae ge)) = Ok n s' /\
      erase n = shape_file f /\ s_cur A G D E s' = None /\ s_rest A G D E s' = [].
Proof. exact file2_roundtrip. Qed.
Print Assumptions C02_file_roundtrip.

(* ------------------------------------------------------------ examples, through the real parser *)

Definition demo_file_shape (l : list token) : option (node unit unit) :=
  match parse_file nat unit unit unit unit demo_ops
          (parsers_at nat unit unit unit unit demo_ops (2 * length l + 8))
          (init_state nat unit unit unit 0 tt (demo_stream 0 l) (TEof (length l) tt)) with
  | Ok n s => match s_cur _ _ _ _ s with None => Some (erase n) | Some _ => None end
  | _ => None
  end.

Definition I_ (c : N) : exp2 := E2Ident [c].
Definition M_ (c : N) : typ2 := TName [c].
Definition one : exp2 := E2Lit LInteger [49%N].
Definition f_ := 102%N. Definition x_ := 120%N. Definition y_ := 121%N.

(*  []T(x)   map[a]b{x: 1, y: {1}}   T{1, x}   func(a T) T { return a ; }(1)   x.y.( *T)
    a.T{} + [...]T{1}[1]   struct { a T ; }{a: 1}   (func())(f)  *)
Definition e2_1 : exp2 := E2Call (E2Type (TSlice (M_ T_))) [I_ x_] false.
Definition e2_2 : exp2 :=
  E2Composite (E2Type (TMap (M_ a_) (M_ b_)))
    [(Some (VExpr (I_ x_)), VExpr one); (Some (VExpr (I_ y_)), VLit [(None, VExpr one)])].
Definition e2_3 : exp2 := E2Composite (I_ T_) [(None, VExpr one); (None, VExpr (I_ x_))].
Definition e2_4 : exp2 :=
  E2Call (E2FuncLit (Sig [Group [[a_]] false (M_ T_)] false [Group [] false (M_ T_)])
                    [StReturn [I_ a_]]) [one] false.
Definition e2_5 : exp2 := E2Assert (E2Selector (I_ x_) [y_]) (Some (TPtr (M_ T_))).
Definition e2_6 : exp2 :=
  E2Binary OAdd (E2Composite (E2Selector (I_ a_) [T_]) [])
    (E2Index (E2Composite (E2Type (TArrayDots (M_ T_))) [(None, VExpr one)]) one).
Definition e2_7 : exp2 :=
  E2Composite (E2Type (TStruct [Field [[a_]] (M_ T_) None])) [(Some (VExpr (I_ a_)), VExpr one)].
Definition e2_8 : exp2 := E2Call (E2Paren (E2Type (TFunc (Sig [] false [])))) [I_ f_] false.

Example C14_expr2_examples :
  Forall (fun e => demo_shape (print2 e) = Some (shape2 e))
    [e2_1; e2_2; e2_3; e2_4; e2_5; e2_6; e2_7; e2_8].
Proof. repeat (apply Forall_cons; [vm_compute; reflexivity |]). apply Forall_nil. Qed.

Definition blk : list stmt2 := [StSimple (SmExpr (E2Call (I_ f_) [] false))].
(*  if x := 1 ; x < 1 { f() ; } else if y { f() ; } else { f() ; } ;  *)
Definition s2_1 : stmt2 :=
  StIf (Some (SmAssign ODefine [I_ x_] [one])) (E2Binary OLess (I_ x_) one) blk
       (Some (StIf None (I_ y_) blk (Some (StBlock blk)))).
(*  for a := 1 ; a < 1 ; a++ { f() ; }   for { break ; continue a ; ; }   for x { f() ; }  *)
Definition s2_2 : stmt2 :=
  StFor (FThree (Some (SmAssign ODefine [I_ a_] [one])) (Some (SmExpr (E2Binary OLess (I_ a_) one)))
                (Some (SmIncDec OInc (I_ a_)))) blk.
Definition s2_3 : stmt2 := StFor (FCond None) [StBranch KBreak None; StBranch KContinue (Some [a_]); StEmpty].
Definition s2_4 : stmt2 := StFor (FCond (Some (SmExpr (I_ x_)))) blk.
(*  for a, b := range x { f() ; }   for range x { f() ; }  *)
Definition s2_5 : stmt2 := StRange [I_ a_; I_ b_] ODefine (I_ x_) blk.
Definition s2_6 : stmt2 := StRange [] OAssign (I_ x_) blk.
(*  switch x := 1 ; x { case 1, y : f() ; default : fallthrough ; }  *)
Definition s2_7 : stmt2 :=
  StSwitch (Some (SmAssign ODefine [I_ x_] [one])) (Some (I_ x_))
    [(Some [one; I_ y_], blk); (None, [StBranch KFallThrough None])].
(*  switch a := x.(type) { case T, *T : f() ; default : }  *)
Definition s2_8 : stmt2 :=
  StTypeSwitch None (Some [a_]) (I_ x_) [(Some [M_ T_; TPtr (M_ T_)], blk); (None, [])].
(*  select { case c <- 1 : f() ; case a, b := <-c : case <-c : default : f() ; }  *)
Definition s2_9 : stmt2 :=
  StSelect [(Some (CmSend (I_ c_) one), blk);
            (Some (CmRecv [I_ a_; I_ b_] ODefine (E2Unary OArrow (I_ c_))), []);
            (Some (CmExpr (E2Unary OArrow (I_ c_))), []); (None, blk)].
(*  a : for { } ;   { { } ; var a, b T = 1, 1 ; }   const ( a = 1 ; b ; ) ;
    type ( a = T ; b [1]T ; c struct { } ; ) ;   go func() { f() ; }() ;  *)
Definition s2_10 : stmt2 := StLabel [a_] (StFor (FCond None) []).
Definition s2_11 : stmt2 :=
  StBlock [StBlock []; StEmpty; StDecl (Decl SKVar false [SpVar [[a_]; [b_]] (Some (M_ T_)) [one; one]])].
Definition s2_12 : stmt2 := StDecl (Decl SKConst true [SpConst [[a_]] None [one]; SpConst [[b_]] None []]).
Definition s2_13 : stmt2 :=
  StDecl (Decl SKType true [SpType [a_] true (M_ T_); SpType [b_] false (TArray one (M_ T_));
                            SpType [c_] false (TStruct [])]).
Definition s2_14 : stmt2 := StGo (E2Call (E2FuncLit (Sig [] false []) blk) [] false).
(*  if x == (T{1, x}) { } ;  *)
Definition s2_15 : stmt2 := StIf None (E2Binary OEqual (I_ x_) (E2Paren e2_3)) [] None.

(*  type ( a [b T, c ~T | a] struct { } ; b [a, b interface { } | *T, c []T, x [1]T] = a ; ) ;
    type a [b <-chan T, c (T) | ~[...]T] []b ;   — type declarations with type parameters  *)
Definition s2_16 : stmt2 :=
  StDecl (Decl SKType true
    [SpTypeG [a_] [([[b_]], [(false, M_ T_)]); ([[c_]], [(true, M_ T_); (false, M_ a_)])] false (TStruct []);
     SpTypeG [b_] [([[a_]; [b_]], [(false, TInterface []); (false, TPtr (M_ T_))]);
                   ([[c_]], [(false, TSlice (M_ T_))]); ([[x_]], [(false, TArray one (M_ T_))])]
             true (M_ a_)]).
Definition s2_17 : stmt2 :=
  StDecl (Decl SKType false
    [SpTypeG [a_] [([[b_]], [(false, TChan CRecv (M_ T_))]);
                   ([[c_]], [(false, TParen (M_ T_)); (true, TArrayDots (M_ T_))])]
             false (TSlice (M_ b_))]).

(*  { a : f() ; f() ; }   — a label on a simple statement, followed by a statement *)
Definition s2_18 : stmt2 :=
  StBlock [StLabel [a_] (StSimple (SmExpr (E2Call (I_ f_) [] false)));
           StSimple (SmExpr (E2Call (I_ f_) [] false))].
(*  { a : b : f() ; }  *)
Definition s2_19 : stmt2 :=
  StBlock [StLabel [a_] (StLabel [b_] (StSimple (SmExpr (E2Call (I_ f_) [] false))))].

Example C02_stmt2_examples :
  Forall (fun st => demo_stmt_shape (print_stmt st) = Some (shape_stmt st))
    [s2_1; s2_2; s2_3; s2_4; s2_5; s2_6; s2_7; s2_8; s2_9; s2_10; s2_11; s2_12; s2_13; s2_14; s2_15;
     s2_16; s2_17; s2_18; s2_19].
Proof. repeat (apply Forall_cons; [vm_compute; reflexivity |]). apply Forall_nil. Qed.

Example C02_label_print :
  print_stmt s2_18 =
    [tk OBraceLeft; TLiteral LIdent [a_]; tk OColon;
     TLiteral LIdent [f_]; tk OParenLeft; tk OParenRight; tk OSemiColon;
     TLiteral LIdent [f_]; tk OParenLeft; tk OParenRight; tk OSemiColon; tk OBraceRight] /\
  print_stmt s2_19 =
    [tk OBraceLeft; TLiteral LIdent [a_]; tk OColon; TLiteral LIdent [b_]; tk OColon;
     TLiteral LIdent [f_]; tk OParenLeft; tk OParenRight; tk OSemiColon; tk OBraceRight] /\
  wf_stmt s2_18 /\ wf_stmt s2_19.
Proof.
  split; [vm_compute; reflexivity |]. split; [vm_compute; reflexivity |].
  split; vm_compute; repeat wfA_step.
Qed.

Example C02_typeg_print :
  print_stmt s2_17 =
    [TKeyword KType; TLiteral LIdent [a_]; tk OBarackLeft;
     TLiteral LIdent [b_]; tk OArrow; TKeyword KChan; TLiteral LIdent [T_]; tk OComma;
     TLiteral LIdent [c_]; tk OParenLeft; TLiteral LIdent [T_]; tk OParenRight; tk OOr; tk OTiled;
     tk OBarackLeft; tk ODotDotDot; tk OBarackRight; TLiteral LIdent [T_]; tk OBarackRight;
     tk OBarackLeft; tk OBarackRight; TLiteral LIdent [b_]; tk OSemiColon] /\
  wf_stmt s2_16 /\ wf_stmt s2_17.
Proof. split; [vm_compute; reflexivity |]. split; vm_compute; repeat wfA_step. Qed.

(*  package a ; import "" ; import ( b "" ; . "" ; ) ; var a T ;
    func f(a T) { if ... ; for a, b := range x { ... } return ; } ;
    func (x *T) f() (T, T) { } ;   func f[a, b T, c ~T | a]() ;  *)
Definition file1 : file :=
  File [a_] [(false, [ImpPlain [34%N; 34%N]]); (true, [ImpNamed [b_] [34%N; 34%N]; ImpDot [34%N; 34%N]])]
    [TopDecl (Decl SKVar false [SpVar [[a_]] (Some (M_ T_)) []]);
     TopFunc (FuncDecl None [f_] [] (Sig [Group [[a_]] false (M_ T_)] false [])
                (Some [s2_1; s2_5; StReturn []]));
     TopFunc (FuncDecl (Some [Group [[x_]] false (TPtr (M_ T_))]) [f_] []
                (Sig [] true [Group [] false (M_ T_); Group [] false (M_ T_)]) (Some []));
     TopFunc (FuncDecl None [f_] [([[a_]; [b_]], [(false, M_ T_)]); ([[c_]], [(true, M_ T_); (false, M_ a_)])]
                (Sig [] false []) None)].

Example C02_file_example : demo_file_shape (print_file file1) = Some (shape_file file1).
Proof. vm_compute. reflexivity. Qed.

(*  package a ;   type a [b, c T, x ~[]T | map[T]T] struct { a b ; } ;
    type ( b [a interface { T | ~T ; }] = a[a, a] ; ) ;   func f[a T]() ;  *)
Definition file2 : file :=
  File [a_] []
    [TopDecl (Decl SKType false
       [SpTypeG [a_] [([[b_]; [c_]], [(false, M_ T_)]);
                      ([[x_]], [(true, TSlice (M_ T_)); (false, TMap (M_ T_) (M_ T_))])]
                false (TStruct [Field [[a_]] (M_ b_) None])]);
     TopDecl (Decl SKType true
       [SpTypeG [b_] [([[a_]], [(false, TInterface [IUnion [(false, M_ T_); (true, M_ T_)]])])]
                true (TInst (M_ a_) [M_ a_; M_ a_])]);
     TopFunc (FuncDecl None [f_] [([[a_]], [(false, M_ T_)])] (Sig [] false []) None)].

Example C02_file2_example : demo_file_shape (print_file file2) = Some (shape_file file2).
Proof. vm_compute. reflexivity. Qed.

(* the theorem instantiated (no computation through the parser) *)
Example C02_file_by_theorem : forall d, need_file file1 <= d ->
  exists n s',
    parse_file nat unit unit unit unit demo_ops (parsers_at nat unit unit unit unit demo_ops d)
      (init_state nat unit unit unit 0 tt (demo_stream 0 (print_file file1)) (TEof 0 tt)) = Ok n s' /\
    erase n = shape_file file1 /\ s_cur _ _ _ _ s' = None /\ s_rest _ _ _ _ s' = [].
Proof.
  intros d Hd.
  apply (C02_file_roundtrip nat unit unit unit unit demo_ops file1);
    [| vm_compute; lia | apply demo_stream_toks | exact Hd].
  vm_compute. repeat wfA_step.
Qed.

Example C02_file2_by_theorem : forall d, need_file file2 <= d ->
  exists n s',
    parse_file nat unit unit unit unit demo_ops (parsers_at nat unit unit unit unit demo_ops d)
      (init_state nat unit unit unit 0 tt (demo_stream 0 (print_file file2)) (TEof 0 tt)) = Ok n s' /\
    erase n = shape_file file2 /\ s_cur _ _ _ _ s' = None /\ s_rest _ _ _ _ s' = [].
Proof.
  intros d Hd.
  apply (C02_file_roundtrip nat unit unit unit unit demo_ops file2);
    [| vm_compute; lia | apply demo_stream_toks | exact Hd].
  vm_compute. repeat wfA_step.
Qed.

(* ---- side conditions that are necessary, and readings of the crate that differ from the
   Go specification (witnesses) *)

(*  if x == T{1, x} { } ;   — in a header `T {` opens the block: not wf2 true, and it does
    not come back *)
Definition s2_bad1 : stmt2 := StIf None (E2Binary OEqual (I_ x_) e2_3) [] None.
(*  func() * x  : the crate reads `*x` as the result type *)
Definition e2_bad2 : exp2 := E2Binary OStar (E2Type (TFunc (Sig [] false []))) (I_ x_).
Example C02_wf_necessary :
  ~ wf_stmt s2_bad1 /\ demo_stmt_shape (print_stmt s2_bad1) <> Some (shape_stmt s2_bad1) /\
  ~ wf2 false e2_bad2 /\
  demo_shape (print2 e2_bad2) =
    Some (shape2 (E2Type (TFunc (Sig [] false [Group [] false (TPtr (M_ x_))])))).
Proof.
  repeat split; try (vm_compute; reflexivity).
  - vm_compute. intros (_ & (_ & _ & _ & _ & (H & _) & _) & _). discriminate H.
  - vm_compute. discriminate.
  - vm_compute. intros (_ & _ & _ & _ & _ & H). apply (H eq_refl). reflexivity.
Qed.

(* type parameters: the first constraint must not start with "*", "(" or "[".
     type a [b *T] b ;    is read as the array type  [b * T]b  (as the Go specification says);
     type a [b (T)] b ;   is read as the array type  [b(T)]b;
     type a [b []T] b ;   and a later group  c []T | T  /  c [...]T  are rejected by the crate *)
Definition tg_bad (tps : list (list str * list (bool * typ2))) : stmt2 :=
  StDecl (Decl SKType false [SpTypeG [a_] tps false (M_ b_)]).
Example C02_typeg_wf_necessary :
  ~ wf_stmt (tg_bad [([[b_]], [(false, TPtr (M_ T_))])]) /\
  demo_stmt_shape (print_stmt (tg_bad [([[b_]], [(false, TPtr (M_ T_))])])) =
    Some (shape_stmt (StDecl (Decl SKType false
            [SpType [a_] false (TArray (E2Binary OStar (I_ b_) (I_ T_)) (M_ b_))]))) /\
  ~ wf_stmt (tg_bad [([[b_]], [(false, TParen (M_ T_))])]) /\
  demo_stmt_shape (print_stmt (tg_bad [([[b_]], [(false, TParen (M_ T_))])])) =
    Some (shape_stmt (StDecl (Decl SKType false
            [SpType [a_] false (TArray (E2Call (I_ b_) [I_ T_] false) (M_ b_))]))) /\
  ~ wf_stmt (tg_bad [([[b_]], [(false, TSlice (M_ T_))])]) /\
  demo_stmt_shape (print_stmt (tg_bad [([[b_]], [(false, TSlice (M_ T_))])])) = None /\
  ~ wf_stmt (tg_bad [([[b_]], [(false, M_ T_)]); ([[c_]], [(false, TSlice (M_ T_)); (false, M_ T_)])]) /\
  demo_stmt_shape (print_stmt (tg_bad [([[b_]], [(false, M_ T_)]);
                                       ([[c_]], [(false, TSlice (M_ T_)); (false, M_ T_)])])) = None /\
  ~ wf_stmt (tg_bad [([[b_]], [(false, M_ T_)]); ([[c_]], [(false, TArrayDots (M_ T_))])]) /\
  demo_stmt_shape (print_stmt (tg_bad [([[b_]], [(false, M_ T_)]);
                                       ([[c_]], [(false, TArrayDots (M_ T_))])])) = None.
Proof.
  repeat split; try (vm_compute; reflexivity).
  - vm_compute. intros (_ & (_ & _ & _ & [H | H]) & _); [discriminate H | exact H].
  - vm_compute. intros (_ & (_ & _ & _ & [H | H]) & _); [discriminate H | exact H].
  - vm_compute. intros (_ & (_ & _ & _ & [H | H]) & _); [discriminate H | exact H].
  - vm_compute. intros (_ & (_ & _ & (_ & (_ & _ & _ & H) & _) & _) & _). discriminate H.
  - vm_compute. intros (_ & (_ & _ & (_ & (_ & _ & _ & H) & _) & _) & _). exact H.
Qed.

(* the crate's statement productions for block / for / switch / select statements do not take
   the ";" that ends the statement: it becomes an EMPTY STATEMENT of its own.  `{ for { } ; f() ; }`
   has two statements by the Go specification, three in the crate's tree. *)
Example C02_empty_after_block :
  demo_stmt_shape (print_stmt (StBlock [StFor (FCond None) []; StEmpty; StSimple (SmExpr (E2Call (I_ f_) [] false))])) =
    Some (shape_stmt (StBlock [StFor (FCond None) []; StEmpty; StSimple (SmExpr (E2Call (I_ f_) [] false))])) /\
  print_stmt (StBlock [StFor (FCond None) []; StEmpty; StSimple (SmExpr (E2Call (I_ f_) [] false))]) =
    [tk OBraceLeft; TKeyword KFor; tk OBraceLeft; tk OBraceRight; tk OSemiColon;
     TLiteral LIdent [f_]; tk OParenLeft; tk OParenRight; tk OSemiColon; tk OBraceRight].
Proof. split; vm_compute; reflexivity. Qed.

(* a labelled statement goes through the crate's simple-statement production, which takes one
   ";" after the inner statement if there is one: after `a : f() ;` (the inner statement took
   its own ";") a following EMPTY statement is swallowed.  `{ a : f() ; ; }` is not
   well-formed ([seq_ok] fails) and does not come back: the crate's tree has no empty
   statement. *)
Definition s2_bad3 : stmt2 :=
  StBlock [StLabel [a_] (StSimple (SmExpr (E2Call (I_ f_) [] false))); StEmpty].
Example C02_label_follow_necessary :
  ~ wf_stmt s2_bad3 /\
  print_stmt s2_bad3 =
    [tk OBraceLeft; TLiteral LIdent [a_]; tk OColon;
     TLiteral LIdent [f_]; tk OParenLeft; tk OParenRight; tk OSemiColon; tk OSemiColon;
     tk OBraceRight] /\
  demo_stmt_shape (print_stmt s2_bad3) =
    Some (shape_stmt (StBlock [StLabel [a_] (StSimple (SmExpr (E2Call (I_ f_) [] false)))])) /\
  demo_stmt_shape (print_stmt s2_bad3) <> Some (shape_stmt s2_bad3).
Proof.
  repeat split; try (vm_compute; reflexivity).
  - vm_compute. intros (_ & (H & _)). discriminate (H eq_refl).
  - vm_compute. discriminate.
Qed.

(* ============================================================ consequences *)

(* on each stage, [wf] singles out one tree per token list: two well-formed
   derivations with the same printing have the same tree *)
Theorem C14_type_unambiguous : forall t1 t2 : typA,
  wfA t1 -> wfA t2 -> depthA t1 <= TDEPTH_BOUND -> depthA t2 <= TDEPTH_BOUND ->
  printA t1 = printA t2 -> shapeA t1 = shapeA t2.
Proof. exact type_unambiguous. Qed.
Print Assumptions C14_type_unambiguous.

Theorem C14_expr2_unambiguous : forall e1 e2,
  wf2 false e1 -> wf2 false e2 -> depth2 e1 <= DEPTH_BOUND2 -> depth2 e2 <= DEPTH_BOUND2 ->
  print2 e1 = print2 e2 -> shape2 e1 = shape2 e2.
Proof. exact expr2_unambiguous. Qed.
Print Assumptions C14_expr2_unambiguous.

Theorem C02_stmt2_unambiguous : forall st1 st2,
  wf_stmt st1 -> wf_stmt st2 -> depth_stmt2 st1 <= DEPTH_BOUND2 -> depth_stmt2 st2 <= DEPTH_BOUND2 ->
  print_stmt st1 = print_stmt st2 -> shape_stmt st1 = shape_stmt st2.
Proof. exact stmt2_unambiguous. Qed.
Print Assumptions C02_stmt2_unambiguous.

Theorem C02_file_unambiguous : forall f1 f2,
  wf_file f1 -> wf_file f2 -> depth_file f1 <= DEPTH_BOUND2 -> depth_file f2 <= DEPTH_BOUND2 ->
  print_file f1 = print_file f2 -> shape_file f1 = shape_file f2.
Proof. exact file_unambiguous. Qed.
Print Assumptions C02_file_unambiguous.

(* the recursion fuel bounded by the number of tokens: 13 unfoldings per token suffice *)
Theorem C02_fuel_in_tokens : forall f, need_file f <= 13 * length (print_file f).
Proof. exact need_file_tokens. Qed.
Print Assumptions C02_fuel_in_tokens.

Theorem C02_file_roundtrip_tokens : forall (A G D C E : Type) (OPS : ops A G D C) f,
  wf_file f -> depth_file f <= DEPTH_BOUND2 ->
  forall d a0 d0 (elems : list (selem A G)) ae ge,
    map tok_of elems = print_file f -> 13 * length elems <= d ->
    exists n s',
      parse_file A G D C E OPS (parsers_at A G D C E OPS d)
        (init_state A G D E a0 d0 elems (TEof ae ge)) = Ok n s' /\
      erase n = shape_file f /\ s_cur A G D E s' = None /\ s_rest A G D E s' = [].
Proof. exact file_roundtrip_tokens. Qed.
Print Assumptions C02_file_roundtrip_tokens.

Theorem C02_stmt2_roundtrip_tokens : forall (A G D C E : Type) (OPS : ops A G D C) st,
  wf_stmt st -> depth_stmt2 st <= DEPTH_BOUND2 ->
  forall d a0 d0 (elems : list (selem A G)) ae ge,
    map tok_of elems = print_stmt st -> 13 * length elems <= d ->
    exists n s',
      entry_stmt A G D C E OPS (parsers_at A G D C E OPS d)
        (init_state A G D E a0 d0 elems (TEof ae ge)) = Ok n s' /\
      erase n = shape_stmt st /\ s_cur A G D E s' = None /\ s_rest A G D E s' = [].
Proof. exact stmt2_roundtrip_tokens. Qed.
Print Assumptions C02_stmt2_roundtrip_tokens.

Theorem C14_expr2_roundtrip_tokens : forall (A G D C E : Type) (OPS : ops A G D C) e,
  wf2 false e -> depth2 e <= DEPTH_BOUND2 ->
  forall d a0 d0 (elems : list (selem A G)) ae ge,
    map tok_of elems = print2 e -> 13 * length elems + 1 <= d ->
    exists n s',
      entry_expression A G D C E OPS (parsers_at A G D C E OPS d)
        (init_state A G D E a0 d0 elems (TEof ae ge)) = Ok n s' /\
      erase n = shape2 e /\ s_cur A G D E s' = None /\ s_rest A G D E s' = [].
Proof. exact expr2_roundtrip_tokens. Qed.
Print Assumptions C14_expr2_roundtrip_tokens.

Theorem C14_type_roundtrip_tokens : forall (A G D C E : Type) (OPS : ops A G D C) (t : typA),
  wfA t -> depthA t <= TDEPTH_BOUND ->
  forall d a0 d0 (elems : list (selem A G)) ae ge,
    map tok_of elems = printA t -> 13 * length elems <= d ->
    exists n s',
      entry_type A G D C E OPS (parsers_at A G D C E OPS d)
        (init_state A G D E a0 d0 elems (TEof ae ge)) = Ok n s' /\
      erase n = shapeA t /\ s_cur A G D E s' = None /\ s_rest A G D E s' = [].
Proof. exact typeA_roundtrip_tokens. Qed.
Print Assumptions C14_type_roundtrip_tokens.
