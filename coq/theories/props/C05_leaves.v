(* C05 (lexeme positions) and C06 (token accounting) at the level of the SOURCE
   TEXT: every position stored with an identifier / literal leaf or a comment of
   an accepted file is the 0-based CHARACTER offset into the source at which
   that lexeme really starts.

   [src : str] is the list of code points of the source, so an index into it is
   a character offset (not a byte offset: see the example at the end).
   [slice src p e] is the source text at [p, e).

   [leaves f]        the (position, token) of every Ident / BasicLit / StringLit
                     leaf of the tree in traversal order (C06, AccountBase.v)
   [scan_all_ext U src]   the scanner's sequence of (start, token, end)
   [in_tree n f]     the node n occurs in the tree f
   [node_lexeme n]   position and token of an Ident / BasicLit / StringLit node

   The chain: C06 (leaves = identifier / literal elements of the parser's
   stream), [group_stream] only moves the comment tokens out of the way
   ([C06_group_stream]), C07 (the scanner's sequence tiles the source: the text
   of a real token stands at its offset; an identifier / literal / comment is
   never a synthetic semicolon), C11 (returned comments = the scanner's comment
   tokens).
   The one exception of the model, as in C06: the Ident "." of `import . "x"`
   is built from the operator token and is counted on neither side.
   Property theorems only; proofs in proofs/SourceProofs.v. *)
From Coq Require Import String List NArith Sorted.
From GoSyn Require Import Token Tok Scanner Ast Core Policy Entry.
From GoSyn Require Utf8.
From GoSyn.spec Require Import Lex.
From GoSyn.proofs Require Import Lift CommentProofs AccountBase SourceProofs.
Import ListNotations.
Local Open Scope N_scope.

(* the stream the parser reads is the scanner's sequence without its comments *)
Theorem C06_group_stream : forall ts g,
  map pe (fst (group_stream ts g)) =
  map (fun x => (fst (fst x), snd (fst x))) (filter (fun x => negb (is_comment_tok (snd (fst x)))) ts).
Proof. exact group_stream_pe. Qed.
Print Assumptions C06_group_stream.

(* C06 from the source: the identifier / literal leaves of an accepted file are
   exactly the identifier / literal tokens of the scanner's sequence with their
   offsets, in order, each once; its bracket tokens are properly nested *)
Theorem C06_source : forall U src p f s',
  prepare U src = Some p ->
  run_entry EFile p = Ok f s' ->
  leaves f =
    identlits (map (fun x => (fst (fst x), snd (fst x)))
                   (filter (fun x => negb (is_comment_tok (snd (fst x))))
                           (fst (scan_all_ext U src)))) /\
  balanced (map (fun x => (fst (fst x), snd (fst x)))
                (filter (fun x => negb (is_comment_tok (snd (fst x))))
                        (fst (scan_all_ext U src)))).
Proof. exact file_leaves_source. Qed.
Print Assumptions C06_source.

(* the same without the detour through the comments:
   lit_tokens ts = map tok_of (filter (fun x => is_lit_tok (snd (fst x))) ts) *)
Theorem C06_source_lit_tokens : forall U src p f s',
  prepare U src = Some p ->
  run_entry EFile p = Ok f s' ->
  leaves f = lit_tokens (fst (scan_all_ext U src)).
Proof. exact file_leaves_lit_tokens. Qed.
Print Assumptions C06_source_lit_tokens.

(* C05, identifier and literal leaves: the text stands in the source at the
   character offset stored in the tree; the offsets strictly increase in
   traversal order (sibling leaves appear in source order) *)
Theorem C05_leaf_positions : forall U src p f s',
  prepare U src = Some p ->
  run_entry EFile p = Ok f s' ->
  (forall pos tok, In (pos, tok) (leaves f) ->
     slice src pos (pos + lenN (tok_text tok)) = tok_text tok /\ tok_text tok <> []) /\
  StronglySorted N.lt (map fst (leaves f)).
Proof. exact file_leaf_positions_sorted. Qed.
Print Assumptions C05_leaf_positions.

(* ... and the lexeme lies inside the source *)
Theorem C05_leaf_in_source : forall U src p f s',
  prepare U src = Some p ->
  run_entry EFile p = Ok f s' ->
  forall pos tok, In (pos, tok) (leaves f) -> pos + lenN (tok_text tok) <= lenN src.
Proof. exact file_leaf_in_source. Qed.
Print Assumptions C05_leaf_in_source.

(* C05, comments: the text of every returned comment stands in the source at
   its offset; the offsets strictly increase *)
Theorem C05_comment_positions : forall U src p f s',
  prepare U src = Some p ->
  run_entry EFile p = Ok f s' ->
  (forall pos text, In (pos, text) (rev (c_all (s_d s'))) ->
     slice src pos (pos + lenN text) = text /\ text <> []) /\
  StronglySorted N.lt (map fst (rev (c_all (s_d s')))).
Proof. exact file_comment_positions. Qed.
Print Assumptions C05_comment_positions.

(* C05 in terms of the nodes of the tree *)
Theorem C05_node_lexeme : forall U src p f s',
  prepare U src = Some p ->
  run_entry EFile p = Ok f s' ->
  forall n pos tok, in_tree n f -> node_lexeme n = Some (pos, tok) ->
  slice src pos (pos + lenN (tok_text tok)) = tok_text tok /\ tok_text tok <> [].
Proof. exact file_node_lexeme. Qed.
Print Assumptions C05_node_lexeme.

Theorem C05_ident_text_is_source : forall U src p f s',
  prepare U src = Some p ->
  run_entry EFile p = Ok f s' ->
  forall pos ps name ats docs ks,
  in_tree (Nd GIdent (pos :: ps) (AStr name :: ats) docs ks) f -> name <> [46] ->
  slice src pos (pos + lenN name) = name /\ name <> [].
Proof. exact file_ident_text. Qed.
Print Assumptions C05_ident_text_is_source.

Theorem C05_basiclit_text_is_source : forall U src p f s',
  prepare U src = Some p ->
  run_entry EFile p = Ok f s' ->
  forall pos ps k v ats docs ks,
  in_tree (Nd GBasicLit (pos :: ps) (ALk k :: AStr v :: ats) docs ks) f -> v <> [46] ->
  slice src pos (pos + lenN v) = v /\ v <> [].
Proof. exact file_basiclit_text. Qed.
Print Assumptions C05_basiclit_text_is_source.

Theorem C05_stringlit_text_is_source : forall U src p f s',
  prepare U src = Some p ->
  run_entry EFile p = Ok f s' ->
  forall pos ps v ats docs ks,
  in_tree (Nd GStringLit (pos :: ps) (AStr v :: ats) docs ks) f ->
  slice src pos (pos + lenN v) = v /\ v <> [].
Proof. exact file_stringlit_text. Qed.
Print Assumptions C05_stringlit_text_is_source.

(* non-vacuity.  The string literal holds U+00E9, U+4F60, U+20AC (2, 3 and 3
   bytes in UTF-8): everything after it has a character offset smaller than its
   byte offset.  `tt` is at character 41, byte 46. *)
Definition c05_src : str :=
  s2l "package p // h
var s = """ ++ [233; 20320; 8364] ++ s2l """ /* c */
var tt = s + 1
".

Example C05_example :
  exists p f s',
    prepare ascii_uclass c05_src = Some p /\
    run_entry EFile p = Ok f s' /\
    leaves f = [(8, TLiteral LIdent (s2l "p")); (19, TLiteral LIdent (s2l "s"));
                (23, TLiteral LString [34; 233; 20320; 8364; 34]);
                (41, TLiteral LIdent (s2l "tt")); (46, TLiteral LIdent (s2l "s"));
                (50, TLiteral LInteger (s2l "1"))] /\
    rev (c_all (s_d s')) = [(10, s2l "// h"); (29, s2l "/* c */")] /\
    slice c05_src 23 28 = [34; 233; 20320; 8364; 34] /\
    slice c05_src 41 43 = s2l "tt" /\
    lenN c05_src = 52 /\ Utf8.blen c05_src = 57%nat /\
    nth 41 (Utf8.boffs 0 c05_src) 0%nat = 46%nat.
Proof.
  destruct (prepare ascii_uclass c05_src) as [p|] eqn:Hp; [ | vm_compute in Hp; discriminate Hp ].
  destruct (run_entry EFile p) as [f s'| | |] eqn:Hr;
    try (exfalso; vm_compute in Hp; injection Hp as <-; vm_compute in Hr; discriminate Hr).
  exists p, f, s'. split; [ reflexivity | ]. split; [ exact Hr | ].
  assert (Hl : leaves f =
               [(8, TLiteral LIdent (s2l "p")); (19, TLiteral LIdent (s2l "s"));
                (23, TLiteral LString [34; 233; 20320; 8364; 34]);
                (41, TLiteral LIdent (s2l "tt")); (46, TLiteral LIdent (s2l "s"));
                (50, TLiteral LInteger (s2l "1"))] /\
               rev (c_all (s_d s')) = [(10, s2l "// h"); (29, s2l "/* c */")]).
  { pose proof Hp as Hp'. vm_compute in Hp'. injection Hp' as <-.
    vm_compute in Hr. injection Hr as <- <-. split; vm_compute; reflexivity. }
  destruct Hl as [Hl Hc]. split; [ exact Hl | ]. split; [ exact Hc | ].
  (* the two slices come from the theorem, not from computation *)
  destruct (C05_leaf_positions _ _ _ _ _ Hp Hr) as [Hpos _].
  split.
  { refine (proj1 (Hpos 23 (TLiteral LString [34; 233; 20320; 8364; 34]) _)).
    rewrite Hl. right. right. left. reflexivity. }
  split.
  { refine (proj1 (Hpos 41 (TLiteral LIdent (s2l "tt")) _)).
    rewrite Hl. do 3 right. left. reflexivity. }
  repeat split; vm_compute; reflexivity.
Qed.
