(* C16 (tokens) — where the position of a parse error comes from.  "When an
   input is rejected the caller receives a location of a real position in the
   input, namely the start of the unexpected token when one is reported (whose
   text is found there) or the end of input for an unexpected EOF."
   Property theorems only; proofs in proofs/ErrPos*.v.

   The parser of Core.v runs on a pre-scanned stream [elems] of elements
   [SE start end token comments] with terminal [term] ([TEof eofpos _] or
   [TErr scanner_error _]).  [err_located OPS elems term e]:
     (a) e = PUnexpected p (Some t) _   an element [SE p _ t _] of [elems]: the
                                        reported token stands at the reported start
     (b) e = PUnexpected p None _       term = TEof p _: an unexpected end of input
                                        is reported at the end-of-input position
     (c) e = PElse p site               by [site_class site] (ErrPosBase.v):
            SEnd   Parser::else_error   p is the end of a token or the EOF position
            SNode  else_error_at        p is the start of a token or the EOF position
                   (the current token, or a position stored in a node built so far)
            SPlus2 go / defer           p = a_plus2 q, q the start of `go` / `defer`
     (d) e = PScan x                    term = TErr x _
   (b) holds without exception: the entry points call ensure_started first, and
   afterwards "no current token" outside an error state means that the scanner
   stands at the EOF position.  (a) also covers site 71, where the position is
   taken from a `<-chan` node: the node invariant keeps the position of the
   arrow token there. *)
From Coq Require Import List NArith.
From GoSyn Require Import Token Tok Ast Core.
From GoSyn.proofs Require Import Lift StreamProofs ErrPosBase ErrPosStepA ErrPosStepB ErrPosProofs.
Import ListNotations.

(* ---- the three entry points, from the initial state ---- *)

Theorem C16_parse_file_error :
  forall (A G D C E : Type) (OPS : ops A G D C) a0 d0 (elems : list (selem A G)) (term : sterm A G E)
         d e s',
  parse_file OPS (parsers_at OPS d) (init_state a0 d0 elems term) = Err e s' ->
  err_located OPS elems term e.
Proof. exact parse_file_err_located. Qed.
Print Assumptions C16_parse_file_error.

Theorem C16_expression_error :
  forall (A G D C E : Type) (OPS : ops A G D C) a0 d0 (elems : list (selem A G)) (term : sterm A G E)
         d e s',
  entry_expression OPS (parsers_at OPS d) (init_state a0 d0 elems term) = Err e s' ->
  err_located OPS elems term e.
Proof. exact entry_expression_err_located. Qed.
Print Assumptions C16_expression_error.

Theorem C16_stmt_error :
  forall (A G D C E : Type) (OPS : ops A G D C) a0 d0 (elems : list (selem A G)) (term : sterm A G E)
         d e s',
  entry_stmt OPS (parsers_at OPS d) (init_state a0 d0 elems term) = Err e s' ->
  err_located OPS elems term e.
Proof. exact entry_stmt_err_located. Qed.
Print Assumptions C16_stmt_error.

(* a sequence of Parser::parse_stmt calls, each started where the previous one
   succeeded *)
Theorem C16_stmts_error :
  forall (A G D C E : Type) (OPS : ops A G D C) d (elems : list (selem A G)) (term : sterm A G E)
         s e s',
  stmts_from OPS d elems term s ->
  entry_stmt OPS (parsers_at OPS d) s = Err e s' -> err_located OPS elems term e.
Proof. exact entry_stmts_err_located. Qed.
Print Assumptions C16_stmts_error.

(* ---- the clauses one by one, for parse_file ---- *)

(* (a) *)
Theorem C16_unexpected_token :
  forall (A G D C E : Type) (OPS : ops A G D C) a0 d0 (elems : list (selem A G)) (term : sterm A G E)
         d p t site s',
  parse_file OPS (parsers_at OPS d) (init_state a0 d0 elems term)
    = Err (PUnexpected p (Some t) site) s' ->
  exists a1 g, In (SE p a1 t g) elems.
Proof. exact parse_file_unexpected_token. Qed.
Print Assumptions C16_unexpected_token.

(* (b) *)
Theorem C16_unexpected_eof :
  forall (A G D C E : Type) (OPS : ops A G D C) a0 d0 (elems : list (selem A G)) (term : sterm A G E)
         d p site s',
  parse_file OPS (parsers_at OPS d) (init_state a0 d0 elems term)
    = Err (PUnexpected p None site) s' ->
  exists g, term = TEof p g.
Proof. exact parse_file_unexpected_eof. Qed.
Print Assumptions C16_unexpected_eof.

(* (c), without the table of sites: the start or the end of a token, the EOF
   position, or `pos + 2` of the start of a token *)
Theorem C16_else :
  forall (A G D C E : Type) (OPS : ops A G D C) a0 d0 (elems : list (selem A G)) (term : sterm A G E)
         d p site s',
  parse_file OPS (parsers_at OPS d) (init_state a0 d0 elems term) = Err (PElse p site) s' ->
  (exists t a1 g, In (SE p a1 t g) elems) \/ (exists a0 t g, In (SE a0 p t g) elems) \/
  (exists g, term = TEof p g) \/
  (exists q t a1 g, In (SE q a1 t g) elems /\ p = a_plus2 OPS q).
Proof. exact parse_file_else. Qed.
Print Assumptions C16_else.

(* (d) *)
Theorem C16_scan_error :
  forall (A G D C E : Type) (OPS : ops A G D C) a0 d0 (elems : list (selem A G)) (term : sterm A G E)
         d x s',
  parse_file OPS (parsers_at OPS d) (init_state a0 d0 elems term) = Err (PScan x) s' ->
  exists g, term = TErr x g.
Proof. exact parse_file_scan. Qed.
Print Assumptions C16_scan_error.

(* ---- the invariants behind it ---- *)

(* result level, every production of every depth: [GoodR] (ErrPosStepA.v) *)
Theorem C16_all_productions :
  forall (A G D C E : Type) (OPS : ops A G D C) (whole : list (selem A G)) (term : sterm A G E) d,
  GoodR OPS whole term (parsers_at OPS d).
Proof. exact GoodR_parsers_at. Qed.
Print Assumptions C16_all_productions.

(* accepted input: every position stored in the tree is the start of a token of
   the stream or the EOF position *)
Theorem C16_tree_positions :
  forall (A G D C E : Type) (OPS : ops A G D C) a0 d0 (elems : list (selem A G)) (term : sterm A G E)
         d x s',
  parse_file OPS (parsers_at OPS d) (init_state a0 d0 elems term) = Ok x s' ->
  nok elems term x.
Proof. exact parse_file_ok_positions. Qed.
Print Assumptions C16_tree_positions.

(* ---- non-vacuity ---- *)

Module C16Examples.

Definition tops : ops nat unit unit unit :=
  {| d_next := fun d _ _ _ => d; d_goback := fun d => d; d_drain := fun d => (tt, d);
     d_line_end := fun d _ g _ c => (c, g, d); c_empty := tt; a_plus2 := fun a => a + 2 |}.
Definition el (a b : nat) (t : token) : selem nat unit := SE a b t tt.
Definition id_ (c : N) : token := TLiteral LIdent [c].

(* package p; func *)
Definition pre : list (selem nat unit) :=
  [el 0 7 (TKeyword KPackage); el 8 9 (id_ 112); el 9 10 (TOperator OSemiColon);
   el 11 15 (TKeyword KFunc)].

Definition file_err (l : list (selem nat unit)) (t : sterm nat unit nat) : option (perr nat nat) :=
  match parse_file tops (parsers_at tops 8) (init_state 0 tt l t) with
  | Err e _ => Some e
  | _ => None
  end.

(* an unexpected token in the middle:  package p; func ) x  -- the `)` at 16 *)
Example C16_ex_middle :
  file_err (pre ++ [el 16 17 (TOperator OParenRight); el 18 19 (id_ 120)]) (TEof 20 tt)
  = Some (PUnexpected 16 (Some (TOperator OParenRight)) 127).
Proof. vm_compute. reflexivity. Qed.

(* the stream ends early:  package p; func <EOF at 15> *)
Example C16_ex_early : file_err pre (TEof 15 tt) = Some (PUnexpected 15 None 127).
Proof. vm_compute. reflexivity. Qed.

(* the scanner failed after `func` *)
Example C16_ex_scan : file_err pre (TErr 99 tt) = Some (PScan 99).
Proof. vm_compute. reflexivity. Qed.

(* else_error_at with a position taken from a node:  package _  *)
Example C16_ex_node :
  file_err [el 0 7 (TKeyword KPackage); el 8 9 (id_ 95)] (TEof 9 tt) = Some (PElse 8 132) /\
  site_class 132 = SNode.
Proof. vm_compute. split; reflexivity. Qed.

(* Parser::else_error: the END of the current token:  `)` as an expression *)
Example C16_ex_end :
  (match entry_expression tops (parsers_at tops 8)
           (init_state 0 tt [el 0 1 (TOperator OParenRight)] (TEof (E:=nat) 1 tt)) with
   | Err e _ => Some e | _ => None end) = Some (PElse 1 70) /\
  site_class 70 = SEnd.
Proof. vm_compute. split; reflexivity. Qed.

(* go x;  -- pos + 2 *)
Example C16_ex_go :
  (match entry_stmt tops (parsers_at tops 8)
           (init_state 0 tt [el 0 2 (TKeyword KGo); el 3 4 (id_ 120); el 4 5 (TOperator OSemiColon)]
                       (TEof (E:=nat) 5 tt)) with
   | Err e _ => Some e | _ => None end) = Some (PElse 2 84) /\
  site_class 84 = SPlus2.
Proof. vm_compute. split; reflexivity. Qed.

(* site 71: the token and its position come out of a node:  <- <- chan x
   reports the second arrow (at 3) *)
Example C16_ex_arrow :
  (match entry_expression tops (parsers_at tops 12)
           (init_state 0 tt [el 0 2 (TOperator OArrow); el 3 5 (TOperator OArrow);
                             el 6 10 (TKeyword KChan); el 11 12 (id_ 120)]
                       (TEof (E:=nat) 12 tt)) with
   | Err e _ => Some e | _ => None end) = Some (PUnexpected 3 (Some (TOperator OArrow)) 71).
Proof. vm_compute. reflexivity. Qed.

(* the theorem applied to the first two examples *)
Example C16_ex_middle_located :
  exists a1 g, In (SE 16 a1 (TOperator OParenRight) g)
                  (pre ++ [el 16 17 (TOperator OParenRight); el 18 19 (id_ 120)]).
Proof.
  destruct (parse_file tops (parsers_at tops 8)
              (init_state 0 tt (pre ++ [el 16 17 (TOperator OParenRight); el 18 19 (id_ 120)])
                          (TEof (E:=nat) 20 tt))) as [x s|e s|n|] eqn:Hr.
  1,3,4: vm_compute in Hr; discriminate Hr.
  assert (He : e = PUnexpected 16 (Some (TOperator OParenRight)) 127).
  { vm_compute in Hr. injection Hr as <- _. reflexivity. }
  subst e. eapply C16_unexpected_token, Hr.
Qed.

End C16Examples.
