(* C10 — string and rune literals are accepted exactly per the spec and kept
   verbatim.  Property theorems only; proofs in proofs/StrLitProofs.v. *)
From Coq Require Import List NArith.
From GoSyn Require Import Token Tok Regex Scanner.
From GoSyn.spec Require Import StrLit.
From GoSyn.proofs Require Import StrLitProofs.
Import ListNotations.

(* a rune literal is accepted iff it is a rune_lit of the spec; the returned
   text is the consumed source, verbatim *)
Theorem C10_rune_sound : forall l s,
  hd_error l = Some 39%N -> scan_lit_rune l = inl s ->
  (exists rest, l = s ++ rest) /\ RuneLit s.
Proof. exact scan_rune_lit_sound. Qed.
Print Assumptions C10_rune_sound.

Theorem C10_rune_complete : forall s rest, RuneLit s -> scan_lit_rune (s ++ rest) = inl s.
Proof. exact scan_rune_lit_complete. Qed.
Print Assumptions C10_rune_complete.

Theorem C10_rune_iff : forall s rest,
  hd_error s = Some 39%N -> (scan_lit_rune (s ++ rest) = inl s <-> RuneLit s).
Proof.
  intros s rest Hhd. split.
  - intro H. eapply scan_rune_lit_sound; [|exact H].
    destruct s; [discriminate|exact Hhd].
  - apply scan_rune_lit_complete.
Qed.
Print Assumptions C10_rune_iff.

(* interpreted and raw strings *)
Theorem C10_string_sound : forall l s,
  (hd_error l = Some 34%N \/ hd_error l = Some 96%N) ->
  scan_lit_string l = inl s -> (exists rest, l = s ++ rest) /\ StringLit s.
Proof. exact scan_string_lit_sound. Qed.
Print Assumptions C10_string_sound.

Theorem C10_string_complete : forall s rest,
  StringLit s -> scan_lit_string (s ++ rest) = inl s.
Proof. exact scan_string_lit_complete. Qed.
Print Assumptions C10_string_complete.

Theorem C10_string_iff : forall s rest,
  (hd_error s = Some 34%N \/ hd_error s = Some 96%N) ->
  (scan_lit_string (s ++ rest) = inl s <-> StringLit s).
Proof.
  intros s rest Hhd. split.
  - intro H. eapply scan_string_lit_sound; [|exact H].
    destruct s; [destruct Hhd; discriminate|exact Hhd].
  - apply scan_string_lit_complete.
Qed.
Print Assumptions C10_string_iff.

(* the model-only outcome "fuel exhausted" of the string loop never occurs *)
Theorem C10_no_fuel : forall l p, scan_lit_string l <> inr (p, SE_fuel).
Proof. exact scan_string_no_fuel_error. Qed.
Print Assumptions C10_no_fuel.

(* non-vacuity: concrete literals of each kind *)
Example C10_examples :
  RuneLit [39; 92; 117; 54; 53; 101; 53; 39]%N /\          (* rune U+65E5 as a u-escape *)
  StringLit [34; 97; 92; 34; 34]%N /\                      (* interpreted string with an escaped quote *)
  StringLit [96; 10; 92; 96]%N /\                          (* raw string with newline and backslash *)
  ~ RuneLit [39; 92; 52; 48; 48; 39]%N.                    (* octal escape 400 *)
Proof.
  repeat split.
  - apply runelit_b_iff. vm_compute. reflexivity.
  - apply stringlit_b_iff. vm_compute. reflexivity.
  - apply stringlit_b_iff. vm_compute. reflexivity.
  - intro H. apply runelit_b_iff in H. vm_compute in H. discriminate.
Qed.
