(* C05, second half -- the positions stored in the INNER nodes of a returned
   tree name the tokens they are said to name: both brackets of every paired
   position, the operator of an operation / assignment / inc-dec / send, the dot
   of a selector, the keyword of a statement or declaration, ...
   Property theorems only; proofs in proofs/Pos{Base,Expr,Stmt,Proofs}.v.

   The statement is about the MODEL of the parser (Core.v) and the pre-scanned
   stream [elems] it is started on; an element [SE start end tok g] says that
   token [tok] starts at [start].  (C07 relates [start] to the source text, see
   C05_leaves.v for the chain.)

   [pos_spec n]    for the node n, the list of (position, token predicate)
                   obligations of its OWN positions, by tag (PosBase.v, [own_spec]):
       Call, Paren [l; r]                         `(`  `)`
       Index, IndexList, Slice [l; r]             `[`  `]`
       TypeMap, TypeArray, TypeSlice [l; r]       `[`  `]`
       TypeStruct, LiteralValue, Block, CaseBlock, CommBlock [l; r]   `{`  `}`
       FieldList [l; r] (when present)            an opening and a closing bracket;
                                                  [pair_ok]: a MATCHING pair
       TypeAssert [p; r]                          `.`  `)`
       Ellipsis [p] `...`   Selector [p] `.`   Star, TypePointer [p] `*`
       Range [p] range   FuncType [p] (when present) func   TypeInterface [p] interface
       Operation, IncDec, Assign [p] + AOp o      the operator o
       TypeChannel [c; a] + ADir d                c: chan;  a: `<-` when d <> 0
       Go Defer If For Return Switch TypeSwitch Select [p]   their keyword
       RangeStmt [f; r]                           for, range
       Send [p] `<-`    Label [p] `:`
       Branch [p] + AKw k                         the keyword k
       CaseClause, CommClause [k; c] + AKw kw     the keyword kw (case / default), `:`
       DeclVar, DeclConst, DeclType [k] or [k; l; r]   var / const / type, `(`, `)`
       Pos [p] + AOp o  the operator o (range clause);  Pos [p]  `...` (call)
       Ident [p] + name    the identifier token `name` (or the operator `.` for
                           the Ident "." of `import . "x"`)
       BasicLit [p], StringLit [p]                the literal token with that kind and text
     EXEMPT (no obligation): Empty [p] (a `;`, real or synthetic, or the `}` that
       ends a statement list); the second position of a TypeChannel with
       direction 0 (`chan T`: it is the position of whatever follows `chan`).
   [pos_layout n]  the node has the number of positions and the leading
                   attribute of its tag's layout (so no obligation is vacuous
                   because of a malformed node)
   [occurs n f]    the node n occurs in the tree f
   No position of the model was found to name a wrong token.

   ORDER (proofs/PosOrder*.v): with positions in N and a stream whose start
   positions strictly increase, the end-of-input position last
   ([allp elems term] = the starts of elems followed by the position of TEof),
   the paired positions of every bracketed node are ordered and enclose the
   positions of the children listed between them:
   [pair_of t ps]   the pair (l, r) of a node: [l; r] for Call Paren Index
                    IndexList Slice TypeAssert TypeMap TypeArray TypeSlice
                    TypeStruct LiteralValue Block CaseBlock CommBlock FieldList,
                    [_; l; r] for a DeclVar / DeclConst / DeclType group
   [inside t ks]    the children between l and r: all but the first for Call
                    Index IndexList Slice TypeAssert (the first is the operand in
                    front), the first for TypeMap (key) and TypeArray (length),
                    none for TypeSlice, all for the others
   [allpos k]       all positions stored in the tree k, except the exempt ones
                    (Empty; second position of a TypeChannel with direction 0) *)
From Coq Require Import List NArith Bool Sorted.
From GoSyn Require Import Token Tok Ast Core.
From GoSyn.proofs Require Import Lift PosBase PosExpr PosStmt PosProofs.
From GoSyn.proofs Require Import PosOrder PosOrderExpr PosOrderStmt PosOrderProofs.
Import ListNotations.

(* the whole file, from the initial state *)
Theorem C05_positions_name_tokens :
  forall A G D C E (OPS : ops A G D C) d a0 d0 elems (term : sterm A G E) f s',
  parse_file OPS (parsers_at OPS d) (init_state a0 d0 elems term) = Ok f s' ->
  forall n, occurs n f -> forall p pred, In (p, pred) (pos_spec n) ->
  exists a1 t g, In (SE p a1 t g) elems /\ pred t = true.
Proof. exact parse_file_pos_spec. Qed.
Print Assumptions C05_positions_name_tokens.

(* ... with the layout of every node and the matching of FieldList brackets *)
Theorem C05_positions_node_ok :
  forall A G D C E (OPS : ops A G D C) d a0 d0 elems (term : sterm A G E) f s',
  parse_file OPS (parsers_at OPS d) (init_state a0 d0 elems term) = Ok f s' ->
  forall n, occurs n f ->
    pos_layout n = true /\
    (forall p pred, In (p, pred) (pos_spec n) ->
       exists a1 t g, In (SE p a1 t g) elems /\ pred t = true) /\
    pair_ok elems (n_tag n) (n_ps n).
Proof. exact parse_file_positions. Qed.
Print Assumptions C05_positions_node_ok.

(* Parser::expression / Parser::parse_stmt, from any state inside the stream
   ([sinv elems s]: current token, unread stream and backtracking mark of s
   come from elems) *)
Theorem C05_entry_expression :
  forall A G D C E (OPS : ops A G D C) d elems (s : pstate A G D E) e s',
  sinv elems s -> entry_expression OPS (parsers_at OPS d) s = Ok e s' ->
  sinv elems s' /\ forall n, occurs n e -> node_ok elems n.
Proof. exact entry_expression_positions. Qed.
Print Assumptions C05_entry_expression.

Theorem C05_entry_stmt :
  forall A G D C E (OPS : ops A G D C) d elems (s : pstate A G D E) e s',
  sinv elems s -> entry_stmt OPS (parsers_at OPS d) s = Ok e s' ->
  sinv elems s' /\ forall n, occurs n e -> node_ok elems n.
Proof. exact entry_stmt_positions. Qed.
Print Assumptions C05_entry_stmt.

Theorem C05_init_in_stream :
  forall A G D E elems a0 (d0 : D) (term : sterm A G E),
  sinv elems (init_state a0 d0 elems term).
Proof. exact sinv_init. Qed.
Print Assumptions C05_init_in_stream.

(* every field of the parser table, at every depth ([PS whole good p]: whenever
   sinv whole s and p s = Ok r s', sinv whole s' and good r) *)
Theorem C05_table :
  forall A G D C E (OPS : ops A G D C) whole d, GoodP (E:=E) whole (parsers_at OPS d).
Proof. exact GoodP_parsers_at. Qed.
Print Assumptions C05_table.

(* ------------------------------------------------------------------ order *)

Theorem C05_brackets_ordered :
  forall G D C E (OPS : ops N G D C) d a0 (d0 : D) elems (term : sterm N G E) f s',
  StronglySorted N.lt (allp elems term) ->
  parse_file OPS (parsers_at OPS d) (init_state a0 d0 elems term) = Ok f s' ->
  forall n l r, occurs n f -> pair_of (n_tag n) (n_ps n) = Some (l, r) ->
  (l < r)%N /\
  forall k, In k (inside (n_tag n) (n_kids n)) -> forall p, In p (allpos k) -> (l < p /\ p < r)%N.
Proof. exact parse_file_brackets. Qed.
Print Assumptions C05_brackets_ordered.

(* the same as a predicate on nodes ([pair_here]: l < r and every child between
   the brackets is [ranged (N.succ l) r]) *)
Theorem C05_pair_here :
  forall G D C E (OPS : ops N G D C) d a0 (d0 : D) elems (term : sterm N G E) f s',
  StronglySorted N.lt (allp elems term) ->
  parse_file OPS (parsers_at OPS d) (init_state a0 d0 elems term) = Ok f s' ->
  forall n, occurs n f -> pair_here (n_tag n) (n_ps n) (n_kids n).
Proof. exact parse_file_ordered. Qed.
Print Assumptions C05_pair_here.

(* every field of the parser table, at every depth ([OS whole term good p]:
   whenever oinv s and p s = Ok r s': oinv s', cur_pos s <= cur_pos s' and
   good (cur_pos s) (cur_pos s') r; for a tree, [og lo hi r]: the non-exempt
   positions of r are in [lo, hi) and its bracketed nodes are ordered) *)
Theorem C05_order_table :
  forall G D C E (OPS : ops N G D C) whole (term : sterm N G E) d,
  StronglySorted N.lt (allp whole term) -> GoodO whole term (parsers_at OPS d).
Proof. exact GoodO_parsers_at. Qed.
Print Assumptions C05_order_table.

(* ------------------------------------------------------------------ non-vacuity *)
Module C05Example.
Definition tops : ops nat unit unit unit :=
  {| d_next := fun d _ _ _ => d; d_goback := fun d => d; d_drain := fun d => (tt, d);
     d_line_end := fun d _ g _ c => (c, g, d); c_empty := tt; a_plus2 := fun a => a + 2 |}.
(* starts 0, 10, 20, ...: no start is the end of another element *)
Fixpoint stream_from (n : nat) (l : list token) : list (selem nat unit) :=
  match l with [] => [] | t :: r => SE n (n + 3) t tt :: stream_from (n + 10) r end.
Definition id_ (c : N) : token := TLiteral LIdent [c].
Definition op_ (o : operator) : token := TOperator o.
Definition kw_ (k : keyword) : token := TKeyword k.

(* executable reading of the obligations *)
Definition obl_ok (elems : list (selem nat unit)) (x : nat * (token -> bool)) : bool :=
  existsb (fun e => match e with SE a0 _ t _ => Nat.eqb a0 (fst x) && snd x t end) elems.
Fixpoint tree_ok (elems : list (selem nat unit)) (n : node nat unit) : bool :=
  match n with
  | Nd t ps ats _ ks =>
      own_layout t ps ats && forallb (obl_ok elems) (own_spec t ps ats) &&
      forallb (tree_ok elems) ks
  end.
Fixpoint obligations (n : node nat unit) : nat :=
  match n with
  | Nd t ps ats _ ks => length (own_spec t ps ats) + fold_right (fun k a => obligations k + a) 0 ks
  end.

(* package p; import . "x"; var a, b = f(1, c...), "s";
   func g(c chan int, d <-chan T) { c <- x[1:2]; for i := range d { i++ }; return } *)
Definition src : list (selem nat unit) :=
  stream_from 0
    [kw_ KPackage; id_ 112; op_ OSemiColon;
     kw_ KImport; op_ ODot; TLiteral LString [120%N]; op_ OSemiColon;
     kw_ KVar; id_ 97; op_ OComma; id_ 98; op_ OAssign;
     id_ 102; op_ OParenLeft; TLiteral LInteger [49%N]; op_ OComma; id_ 99; op_ ODotDotDot;
     op_ OParenRight; op_ OComma; TLiteral LString [115%N]; op_ OSemiColon;
     kw_ KFunc; id_ 103; op_ OParenLeft; id_ 99; kw_ KChan; id_ 105; op_ OComma;
     id_ 100; op_ OArrow; kw_ KChan; id_ 84; op_ OParenRight;
     op_ OBraceLeft;
     id_ 99; op_ OArrow; id_ 120; op_ OBarackLeft; TLiteral LInteger [49%N]; op_ OColon;
     TLiteral LInteger [50%N]; op_ OBarackRight; op_ OSemiColon;
     kw_ KFor; id_ 105; op_ ODefine; kw_ KRange; id_ 100; op_ OBraceLeft;
     id_ 105; op_ OInc; op_ OBraceRight; op_ OSemiColon;
     kw_ KReturn; op_ OBraceRight; op_ OSemiColon].

Example accepted_and_positions_name_tokens :
  match parse_file tops (parsers_at tops 14) (init_state 0 tt src (@TEof nat unit unit 999 tt)) with
  | Ok f _ => tree_ok src f = true /\ obligations f = 43
  | _ => False
  end.
Proof. vm_compute. split; reflexivity. Qed.

(* the same source with positions in N: every bracketed node is ordered *)
Definition topsN : ops N unit unit unit :=
  {| d_next := fun d _ _ _ => d; d_goback := fun d => d; d_drain := fun d => (tt, d);
     d_line_end := fun d _ g _ c => (c, g, d); c_empty := tt; a_plus2 := fun a => (a + 2)%N |}.
Definition srcN : list (selem N unit) :=
  map (fun e => match e with SE a b t g => SE (N.of_nat a) (N.of_nat b) t g end) src.
Fixpoint pairs_ok (n : node N unit) : bool :=
  match n with
  | Nd t ps _ _ ks =>
      match pair_of t ps with
      | Some (l, r) =>
          N.ltb l r && forallb (fun p => N.ltb l p && N.ltb p r) (flat_map allpos (inside t ks))
      | None => true
      end && forallb pairs_ok ks
  end.
Fixpoint pairs (n : node N unit) : nat :=
  match n with
  | Nd t ps _ _ ks =>
      (match pair_of t ps with Some _ => 1 | None => 0 end) + fold_right (fun k a => pairs k + a) 0 ks
  end.
Example accepted_and_brackets_ordered :
  match parse_file topsN (parsers_at topsN 14) (init_state 0%N tt srcN (@TEof N unit unit 999%N tt)) with
  | Ok f _ => pairs_ok f = true /\ pairs f = 5
  | _ => False
  end.
Proof. vm_compute. split; reflexivity. Qed.

(* the two exemptions, on `var c chan int;` and `{ L: }` (parse_stmt):
   - the second position of `chan int` (direction 0) is the position of `int`;
   - the labeled statement is an Empty whose position is that of the closing
     brace of the block *)
Definition chan_src : list (selem nat unit) :=
  stream_from 0 [kw_ KVar; id_ 99; kw_ KChan; id_ 105; op_ OSemiColon].
Example chan_dir0_second_position :
  match entry_stmt tops (parsers_at tops 8) (init_state 0 tt chan_src (@TEof nat unit unit 999 tt)) with
  | Ok (Nd GDeclStmt _ _ _ [Nd GDeclVar [0] _ _ [Nd GVarSpec _ _ _ [_; Nd GTypeChannel ps ats _ _; _]]]) _ =>
      ps = [20; 30] /\ ats = [ADir 0]      (* 20: chan, 30: the identifier `int` *)
  | _ => False
  end.
Proof. vm_compute. split; reflexivity. Qed.

Definition block_src : list (selem nat unit) :=
  stream_from 0 [op_ OBraceLeft; id_ 76; op_ OColon; op_ OBraceRight; op_ OSemiColon].
Example empty_at_closing_brace :
  match entry_stmt tops (parsers_at tops 8) (init_state 0 tt block_src (@TEof nat unit unit 999 tt)) with
  | Ok (Nd GBlock [0; 30] _ _ [Nd GLabel [20] _ _ [Nd GIdent _ _ _ _; Nd GEmpty [30] _ _ _]]) _ => True
  | _ => False
  end.
Proof. vm_compute. exact I. Qed.
End C05Example.
