(* C18 — file and directory entry points.  Property theorems only.  PARTIAL: the
   logic of parse_dir over an abstract listing (what the OS returns, and whether a
   file can be read and decoded, are oracles: [listing], [fentry]); parse_file is
   parse_source on the contents with a leading byte order mark removed — that
   equation is the DEFINITION of the model's file_pkg, tied to the crate by the
   check's comparison of parse_file with parse_source on every generated file. *)
From Coq Require Import List NArith Bool.
From GoSyn Require Import Token Tok Dir.
From GoSyn.proofs Require Import DirProofs.
Import ListNotations.

Theorem C18_all_or_nothing_partial : forall parse is_go l acc name e,
  In (name, e) l -> is_go name = true -> file_pkg parse e = None -> parse_dir parse is_go l acc = None.
Proof. exact parse_dir_all_or_nothing. Qed.
Print Assumptions C18_all_or_nothing_partial.

Theorem C18_succeeds_partial : forall parse is_go l acc,
  all_good parse is_go l -> exists m, parse_dir parse is_go l acc = Some m.
Proof. exact parse_dir_succeeds. Qed.
Print Assumptions C18_succeeds_partial.

Theorem C18_groups_partial : forall parse is_go l m pkg,
  parse_dir parse is_go l [] = Some m -> files_of m pkg = declaring parse is_go pkg l.
Proof. intros parse is_go l m pkg H. exact (parse_dir_groups parse is_go l [] m pkg H). Qed.
Print Assumptions C18_groups_partial.

Theorem C18_ignores_other_entries_partial : forall parse is_go l,
  (forall name e, In (name, e) l -> is_go name = false) -> parse_dir parse is_go l [] = Some [].
Proof. intros parse is_go l H. exact (parse_dir_ignores_others parse is_go l [] H). Qed.
Print Assumptions C18_ignores_other_entries_partial.

Theorem C18_bom_partial : forall s, strip_bom (65279%N :: s) = s.
Proof. exact strip_bom_once. Qed.
Print Assumptions C18_bom_partial.
