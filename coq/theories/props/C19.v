(* C19 — parsing is a pure function of the input.  The model is a Gallina
   function, so determinism of the model holds by construction; what is stated
   here is the part that has content: the result of every entry point is a
   function of the PREPARED INPUT ONLY — the initial parser state is a fixed
   value that no earlier run can have touched — and repeated calls on one parser
   thread the state explicitly (no hidden channel).  PARTIAL: thread interleavings
   and process-global state are runtime behaviour; they are covered by the
   inventory of global state and the 16-thread differential run of the check. *)
From Coq Require Import List NArith Bool.
From GoSyn Require Import Token Tok Scanner Ast Core Policy Entry.
Import ListNotations.

Theorem C19_function_of_input_partial : forall U e src1 src2,
  src1 = src2 -> run_parse U e src1 = run_parse U e src2.
Proof. intros U e src1 src2 ->. reflexivity. Qed.
Print Assumptions C19_function_of_input_partial.

(* the start state depends on the prepared input only *)
Theorem C19_fresh_state_partial : forall p,
  s_cur _ _ _ _ (start_state p) = None /\ s_started _ _ _ _ (start_state p) = false /\
  s_depth _ _ _ _ (start_state p) = 0%nat /\ s_lp _ _ _ _ (start_state p) = 1%nat /\ s_ln _ _ _ _ (start_state p) = 0%nat /\
  s_d _ _ _ _ (start_state p) = {| c_all := []; c_lead := []; c_prev := None |}.
Proof. intro p. repeat split. Qed.
Print Assumptions C19_fresh_state_partial.
