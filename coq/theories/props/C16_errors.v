(* C16, second file — a rejection carries a position of the input: every error of the
   parser core is located at the start or end offset of an element of the token stream it
   was given (or the end of input); the core cannot invent a position (parametricity). *)
From Coq Require Import List NArith.
From GoSyn Require Import Token Tok Scanner Ast Core Policy Entry Param.
From GoSyn.proofs Require Import FreeTheorems.
Import ListNotations.
Open Scope N_scope.

Theorem C16_error_position_from_stream :
  forall G D C E (O : ops N G D C), (forall a, a_plus2 _ _ _ _ O a = a + 2) ->
  forall d (s : pstate N G D E) e t p,
  parse_file N G D C E O (parsers_at N G D C E O d) s = Err e t ->
  err_pos e = Some p -> from_stream (state_positions s) p.
Proof. intros G D C E O H d s e t p Hr Hp. exact (error_from_stream_file O H d s e t p Hr Hp). Qed.
Print Assumptions C16_error_position_from_stream.
