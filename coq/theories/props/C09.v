(* C09 — numeric literals are accepted, delimited and classified exactly per
   the spec.  Property theorems only; proofs in proofs/NumLit*.v. *)
From Coq Require Import List NArith.
From GoSyn Require Import Token Tok Regex Scanner.
From GoSyn.spec Require Import NumLit.
From GoSyn.proofs Require Import NumLitProofs.
Import ListNotations.

(* [num_start l]: the guard under which scan_token calls scan_lit_number (first
   character a decimal digit, or '.' followed by a decimal digit);
   [num_delim rest]: what follows the run is the end of input or a character
   that is not an ASCII letter, ASCII digit, '_' or '.' *)

Theorem C09_sound : forall l k s, num_start l ->
  scan_lit_number l = inl (k, s) -> (exists rest, l = s ++ rest) /\ NumLit k s.
Proof. exact scan_number_sound. Qed.
Print Assumptions C09_sound.

Theorem C09_complete : forall k s rest,
  NumLit k s -> num_delim rest -> scan_lit_number (s ++ rest) = inl (k, s).
Proof. exact scan_number_complete. Qed.
Print Assumptions C09_complete.

(* the guard excludes nothing the spec calls a literal *)
Theorem C09_guard_nonrestrictive : forall k s rest, NumLit k s -> num_start (s ++ rest).
Proof. exact numlit_num_start. Qed.
Print Assumptions C09_guard_nonrestrictive.

Theorem C09_iff : forall k s rest, num_delim rest ->
  (num_start (s ++ rest) /\ scan_lit_number (s ++ rest) = inl (k, s) <-> NumLit k s).
Proof. exact scan_number_iff. Qed.
Print Assumptions C09_iff.

(* the kind (integer / float / imaginary) is the spec's, and it is unique *)
Theorem C09_kind_unique : forall k k' s, NumLit k s -> NumLit k' s -> k = k'.
Proof. exact numlit_kind_unique. Qed.
Print Assumptions C09_kind_unique.

(* the executable oracle used by the correspondence check decides NumLit *)
Theorem C09_oracle_complete : forall k s, NumLit k s -> numlit_kind s = Some k.
Proof. exact numlit_kind_complete. Qed.
Print Assumptions C09_oracle_complete.
Theorem C09_oracle_sound : forall k s, numlit_kind s = Some k -> NumLit k s.
Proof. intros k s; apply numlit_kind_sound. Qed.
Print Assumptions C09_oracle_sound.

(* the scanner takes the LONGEST prefix that is a numeric literal *)
Theorem C09_longest : forall l k s k' s' rest',
  scan_lit_number l = inl (k, s) -> l = s' ++ rest' -> NumLit k' s' ->
  (length s' <= length s)%nat.
Proof. exact scan_number_longest. Qed.
Print Assumptions C09_longest.

(* non-vacuity *)
Example C09_examples :
  NumLit LFloat [48; 120; 49; 112; 45; 50]%N /\       (* 0x1p-2 *)
  NumLit LInteger [48; 66; 49; 95; 48]%N /\           (* 0B1_0 *)
  NumLit LImag [48; 56; 57; 105]%N /\                 (* 089i *)
  numlit_kind [48; 56; 57]%N = None /\                (* 089 *)
  num_delim [43; 49]%N.
Proof.
  repeat split; try (apply numlit_kind_sound; vm_compute; reflexivity);
    try (vm_compute; reflexivity); try (intro H; discriminate H).
Qed.
