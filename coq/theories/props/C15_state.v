(* C15, second file — no state left by earlier code alters how later code is read:
   the nesting level, the recursion depth and the stream discipline are restored by
   every successful top-level declaration / statement / expression (lifting framework,
   proofs/Lift.v; all productions covered, no hypothesis left). *)
From Coq Require Import List Arith.
From GoSyn Require Import Token Tok Ast Core.
From GoSyn.proofs Require Import Lift StreamProofs LevelProofs DepthProofs.
Import ListNotations.

(* expr_level (= s_lp - s_ln - 1) after a top-level declaration is what it was before *)
Theorem C15_level_restored_after_decl :
  forall (A G D C E : Type) (OPS : ops A G D C) d (s : pstate A G D E) x s',
  cur_mark s -> parse_top_decl OPS (parsers_at OPS d) s = Ok x s' ->
  s_lp s' + s_ln s = s_lp s + s_ln s' /\ cur_mark s'.
Proof. exact @level_restored_top_decl. Qed.
Print Assumptions C15_level_restored_after_decl.

Theorem C15_level_restored_after_stmt :
  forall (A G D C E : Type) (OPS : ops A G D C) d (s : pstate A G D E) x s',
  cur_mark s -> entry_stmt OPS (parsers_at OPS d) s = Ok x s' ->
  s_lp s' + s_ln s = s_lp s + s_ln s' /\ cur_mark s'.
Proof. exact @level_restored_stmt. Qed.
Print Assumptions C15_level_restored_after_stmt.

Theorem C15_file_ends_at_level_zero :
  forall (A G D C E : Type) (OPS : ops A G D C) a0 d0 elems (term : sterm A G E) d x s',
  parse_file OPS (parsers_at OPS d) (init_state a0 d0 elems term) = Ok x s' -> s_lp s' = S (s_ln s').
Proof. exact @parse_file_level. Qed.
Print Assumptions C15_file_ends_at_level_zero.

(* the recursion-depth counter is restored on success AND on error *)
Theorem C15_depth_restored :
  forall (A G D C E : Type) (OPS : ops A G D C) d (s : pstate A G D E) x s',
  parse_file OPS (parsers_at OPS d) s = Ok x s' -> s_depth s' = s_depth s.
Proof. exact @depth_restored_parse_file. Qed.
Print Assumptions C15_depth_restored.

(* backtracking never leaves the production that started it: the parser only moves forward *)
Theorem C15_only_forward :
  forall (A G D C E : Type) (OPS : ops A G D C) d (s : pstate A G D E) x s',
  mark_ok s -> entry_stmt OPS (parsers_at OPS d) s = Ok x s' ->
  mark_ok s' /\ suffix_of (s_rest s') (s_rest s) /\ s_term s' = s_term s.
Proof. exact @entry_stmt_forward. Qed.
Print Assumptions C15_only_forward.
