(* C07 -- the sequence of tokens (comments included) tiles the source: each
   token's text is the source text at its offset, tokens are in source order
   and only white space lies between them.  Operators and punctuation are
   recognised by longest match, the 25 keywords are never identifiers and no
   other word is a keyword, identifiers follow the spec's letter/digit classes.
   Property theorems only; definitions in spec/Lex.v, proofs in
   proofs/LexProofs.v. *)
From Coq Require Import String.
From Coq Require Import List NArith Bool Permutation.
From GoSyn Require Import Token Tok Regex Scanner.
From GoSyn.spec Require Import Lex.
From GoSyn.proofs Require Import NumLitProofs LexProofs.
Import ListNotations.
Open Scope N_scope.

(* ------------------------------------------------------------ (1) token text *)

(* every real token's text (comment text, keyword spelling, operator spelling,
   literal text) is a non-empty prefix of the remaining input, and the reported
   character count is its length *)
Theorem C07_token_prefix : forall U l tok cnt, l <> [] ->
  scan_token U l = inl (tok, cnt) ->
  cnt = lenN (tok_text tok) /\ exists rest, l = tok_text tok ++ rest /\ tok_text tok <> [].
Proof. exact scan_token_prefix. Qed.
Print Assumptions C07_token_prefix.

(* ------------------------------------------------------------ (2) tiling *)

(* from any state that satisfies the invariant
     scan_inv src s  :=  s_rest s = skipn (s_pos s) src  /\  s_pos s <= |src| ;
   [end_ok] says what is known when the loop stops: at EOF everything after the
   last token is white space, at an error the gap before the failing token is *)
Theorem C07_tiles_from : forall U src fuel s toks e, scan_inv src s ->
  scan_loop_ext U fuel s = (toks, e) ->
  tiling (is_whitespace U) src (s_pos s) toks /\ end_ok U src (s_pos s) toks e.
Proof. exact scan_loop_ext_tiles. Qed.
Print Assumptions C07_tiles_from.

Theorem C07_tiles : forall U src fuel toks e,
  scan_loop_ext U fuel (init_state src) = (toks, e) ->
  tiling (is_whitespace U) src 0 toks /\
  offsets_sorted toks /\
  retile src 0 toks ++ skipn (N.to_nat (tiling_end 0 toks)) src = src /\
  (forall s, e = SE_Eof s ->
     Forall (fun c => is_whitespace U c = true) (skipn (N.to_nat (tiling_end 0 toks)) src) /\
     s_pos s = lenN src /\ s_rest s = []) /\
  (forall p k s, e = SE_Err p k s ->
     tiling_end 0 toks <= s_pos s /\ s_pos s <= p /\
     Forall (fun c => is_whitespace U c = true) (slice src (tiling_end 0 toks) (s_pos s)) /\
     s_rest s = skipn (N.to_nat (s_pos s)) src).
Proof. exact scan_tiles. Qed.
Print Assumptions C07_tiles.

(* the whole-file entry point, with the fuel it really uses *)
Theorem C07_tiles_all : forall U src toks e,
  scan_all_ext U src = (toks, e) ->
  e <> SE_Fuel /\
  tiling (is_whitespace U) src 0 toks /\
  offsets_sorted toks /\
  retile src 0 toks ++ skipn (N.to_nat (tiling_end 0 toks)) src = src /\
  (forall s, e = SE_Eof s ->
     Forall (fun c => is_whitespace U c = true) (skipn (N.to_nat (tiling_end 0 toks)) src) /\
     s_pos s = lenN src /\ s_rest s = []).
Proof. exact scan_all_ext_tiles. Qed.
Print Assumptions C07_tiles_all.

(* a real tile is strictly longer than nothing: offsets strictly increase
   across it *)
Theorem C07_real_tile_lt : forall src p t e, real_tile src p t e -> p < e.
Proof. exact real_tile_lt. Qed.
Print Assumptions C07_real_tile_lt.

(* ------------------------------------------------------------ (3) operators *)

(* the model's table is the specification's table *)
Theorem C07_op_table :
  Permutation (map op_str all_operators) spec_operators /\
  NoDup (map op_str all_operators) /\ NoDup spec_operators /\
  length spec_operators = 48%nat /\ length all_operators = 48%nat /\
  (forall op, In op all_operators) /\
  (forall op, (1 <= length (op_str op) <= 3)%nat).
Proof. exact op_table_spec. Qed.
Print Assumptions C07_op_table.

(* maximal munch: an operator token is the longest operator string that is a
   prefix of the input *)
Theorem C07_longest : forall U l op cnt,
  scan_token U l = inl (TOperator op, cnt) ->
  cnt = lenN (op_str op) /\ is_prefix (op_str op) l /\
  forall op', is_prefix (op_str op') l -> (length (op_str op') <= length (op_str op))%nat.
Proof. exact scan_token_longest. Qed.
Print Assumptions C07_longest.

(* table fact: operators never start with a letter, '_', a decimal digit or a
   quote; the first character of an operator is an operator *)
Theorem C07_op_first_char : forall op, exists c r, op_str op = c :: r /\
  (c < 128 /\ ascii_letter c = false /\ c <> 95) /\ is_decimal_digit c = false /\
  c <> 39 /\ c <> 34 /\ c <> 96 /\ op_of_str [c] <> None.
Proof. exact op_first_char. Qed.
Print Assumptions C07_op_first_char.

(* conversely an input that starts with an operator string is scanned as an
   operator, the longest one -- EXCEPT, exactly as in the model, when it starts
   with "//" or "/*" (comment) or with '.' followed by a decimal digit (number);
   [num_startb l = false] excludes the latter (an operator never starts with a
   digit, the other half of that guard) *)
Theorem C07_operator_complete : forall U l op',
  uclass_ascii_ok U -> is_prefix (op_str op') l ->
  firstn 2 l <> [47; 47] -> firstn 2 l <> [47; 42] -> num_startb l = false ->
  exists op, scan_token U l = inl (TOperator op, lenN (op_str op)) /\
    is_prefix (op_str op) l /\
    (length (op_str op') <= length (op_str op))%nat.
Proof. exact scan_token_operator_complete. Qed.
Print Assumptions C07_operator_complete.

Theorem C07_operator_complete' : forall U l op',
  uclass_ascii_ok U -> is_prefix (op_str op') l ->
  firstn 2 l <> [47; 47] -> firstn 2 l <> [47; 42] ->
  (forall c1 l2, l = 46 :: c1 :: l2 -> is_decimal_digit c1 = false) ->
  exists op, scan_token U l = inl (TOperator op, lenN (op_str op)) /\
    is_prefix (op_str op) l /\
    (length (op_str op') <= length (op_str op))%nat.
Proof. exact scan_token_operator_complete'. Qed.
Print Assumptions C07_operator_complete'.

(* the three exceptions, as the model has them *)
Theorem C07_line_comment_wins : forall U l, firstn 2 l = [47; 47] ->
  scan_token U l = inl (TComment (take_until_nl l), lenN (take_until_nl l)).
Proof. exact line_comment_wins. Qed.
Print Assumptions C07_line_comment_wins.

Theorem C07_block_comment_wins : forall U l, firstn 2 l = [47; 42] ->
  scan_token U l =
  match gc_body (skipn 2 l) with
  | Some b => inl (TComment (47 :: 42 :: b), lenN (47 :: 42 :: b))
  | None => inr (0, SE_comment_not_terminated)
  end.
Proof. exact block_comment_wins. Qed.
Print Assumptions C07_block_comment_wins.

Theorem C07_dot_digit_is_number : forall U c1 l2, is_decimal_digit c1 = true ->
  scan_token U (46 :: c1 :: l2) =
  match scan_lit_number (46 :: c1 :: l2) with
  | inl (k, s) => inl (TLiteral k s, lenN s)
  | inr e => inr e
  end.
Proof. exact dot_digit_is_number. Qed.
Print Assumptions C07_dot_digit_is_number.

(* ------------------------------------------------------------ (4) keywords, identifiers *)

Theorem C07_kw_table :
  map kw_str all_keywords = spec_keywords /\ NoDup spec_keywords /\
  length spec_keywords = 25%nat /\ (forall k, In k all_keywords).
Proof. exact kw_table_spec. Qed.
Print Assumptions C07_kw_table.

(* an input that starts with a letter: the maximal letter/digit run [w] is an
   identifier of the spec, what follows is not a letter or digit, the token is
   the keyword k iff w spells k, and an identifier iff w spells no keyword *)
Theorem C07_keywords : forall U l c l1,
  uclass_ascii_ok U -> l = c :: l1 -> is_letter U c = true ->
  let w := take_while (ident_char U) l in
  Identifier U w /\
  (exists rest, l = w ++ rest /\ ident_stop U rest) /\
  (forall k, scan_token U l = inl (TKeyword k, lenN w) <-> w = kw_str k) /\
  (scan_token U l = inl (TLiteral LIdent w, lenN w) <-> ~ In w spec_keywords).
Proof. exact scan_token_keywords. Qed.
Print Assumptions C07_keywords.

(* for any oracle: a keyword token is a maximal letter/digit run spelling that
   keyword *)
Theorem C07_keyword_inv : forall U l k cnt,
  scan_token U l = inl (TKeyword k, cnt) ->
  take_while (ident_char U) l = kw_str k /\ Identifier U (kw_str k) /\
  exists rest, l = kw_str k ++ rest /\ ident_stop U rest.
Proof. exact scan_token_keyword_inv. Qed.
Print Assumptions C07_keyword_inv.

(* for any oracle: an identifier token is a maximal letter/digit run, an
   identifier of the spec, and never one of the 25 keywords *)
Theorem C07_ident_inv : forall U l w cnt,
  scan_token U l = inl (TLiteral LIdent w, cnt) ->
  take_while (ident_char U) l = w /\ Identifier U w /\ ~ In w spec_keywords /\
  exists rest, l = w ++ rest /\ ident_stop U rest.
Proof. exact scan_token_ident_inv. Qed.
Print Assumptions C07_ident_inv.

(* ------------------------------------------------------------ (5) fuel *)

Theorem C07_no_fuel : forall U src, snd (scan_all_ext U src) <> SE_Fuel.
Proof. exact scan_all_ext_no_fuel. Qed.
Print Assumptions C07_no_fuel.

Theorem C07_no_fuel_scan_all : forall U src, snd (scan_all U src) <> SE_Fuel.
Proof. exact scan_all_no_fuel. Qed.
Print Assumptions C07_no_fuel_scan_all.

(* ------------------------------------------------------------ non-vacuity *)

Local Notation S2 := (fun s : string => s2l s).

(* "a++" newline " b": two synthetic semicolons, white space in the gap *)
Example C07_example_stream :
  fst (scan_all_ext ascii_uclass [97; 43; 43; 10; 32; 98]) =
  [ (0, TLiteral LIdent [97], 1); (1, TOperator OInc, 3); (3, TOperator OSemiColon, 3);
    (5, TLiteral LIdent [98], 6); (6, TOperator OSemiColon, 6) ] /\
  tiling (is_whitespace ascii_uclass) [97; 43; 43; 10; 32; 98] 0
    (fst (scan_all_ext ascii_uclass [97; 43; 43; 10; 32; 98])) /\
  retile [97; 43; 43; 10; 32; 98] 0 (fst (scan_all_ext ascii_uclass [97; 43; 43; 10; 32; 98]))
    = [97; 43; 43; 10; 32; 98].
Proof.
  split; [vm_compute; reflexivity|]. split.
  - destruct (scan_all_ext ascii_uclass [97; 43; 43; 10; 32; 98]) as [toks e] eqn:E.
    apply C07_tiles_all in E. cbn [fst]. apply E.
  - vm_compute. reflexivity.
Qed.

(* recorded difference: "white space" between tokens is the oracle's
   char::is_whitespace, which on ASCII is 9..13 and 32 -- vertical tab and form
   feed included -- while the specification's white space is 32, 9, 13, 10 *)
Example C07_whitespace_wider_than_spec :
  (forall c, spec_ws c = true -> is_whitespace ascii_uclass c = true) /\
  is_whitespace ascii_uclass 11 = true /\ spec_ws 11 = false /\
  is_whitespace ascii_uclass 12 = true /\ spec_ws 12 = false /\
  fst (scan_all_ext ascii_uclass [97; 12; 98]) =
    [ (0, TLiteral LIdent [97], 1); (2, TLiteral LIdent [98], 3); (3, TOperator OSemiColon, 3) ].
Proof.
  split.
  { intros c H. unfold spec_ws in H. cbn [is_whitespace ascii_uclass u_ws]. unfold ascii_ws.
    repeat (apply orb_true_iff in H as [H|H]); apply N.eqb_eq in H; subst c; reflexivity. }
  repeat split; vm_compute; reflexivity.
Qed.

Local Open Scope string_scope.

Example C07_example_operators :
  scan_token ascii_uclass (S2 "<<=1") = inl (TOperator OShlAssign, 3) /\
  scan_token ascii_uclass (S2 "<<1") = inl (TOperator OShl, 2) /\
  scan_token ascii_uclass (S2 "<-1") = inl (TOperator OArrow, 2) /\
  scan_token ascii_uclass (S2 "&^=x") = inl (TOperator OAndNotAssign, 3) /\
  scan_token ascii_uclass (S2 "/=2") = inl (TOperator OQuoAssign, 2) /\
  scan_token ascii_uclass (S2 "//=2") = inl (TComment (S2 "//=2"), 4) /\
  scan_token ascii_uclass (S2 "/**/=") = inl (TComment (S2 "/**/"), 4) /\
  scan_token ascii_uclass (S2 "..1") = inl (TOperator ODot, 1) /\
  scan_token ascii_uclass (S2 "...") = inl (TOperator ODotDotDot, 3) /\
  scan_token ascii_uclass (S2 ".5+") = inl (TLiteral LFloat (S2 ".5"), 2).
Proof. repeat split; vm_compute; reflexivity. Qed.

Example C07_example_keywords :
  scan_token ascii_uclass (S2 "for(") = inl (TKeyword KFor, 3) /\
  scan_token ascii_uclass (S2 "fork(") = inl (TLiteral LIdent (S2 "fork"), 4) /\
  scan_token ascii_uclass (S2 "_for") = inl (TLiteral LIdent (S2 "_for"), 4) /\
  scan_token ascii_uclass (S2 "func1 ") = inl (TLiteral LIdent (S2 "func1"), 5) /\
  scan_token ascii_uclass (S2 "fallthrough;") = inl (TKeyword KFallThrough, 11) /\
  Identifier ascii_uclass (S2 "x9_") /\ ~ Identifier ascii_uclass (S2 "9x") /\
  uclass_ascii_ok ascii_uclass.
Proof.
  do 5 (split; [vm_compute; reflexivity|]).
  split.
  { split; [reflexivity|].
    constructor; [right; reflexivity|]. constructor; [left; reflexivity|constructor]. }
  split.
  { intros [H _]. vm_compute in H. discriminate H. }
  apply uclass_ascii_okb_sound. vm_compute. reflexivity.
Qed.
