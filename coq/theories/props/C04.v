(* C04 — operator precedence and associativity.
   "The tree groups operands exactly as the spec's five precedence levels
   dictate (|| < && < comparison < additive < multiplicative), binary operators
   of equal precedence associate to the left, unary operators bind tighter than
   any binary operator.  Redundant parentheses never change the grouping."

   Property theorems only; vocabulary in spec/Prec.v, proofs in
   proofs/PrecProofs.v.  All theorems are about the model's own functions
   (Core.prec_nat, binary_loop / binary_body, unary_body, operand, and the closed
   parsers [parsers_at d]), for every instance of the polymorphic core. *)
From Coq Require Import List Arith NArith Lia Bool.
From GoSyn Require Import Token Tok Ast Core.
From GoSyn.spec Require Import Prec.
From GoSyn.proofs Require Import PrecProofs.
Import ListNotations.

(* ------------------------------------------------------------ the table *)

(* Operator::precedence (Core.prec_nat) is the spec's table: both the generated
   Token.spec_prec and the table written out in spec/Prec.v *)
Theorem C04_table : forall o,
  N.of_nat (prec_nat o) = spec_prec o /\ spec_prec o = table_prec o /\ prec_nat o = level o.
Proof.
  intro o. split; [apply prec_table_spec |]. split; [symmetry; apply table_prec_spec |].
  apply prec_nat_level.
Qed.
Print Assumptions C04_table.

(* the five levels, operator by operator; everything else is level 0 *)
Theorem C04_levels : forall o,
  level o = 5 /\ In o [OStar; OQuo; ORem; OShl; OShr; OAnd; OAndNot] \/
  level o = 4 /\ In o [OAdd; OSub; OOr; OXor] \/
  level o = 3 /\ In o [OEqual; ONotEqual; OLess; OLessEqual; OGreater; OGreaterEqual] \/
  level o = 2 /\ o = OAndAnd \/
  level o = 1 /\ o = OOrOr \/
  level o = 0 /\ ~ In o (map fst spec_table).
Proof. exact level_table. Qed.
Print Assumptions C04_levels.

(* ------------------------------------------------------------ the spec grouping *)

(* what PrecWF says at a node, spelled out: equal precedence never nests to the
   right (left associativity), and a looser operator never sits under a tighter one *)
Theorem C04_left_assoc : forall (A C : Type) pos op (l : bexp A C) pos' op' l' r',
  PrecWF (Bin pos op l (Bin pos' op' l' r')) -> level op < level op'.
Proof. intros A C pos op l pos' op' l' r' H. simpl in H. tauto. Qed.
Print Assumptions C04_left_assoc.

Theorem C04_tighter_below : forall (A C : Type) pos op pos' op' l' r' (r : bexp A C),
  PrecWF (Bin pos op (Bin pos' op' l' r') r) -> level op <= level op'.
Proof. intros A C pos op pos' op' l' r' r H. simpl in H. tauto. Qed.
Print Assumptions C04_tighter_below.

(* the grouping the spec dictates for a sequence  x0 op1 x1 ... opn xn  is unique *)
Theorem C04_grouping_unique : forall (A C : Type) (t1 t2 : bexp A C),
  PrecWF t1 -> PrecWF t2 -> flat t1 = flat t2 -> t1 = t2.
Proof. exact PrecWF_unique. Qed.
Print Assumptions C04_grouping_unique.

(* ------------------------------------------------------------ the climbing loop *)

(* One unfolding, for an ARBITRARY operand parser and ARBITRARY recursive
   parsers: if the recursive calls binary_expression(None, q) keep the contract
   BinOK, so does binary_body.  BinOK p s n s' (spec/Prec.v): n is the tree of
   some t with PrecWF t, the root of t binds tighter than p, the parser stops
   at a token that is not a binary operator of level > p, and the in-order
   reading of t is exactly what was consumed between s and s' (operands: runs
   of the operand parser; operators: the current tokens, taken by next). *)
Theorem C04_sound_step : forall (A G D C E : Type) (OPS : ops A G D C)
    (U : pstate A G D E -> node A C -> pstate A G D E -> Prop) (self : parsers A G D C E),
  (forall s x s', k_unary A G D C E self s = Ok x s' -> U s x s') ->
  (forall q s n s', k_binary A G D C E self None q s = Ok n s' -> BinOK OPS U q s n s') ->
  forall p s n s',
    binary_body A G D C E OPS self None p s = Ok n s' -> BinOK OPS U p s n s'.
Proof. exact binary_body_sound. Qed.
Print Assumptions C04_sound_step.

(* the closed parser, at every depth fuel; operands are results of the real
   unary-expression parser *)
Theorem C04_sound : forall (A G D C E : Type) (OPS : ops A G D C) d p s n s',
  k_binary A G D C E (parsers_at A G D C E OPS d) None p s = Ok n s' ->
  BinOK OPS (unary_result OPS) p s n s'.
Proof. exact k_binary_sound. Qed.
Print Assumptions C04_sound.

(* binary_expression(Some(x), p): x is the first operand (used by parse_type_spec) *)
Theorem C04_sound_from : forall (A G D C E : Type) (OPS : ops A G D C) d x p s n s',
  k_binary A G D C E (parsers_at A G D C E OPS d) (Some x) p s = Ok n s' ->
  BinOKFrom OPS (unary_result OPS) x p s n s'.
Proof. exact k_binary_sound_from. Qed.
Print Assumptions C04_sound_from.

(* the structural part and the token-accounting part, separately and unfolded *)
Theorem C04_sound_structure : forall (A G D C E : Type) (OPS : ops A G D C) d p s n s',
  k_binary A G D C E (parsers_at A G D C E OPS d) None p s = Ok n s' ->
  exists t : bexp A C,
    n = to_node t /\ PrecWF t /\ tighter_than p t /\
    (forall pos op, s_cur A G D E s' = Some (pos, TOperator op) -> prec_nat op <= p).
Proof.
  intros A G D C E OPS d p s n s' H.
  destruct (k_binary_sound A G D C E OPS d p s n s' H) as (t & H1 & H2 & H3 & H4 & H5).
  exists t. repeat split; try assumption.
  intros pos op Hc. rewrite prec_nat_level. apply (H4 pos op Hc).
Qed.
Print Assumptions C04_sound_structure.

Theorem C04_sound_flat : forall (A G D C E : Type) (OPS : ops A G D C) d p s n s',
  k_binary A G D C E (parsers_at A G D C E OPS d) None p s = Ok n s' ->
  exists t : bexp A C,
    n = to_node t /\ PrecWF t /\ Trace OPS (unary_result OPS) s (flat t) s'.
Proof.
  intros A G D C E OPS d p s n s' H.
  destruct (k_binary_sound A G D C E OPS d p s n s' H) as (t & H1 & H2 & H3 & H4 & H5).
  exists t. repeat split; assumption.
Qed.
Print Assumptions C04_sound_flat.

(* expression() = binary_expression(None, 0): the tree returned is THE grouping
   the spec dictates for the sequence consumed, and parsing stops at a token
   that is not a binary operator *)
Theorem C04_expr_grouping : forall (A G D C E : Type) (OPS : ops A G D C) d s n s',
  k_expr A G D C E (parsers_at A G D C E OPS d) s = Ok n s' ->
  exists t : bexp A C,
    n = to_node t /\ PrecWF t /\ Trace OPS (unary_result OPS) s (flat t) s' /\
    (forall pos op, s_cur A G D E s' = Some (pos, TOperator op) -> level op = 0) /\
    (forall t' : bexp A C, PrecWF t' -> flat t' = flat t -> t' = t).
Proof. exact k_expr_grouping. Qed.
Print Assumptions C04_expr_grouping.

(* the public entry point Parser::expression *)
Theorem C04_entry : forall (A G D C E : Type) (OPS : ops A G D C) d s n s',
  entry_expression A G D C E OPS (parsers_at A G D C E OPS d) s = Ok n s' ->
  exists s0, ensure_started A G D C E OPS s = Ok tt s0 /\
             BinOK OPS (unary_result OPS) 0 s0 n s'.
Proof. exact entry_expression_sound. Qed.
Print Assumptions C04_entry.

(* ------------------------------------------------------------ unary operators *)

(* the operand of a unary operator is a unary-expression (k_unary), never a
   binary expression *)
Theorem C04_unary_operand : forall (A G D C E : Type) (OPS : ops A G D C)
    (self : parsers A G D C E) s n s' pos op,
  s_cur A G D E s = Some (pos, TOperator op) -> classify_unary op <> UCNone ->
  unary_body A G D C E OPS self s = Ok n s' ->
  exists s1 x,
    next A G D C E OPS s = Ok tt s1 /\ k_unary A G D C E self s1 = Ok x s' /\
    match classify_unary op with
    | UCPlain => n = n_operation A C pos op x None
    | UCAnd => n = n_operation A C pos op x None
    | UCArrow =>
        if is_tag GTypeChannel x then reset_chan_arrow A C E pos x = inl n
        else n = n_operation A C pos op x None
    | UCNone => False
    end.
Proof. intros A G D C E OPS self. exact (unary_body_operator A G D C E OPS self). Qed.
Print Assumptions C04_unary_operand.

(* hence  -a * b  is  (-a) * b : the unary operation is the first OPERAND of the
   binary tree, and every binary operator of the expression lies after and
   above it.  (The upd_depth terms are Parser.depth bookkeeping: the
   unary-expression production runs one nesting level deeper and restores the
   depth when it returns; upd_depth touches no other field of the state.) *)
Theorem C04_unary_binds_tighter : forall (A G D C E : Type) (OPS : ops A G D C)
    d p s n s' pos op,
  k_binary A G D C E (parsers_at A G D C E OPS d) None p s = Ok n s' ->
  s_cur A G D E s = Some (pos, TOperator op) -> classify_unary op = UCPlain ->
  exists (t : bexp A C) x s1 s2 rest,
    n = to_node t /\ PrecWF t /\
    next A G D C E OPS (upd_depth A G D E s (S (s_depth A G D E s))) = Ok tt s1 /\
    unary_result OPS s1 x s2 /\
    flat t = IOperand (n_operation A C pos op x None) :: rest /\
    Trace OPS (unary_result OPS) (upd_depth A G D E s2 (pred (s_depth A G D E s2))) rest s'.
Proof. exact unary_binds_tighter. Qed.
Print Assumptions C04_unary_binds_tighter.

(* ------------------------------------------------------------ parentheses *)

(* a parenthesised operand is Paren around a full expression, grouped by the
   same rules from level 0 *)
Theorem C04_paren_content : forall (A G D C E : Type) (OPS : ops A G D C) d s n s' pos,
  s_cur A G D E s = Some (pos, TOperator OParenLeft) ->
  operand A G D C E OPS (parsers_at A G D C E OPS d) s = Ok n s' ->
  exists e p1 (s2 s3 : pstate A G D E),
    n = paren_node pos p1 e /\ BinOK OPS (unary_result OPS) 0 s2 e s3.
Proof. exact paren_content_grouped. Qed.
Print Assumptions C04_paren_content.

(* parenthesising a group the spec forms anyway: still the spec's grouping,
   the only one, and the same tree once parentheses are forgotten *)
Theorem C04_paren_tree : forall (A C : Type) path p0 p1 (t t' : bexp A C),
  PrecWF t -> PrecWF t' -> flat t' = flat (paren_at path p0 p1 t) ->
  t' = paren_at path p0 p1 t /\ strip_parens (to_node t') = strip_parens (to_node t).
Proof. exact paren_at_unique. Qed.
Print Assumptions C04_paren_tree.

(* for the parser: if what expression() consumed is a spec-grouped expression t
   with one of its groups in parentheses, the result is t with a Paren node
   around that group *)
Theorem C04_parens_redundant : forall (A G D C E : Type) (OPS : ops A G D C) d s n s',
  k_expr A G D C E (parsers_at A G D C E OPS d) s = Ok n s' ->
  exists t' : bexp A C,
    n = to_node t' /\ PrecWF t' /\ Trace OPS (unary_result OPS) s (flat t') s' /\
    forall (t : bexp A C) path p0 p1,
      PrecWF t -> flat t' = flat (paren_at path p0 p1 t) ->
      n = to_node (paren_at path p0 p1 t) /\
      strip_parens n = strip_parens (to_node t).
Proof. exact parens_redundant. Qed.
Print Assumptions C04_parens_redundant.

(* ------------------------------------------------------------ a closed family, end to end *)

(* On  x0 op1 x1 ... opn xn <EOF>  (identifiers, binary operators) the real
   parser, through Parser::expression, with depth fuel >= length + 2, consumes
   everything and returns the unique tree the spec dictates. *)
Theorem C04_closed : forall (A G D C E : Type) (OPS : ops A G D C) d a d0 elems ae ge,
  expr_stream elems -> length elems + 2 <= d ->
  exists (t : bexp A C) s',
    entry_expression A G D C E OPS (parsers_at A G D C E OPS d)
      (init_state A G D E a d0 elems (TEof ae ge)) = Ok (to_node t) s' /\
    PrecWF t /\ flat t = items_of elems /\
    s_cur A G D E s' = None /\ s_rest A G D E s' = [] /\
    (forall t' : bexp A C, PrecWF t' -> flat t' = items_of elems -> t' = t).
Proof.
  intros A G D C E OPS d a d0 elems ae ge Hs Hd.
  destruct (expr_stream_complete A G D C E OPS d a d0 elems ae ge Hs Hd)
    as (t & s' & H1 & H2 & H3 & H4 & H5).
  exists t, s'. repeat split; try assumption.
  intros t' Hw Hf. apply PrecWF_unique; [exact Hw | exact H2 | rewrite Hf, H3; reflexivity].
Qed.
Print Assumptions C04_closed.

(* ------------------------------------------------------------ examples (non-vacuity):
   the real parser, instance demo_ops (positions = token indices), by computation *)

Definition a_ : N := 97.  Definition b_ : N := 98.  Definition c_ : N := 99.
Definition d_ : N := 100. Definition e_ : N := 101. Definition f_ : N := 102.
Definition p_ : N := 112.

Ltac wf := apply precwf_b_sound; vm_compute; reflexivity.
Ltac not_wf := let H := fresh in intro H; apply precwf_b_complete in H; vm_compute in H; discriminate H.

(* a + b * c  =  a + (b * c) *)
Example C04_ex_add_mul :
  let t := Bin 1 OAdd (aid 0 a_) (Bin 3 OStar (aid 2 b_) (aid 4 c_)) in
  demo_parse [tid a_; top OAdd; tid b_; top OStar; tid c_] = Some (to_node t) /\ PrecWF t /\
  ~ PrecWF (Bin 3 OStar (Bin 1 OAdd (aid 0 a_) (aid 2 b_)) (aid 4 c_)).
Proof. split; [vm_compute; reflexivity |]. split; [wf | not_wf]. Qed.

(* a * b + c  =  (a * b) + c *)
Example C04_ex_mul_add :
  let t := Bin 3 OAdd (Bin 1 OStar (aid 0 a_) (aid 2 b_)) (aid 4 c_) in
  demo_parse [tid a_; top OStar; tid b_; top OAdd; tid c_] = Some (to_node t) /\ PrecWF t /\
  ~ PrecWF (Bin 1 OStar (aid 0 a_) (Bin 3 OAdd (aid 2 b_) (aid 4 c_))).
Proof. split; [vm_compute; reflexivity |]. split; [wf | not_wf]. Qed.

(* a - b - c  =  (a - b) - c *)
Example C04_ex_left_assoc :
  let t := Bin 3 OSub (Bin 1 OSub (aid 0 a_) (aid 2 b_)) (aid 4 c_) in
  demo_parse [tid a_; top OSub; tid b_; top OSub; tid c_] = Some (to_node t) /\ PrecWF t /\
  ~ PrecWF (Bin 1 OSub (aid 0 a_) (Bin 3 OSub (aid 2 b_) (aid 4 c_))).
Proof. split; [vm_compute; reflexivity |]. split; [wf | not_wf]. Qed.

(* a || b && c == d + e * f  =  a || (b && (c == (d + (e * f)))) : all five levels *)
Example C04_ex_five_levels :
  let t := Bin 1 OOrOr (aid 0 a_)
             (Bin 3 OAndAnd (aid 2 b_)
                (Bin 5 OEqual (aid 4 c_)
                   (Bin 7 OAdd (aid 6 d_) (Bin 9 OStar (aid 8 e_) (aid 10 f_))))) in
  demo_parse [tid a_; top OOrOr; tid b_; top OAndAnd; tid c_; top OEqual; tid d_; top OAdd;
              tid e_; top OStar; tid f_] = Some (to_node t) /\ PrecWF t.
Proof. split; [vm_compute; reflexivity | wf]. Qed.

(* a * b + c == d && e || f  =  ((((a * b) + c) == d) && e) || f : the mirror image *)
Example C04_ex_five_levels_down :
  let t := Bin 9 OOrOr
             (Bin 7 OAndAnd
                (Bin 5 OEqual
                   (Bin 3 OAdd (Bin 1 OStar (aid 0 a_) (aid 2 b_)) (aid 4 c_)) (aid 6 d_))
                (aid 8 e_)) (aid 10 f_) in
  demo_parse [tid a_; top OStar; tid b_; top OAdd; tid c_; top OEqual; tid d_; top OAndAnd;
              tid e_; top OOrOr; tid f_] = Some (to_node t) /\ PrecWF t.
Proof. split; [vm_compute; reflexivity | wf]. Qed.

(* a << b & c | d ^ e  =  (((a << b) & c) | d) ^ e : the operators whose level in Go
   differs from C *)
Example C04_ex_go_levels :
  let t := Bin 7 OXor (Bin 5 OOr (Bin 3 OAnd (Bin 1 OShl (aid 0 a_) (aid 2 b_)) (aid 4 c_))
                         (aid 6 d_)) (aid 8 e_) in
  demo_parse [tid a_; top OShl; tid b_; top OAnd; tid c_; top OOr; tid d_; top OXor; tid e_]
    = Some (to_node t) /\ PrecWF t.
Proof. split; [vm_compute; reflexivity | wf]. Qed.

(* unary operators:  -a * b = (-a) * b,  !a && b = (!a) && b,  *p + 1 = ( *p) + 1,
   <-c + 1 = (<-c) + 1 *)
Example C04_ex_unary :
  demo_parse [top OSub; tid a_; top OStar; tid b_]
    = Some (to_node (Bin 2 OStar (Atom (n_operation nat unit 0 OSub (n_ident nat unit 1 [a_]) None))
                                 (aid 3 b_))) /\
  demo_parse [top ONot; tid a_; top OAndAnd; tid b_]
    = Some (to_node (Bin 2 OAndAnd (Atom (n_operation nat unit 0 ONot (n_ident nat unit 1 [a_]) None))
                                   (aid 3 b_))) /\
  demo_parse [top OStar; tid p_; top OAdd; TLiteral LInteger [49%N]]
    = Some (to_node (Bin 2 OAdd (Atom (n_operation nat unit 0 OStar (n_ident nat unit 1 [p_]) None))
                                (Atom (n_basic nat unit 3 LInteger [49%N])))) /\
  demo_parse [top OArrow; tid c_; top OAdd; TLiteral LInteger [49%N]]
    = Some (to_node (Bin 2 OAdd (Atom (n_operation nat unit 0 OArrow (n_ident nat unit 1 [c_]) None))
                                (Atom (n_basic nat unit 3 LInteger [49%N])))) /\
  (* a * -b - c = (a * (-b)) - c *)
  demo_parse [tid a_; top OStar; top OSub; tid b_; top OSub; tid c_]
    = Some (to_node (Bin 4 OSub
                       (Bin 1 OStar (aid 0 a_)
                          (Atom (n_operation nat unit 2 OSub (n_ident nat unit 3 [b_]) None)))
                       (aid 5 c_))).
Proof. repeat split; vm_compute; reflexivity. Qed.

(* parentheses:  a + (b * c)  and  (a - b) - c  are  a + b * c  and  a - b - c  with a
   Paren node around the group (paren_at), hence equal to them once parentheses
   and positions are forgotten;  (a + b) * c  and  a - (b - c)  override *)
Example C04_ex_parens :
  demo_parse [tid a_; top OAdd; top OParenLeft; tid b_; top OStar; tid c_; top OParenRight]
    = Some (to_node (paren_at [true] 2 6
                       (Bin 1 OAdd (aid 0 a_) (Bin 4 OStar (aid 3 b_) (aid 5 c_))))) /\
  option_map (fun n => erase (strip_parens n))
    (demo_parse [tid a_; top OAdd; top OParenLeft; tid b_; top OStar; tid c_; top OParenRight])
    = option_map erase (demo_parse [tid a_; top OAdd; tid b_; top OStar; tid c_]) /\
  option_map (fun n => erase (strip_parens n))
    (demo_parse [top OParenLeft; tid a_; top OSub; tid b_; top OParenRight; top OSub; tid c_])
    = option_map erase (demo_parse [tid a_; top OSub; tid b_; top OSub; tid c_]) /\
  option_map (fun n => erase (strip_parens n))
    (demo_parse [top OParenLeft; top OParenLeft; tid a_; top OParenRight; top OSub; tid b_;
                 top OParenRight; top OSub; top OParenLeft; tid c_; top OParenRight])
    = option_map erase (demo_parse [tid a_; top OSub; tid b_; top OSub; tid c_]) /\
  demo_parse [top OParenLeft; tid a_; top OAdd; tid b_; top OParenRight; top OStar; tid c_]
    = Some (to_node (Bin 5 OStar
                       (Atom (paren_node 0 4 (to_node (Bin 2 OAdd (aid 1 a_) (aid 3 b_)))))
                       (aid 6 c_))) /\
  option_map (fun n => erase (strip_parens n))
    (demo_parse [tid a_; top OSub; top OParenLeft; tid b_; top OSub; tid c_; top OParenRight])
    <> option_map erase (demo_parse [tid a_; top OSub; tid b_; top OSub; tid c_]).
Proof.
  repeat split; try (vm_compute; reflexivity).
  vm_compute. intro H. discriminate H.
Qed.

(* C04_closed applies: a + b * c as an instance of the closed family *)
Example C04_ex_closed :
  expr_stream (demo_stream 0 [tid a_; top OAdd; tid b_; top OStar; tid c_]) /\
  items_of (C := unit) (demo_stream 0 [tid a_; top OAdd; tid b_; top OStar; tid c_])
    = flat (Bin 1 OAdd (aid 0 a_) (Bin 3 OStar (aid 2 b_) (aid 4 c_))).
Proof.
  split; [| reflexivity].
  exists 0, 1, [a_], tt, (demo_stream 1 [top OAdd; tid b_; top OStar; tid c_]).
  split; [reflexivity |].
  simpl. unfold tid, top.
  apply oit_cons; [unfold is_binary_op; vm_compute; lia |].
  apply oit_cons; [unfold is_binary_op; vm_compute; lia |].
  apply oit_nil.
Qed.
