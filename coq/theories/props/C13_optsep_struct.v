(* C13, optional separators: omitting the ";" after the last field of a struct type
   does not change the tree (proofs/OptionalSepStruct.v). *)
From Coq Require Import List.
From GoSyn Require Import Token Tok Ast Core.
From GoSyn.spec Require Import Prec Print Print2 Print3.
From GoSyn.proofs Require Import RoundTripTypesBase RoundTripBase2 OptionalSepStruct.
Import ListNotations.

(* struct { f1 ; ... ; fn ; f }  for the printed  struct { f1 ; ... ; fn ; f ; } *)
Theorem C13_struct_last_semicolon : forall (A G D C E : Type) (OPS : ops A G D C)
    (fs : list (sfield (typ exp2))) (f : sfield (typ exp2)),
  wfT (wf2 false) (TStruct (fs ++ [f])) ->
  TBP_toks A G D C E OPS exp2 shape2 depth2 need2 (TStruct (fs ++ [f]))
    (kw KStruct :: tk OBraceLeft :: flat_map (printF print2) fs ++ printF0 print2 f ++ [tk OBraceRight]).
Proof. exact struct_nosemi_wf. Qed.
Print Assumptions C13_struct_last_semicolon.

(* interface { e1 ; ... ; en ; e }  for the printed  interface { e1 ; ... ; en ; e ; } *)
Theorem C13_interface_last_semicolon : forall (A G D C E : Type) (OPS : ops A G D C)
    (es : list (ielem (typ exp2))) (e : ielem (typ exp2)),
  wfT (wf2 false) (TInterface (es ++ [e])) ->
  TBP_toks A G D C E OPS exp2 shape2 depth2 need2 (TInterface (es ++ [e]))
    (kw KInterface :: tk OBraceLeft :: flat_map (printI print2) es ++ printI0 print2 e ++ [tk OBraceRight]).
Proof. exact iface_nosemi_wf. Qed.
Print Assumptions C13_interface_last_semicolon.
