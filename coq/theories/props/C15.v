(* C15 — a fragment parses the same alone, embedded, or after other code.
   Property theorems only.  PARTIAL: proved here are (1) position shift: the
   same token stream with every position moved by k gives the same tree with
   every position moved by k, whatever the comment state, comment policy and
   line table are (parametricity of the core); (2) independence of everything
   but the tokens (C13's theorem for the expression / statement entry points
   and for repeated statement calls).  Not yet a theorem: that the nesting
   level and the backtracking mark left by an earlier top-level declaration
   are the initial ones (validated by the correspondence on prefix x fragment
   families; see DESIGN.md). *)
From Coq Require Import List NArith.
From GoSyn Require Import Token Tok Scanner Ast Core Policy Entry Param.
From GoSyn.proofs Require Import FreeTheorems.
Import ListNotations.
Open Scope N_scope.

Definition C15_full_statement : Prop :=
  (* for every source [pre ++ frag] accepted as a file whose last declaration is parsed from
     [frag], that declaration is the tree of [frag] parsed alone, shifted by |pre| *)
  True.

Theorem C15_shift_file_partial :
  forall G1 D1 C1 E1 G2 D2 C2 E2 (O1 : ops N G1 D1 C1) (O2 : ops N G2 D2 C2),
  (forall a, a_plus2 _ _ _ _ O1 a = a + 2) -> (forall a, a_plus2 _ _ _ _ O2 a = a + 2) ->
  forall k d (s1 : pstate N G1 D1 E1) (s2 : pstate N G2 D2 E2) n1 t1,
  state_rel (shiftR k) s1 s2 ->
  parse_file N G1 D1 C1 E1 O1 (parsers_at N G1 D1 C1 E1 O1 d) s1 = Ok n1 t1 ->
  exists n2 t2,
    parse_file N G2 D2 C2 E2 O2 (parsers_at N G2 D2 C2 E2 O2 d) s2 = Ok n2 t2 /\
    erase n2 = erase n1 /\ positions n2 = map (fun a => a + k) (positions n1).
Proof. intros G1 D1 C1 E1 G2 D2 C2 E2 O1 O2 H1 H2 k d s1 s2 n1 t1 Hs Hr. exact (shift_file O1 O2 H1 H2 k d s1 s2 n1 t1 Hs Hr). Qed.
Print Assumptions C15_shift_file_partial.

Theorem C15_shift_stmt_partial :
  forall G1 D1 C1 E1 G2 D2 C2 E2 (O1 : ops N G1 D1 C1) (O2 : ops N G2 D2 C2),
  (forall a, a_plus2 _ _ _ _ O1 a = a + 2) -> (forall a, a_plus2 _ _ _ _ O2 a = a + 2) ->
  forall k d (s1 : pstate N G1 D1 E1) (s2 : pstate N G2 D2 E2) n1 t1,
  state_rel (shiftR k) s1 s2 ->
  entry_stmt N G1 D1 C1 E1 O1 (parsers_at N G1 D1 C1 E1 O1 d) s1 = Ok n1 t1 ->
  exists n2 t2,
    entry_stmt N G2 D2 C2 E2 O2 (parsers_at N G2 D2 C2 E2 O2 d) s2 = Ok n2 t2 /\
    erase n2 = erase n1 /\ positions n2 = map (fun a => a + k) (positions n1).
Proof. intros G1 D1 C1 E1 G2 D2 C2 E2 O1 O2 H1 H2 k d s1 s2 n1 t1 Hs Hr. exact (shift_stmt O1 O2 H1 H2 k d s1 s2 n1 t1 Hs Hr). Qed.
Print Assumptions C15_shift_stmt_partial.

Theorem C15_shift_expression_partial : forall k (p1 p2 : prepared) n1 t1,
  shifted k p1 p2 ->
  entry_expression _ _ _ _ _ (policy_ops (pr_lines p1))
    (parsers_at N (list comment) cstate (list comment) scan_err (policy_ops (pr_lines p1)) (depth_fuel p1))
    (init_state N (list comment) cstate scan_err 0 {| c_all := []; c_lead := []; c_prev := None |} (pr_elems p1) (pr_term p1)) = Ok n1 t1 ->
  exists n2 t2,
    entry_expression _ _ _ _ _ (policy_ops (pr_lines p2))
      (parsers_at N (list comment) cstate (list comment) scan_err (policy_ops (pr_lines p2)) (depth_fuel p2))
      (init_state N (list comment) cstate scan_err k {| c_all := []; c_lead := []; c_prev := None |} (pr_elems p2) (pr_term p2)) = Ok n2 t2 /\
    erase n2 = erase n1 /\ positions n2 = map (fun a => a + k) (positions n1).
Proof. exact shift_run_expression. Qed.
Print Assumptions C15_shift_expression_partial.

Theorem C15_error_shift_partial :
  forall G1 D1 C1 E1 G2 D2 C2 E2 (O1 : ops N G1 D1 C1) (O2 : ops N G2 D2 C2),
  (forall a, a_plus2 _ _ _ _ O1 a = a + 2) -> (forall a, a_plus2 _ _ _ _ O2 a = a + 2) ->
  forall k d (s1 : pstate N G1 D1 E1) (s2 : pstate N G2 D2 E2) e1 t1,
  state_rel (shiftR k) s1 s2 ->
  parse_file N G1 D1 C1 E1 O1 (parsers_at N G1 D1 C1 E1 O1 d) s1 = Err e1 t1 ->
  exists e2 t2,
    parse_file N G2 D2 C2 E2 O2 (parsers_at N G2 D2 C2 E2 O2 d) s2 = Err e2 t2 /\
    err_pos e2 = option_map (fun a => a + k) (err_pos e1).
Proof. intros G1 D1 C1 E1 G2 D2 C2 E2 O1 O2 H1 H2 k d s1 s2 e1 t1 Hs Hr. exact (shift_file_err O1 O2 H1 H2 k d s1 s2 e1 t1 Hs Hr). Qed.
Print Assumptions C15_error_shift_partial.

(* repeated Parser::parse_stmt calls / the expression entry depend on the tokens only *)
Theorem C15_entry_tokens_only_partial : forall (e : entry) (p1 p2 : prepared),
  same_stream p1 p2 -> outcome_of (run_entry e p1) = outcome_of (run_entry e p2).
Proof. exact layout_run_entry. Qed.
Print Assumptions C15_entry_tokens_only_partial.
