(* C12, NESTED NODES -- closes the item left open at the end of props/C12.v.

   props/C12.v proves the documentation rule for the package clause and the
   TOP-LEVEL declarations, and shows why the lifting framework cannot go
   further: Parser::goback restores the token but not the comment state, so
   [sync_inv] ("the lead is empty or the documentation of the CURRENT token")
   is not kept by one of the primitives (C12_sync_not_closed_under_goback).

   Here: a ghost MODE.
     fresh  [Fi lines E whole s]: s comes from the stream [whole] and sync_inv s
     stale  [sinv whole s]:       s comes from the stream, no claim on the lead
   goback yields stale; Parser::next yields fresh from ANY state of the stream
   (C12_next_fresh); drain is only ever reached fresh (C12_drain_fresh is the
   only specification of drain that the proofs use).  Threaded through all
   productions as RESULT-level specifications (proofs/DocNested*.v):
     DS good p :  Fi s   -> p s = Ok r s' -> Fi s' /\ good r
     DW good p :  sinv s -> p s = Ok r s' -> Fi s' /\ good r
   A type, a parameter list, a type element are DW: they consume a token before
   anything can drain -- that is why the two backtracking sites (the
   type-parameter path of parse_type_spec, the interface loop) are harmless.

   RESULTS
   (1) C12_full: the Definition C12_full_statement of props/C12.v holds.
   (2) C12_nested_file / _stmt / _expression: EVERY node of a returned tree
       that has a documentation slot (FuncDecl; Decl and each spec of a group;
       the spec of a single declaration; struct Field) -- at any depth: inside
       function bodies, function literals, nested struct types -- carries the
       specification's documentation of ITS FIRST TOKEN, a token of the input:
         FuncDecl      the `func` keyword (kept in its FuncType)
         Decl (group)  the keyword; each spec: its first name
         Decl (single) Decl.docs is empty; the spec carries the documentation
                       of the KEYWORD (the crate's with_docs)
         struct Field  its first name, or where the embedded type starts; plus
                       possibly the comment that follows it on the line of its ';'
       and no other node carries any documentation.
   (3) C12_all_nodes: every documentation value stored anywhere in an accepted
       file is the documentation of a token of the input.
   (4) EXACT FORM (proofs/DocExact*.v, the same development over a stronger
       fresh mode): in (2) and (3) "the documentation of the token" is
           lead_spec prev g' (Some pos)
       with the TRUE previous end: prev = the scanner position after the
       element that precedes the token in the input (None for the first token),
       g' = all comments in front of the token; or, when line_end_comment took
       the first of them as the trailing comment of a struct field, prev = the
       end of that comment and g' = the others (C12_exact_doc_at).  Hence, for
       every documented node at any depth: a blank line detaches, a comment on
       the line on which the previous token ends is never reported
       (C12_exact_comments, with C12_blank_line / C12_trailing of props/C12.v
       which are stated for any prev).  (In (1)-(3) prev is existential, as in
       C12_drain_synced: that is all [sync_inv] records.) *)
From Coq Require Import String Ascii.
From Coq Require Import List NArith Bool.
From GoSyn.spec Require Import LineCol Docs.
From GoSyn Require Import Token Tok Scanner Ast Core Policy Entry.
From GoSyn.proofs Require Import Lift StreamProofs LevelProofs DocProofs PosBase
  DocNestedBase DocNestedExpr DocNestedStmt DocNested.
From GoSyn.proofs Require DocExactBase DocExactExpr DocExactStmt DocExact.
From GoSynGen Require Import GenClasses.
From GoSyn.props Require Import C12.
Import ListNotations.
Open Scope N_scope.

(* ------------------------------------------------------------ (0) the mode *)

(* Parser::next: fresh, whatever the mode was (C12_fresh_state is why) *)
Theorem C12_next_fresh : forall lines E whole (s : pstate N (list comment) cstate E) y s',
  sinv whole s -> next (policy_ops lines) s = Ok y s' -> Fi lines E whole s'.
Proof. exact F_next. Qed.
Print Assumptions C12_next_fresh.

(* goback: stale -- the stream part survives, the claim about the lead does not *)
Theorem C12_goback_stale : forall lines E whole (s0 s : pstate N (list comment) cstate E) y s',
  sinv whole s0 -> goback (policy_ops lines) (preback s0) s = Ok y s' -> sinv whole s'.
Proof. exact goback_stale. Qed.
Print Assumptions C12_goback_stale.

(* drain, in mode fresh only: nothing, or the documentation of the current token *)
Theorem C12_drain_fresh : forall lines E whole (s : pstate N (list comment) cstate E) c s1,
  Fi lines E whole s -> drain (policy_ops lines) s = (c, s1) ->
  Fi lines E whole s1 /\ s_cur s1 = s_cur s /\ cur_pos s1 = cur_pos s /\
  (s_cur s1 <> None -> doc_at lines whole (Some (cur_pos s1)) c).
Proof. exact F_drain. Qed.
Print Assumptions C12_drain_fresh.

(* ------------------------------------------------------------ (1) every production *)

(* every production of the grammar, at every depth.  k_type / k_type_or_none
   from ANY state of the stream (DW / DOpt), the others from a fresh one *)
Theorem C12_every_production : forall lines E whole depth,
  GoodD lines E whole (parsers_at (policy_ops lines) depth).
Proof. exact GoodD_parsers_at. Qed.
Print Assumptions C12_every_production.

(* the OPEN item of props/C12.v *)
Theorem C12_full : C12_full_statement.
Proof. exact sync_inv_Good. Qed.
Print Assumptions C12_full.

(* the two backtracking sites *)
Theorem C12_type_spec_backtracks : forall lines E whole self,
  GoodD lines E whole self ->
  DS lines E whole (sgood lines whole SKType) (parse_type_spec (policy_ops lines) self).
Proof. exact P_parse_type_spec. Qed.
Print Assumptions C12_type_spec_backtracks.

Theorem C12_interface_loop_backtracks : forall lines E whole self,
  GoodD lines E whole self -> forall fuel acc,
  DS lines E whole (fun r => Forall (dgood lines whole) acc -> Forall (dgood lines whole) r)
     (interface_loop (policy_ops lines) self fuel acc).
Proof. exact P_interface_loop. Qed.
Print Assumptions C12_interface_loop_backtracks.

(* what follows a goback may be entered stale *)
Theorem C12_type_parameters_stale : forall lines E whole self,
  GoodD lines E whole self ->
  DW lines E whole (dgood lines whole) (type_parameters (policy_ops lines) self).
Proof. exact S_type_parameters. Qed.
Print Assumptions C12_type_parameters_stale.

Theorem C12_type_elem_stale : forall lines E whole self,
  GoodD lines E whole self ->
  DW lines E whole (dgood lines whole) (parse_type_elem (policy_ops lines) self).
Proof. exact S_parse_type_elem. Qed.
Print Assumptions C12_type_elem_stale.

(* ------------------------------------------------------------ (2) the nodes *)

Theorem C12_nested_file : forall lines E depth a0 d0 elems (term : sterm N (list comment) E) f s',
  c_lead d0 = [] ->
  parse_file (policy_ops lines) (parsers_at (policy_ops lines) depth)
             (init_state a0 d0 elems term) = Ok f s' ->
  forall n, occurs n f -> node_doc_ok lines elems n.
Proof. exact parse_file_nested. Qed.
Print Assumptions C12_nested_file.

Theorem C12_nested_stmt : forall lines E depth elems (s : pstate N (list comment) cstate E) e s',
  Fi lines E elems s ->
  entry_stmt (policy_ops lines) (parsers_at (policy_ops lines) depth) s = Ok e s' ->
  Fi lines E elems s' /\ forall n, occurs n e -> node_doc_ok lines elems n.
Proof. exact entry_stmt_nested. Qed.
Print Assumptions C12_nested_stmt.

Theorem C12_nested_expression :
  forall lines E depth elems (s : pstate N (list comment) cstate E) e s',
  Fi lines E elems s ->
  entry_expression (policy_ops lines) (parsers_at (policy_ops lines) depth) s = Ok e s' ->
  Fi lines E elems s' /\ forall n, occurs n e -> node_doc_ok lines elems n.
Proof. exact entry_expression_nested. Qed.
Print Assumptions C12_nested_expression.

(* the initial state is fresh *)
Theorem C12_init_fresh : forall lines E elems a0 d0 (term : sterm N (list comment) E),
  c_lead d0 = [] -> Fi lines E elems (init_state a0 d0 elems term).
Proof. exact F_init. Qed.
Print Assumptions C12_init_fresh.

(* [node_doc_ok] spelled out, tag by tag *)
Theorem C12_nested_func_decl : forall lines whole (n : node N (list comment)),
  node_doc_ok lines whole n -> n_tag n = GFuncDecl ->
  exists c, n_docs n = [c] /\ doc_at lines whole (func_pos n) c.
Proof. exact node_doc_ok_func. Qed.
Print Assumptions C12_nested_func_decl.

Theorem C12_nested_field : forall lines whole (n : node N (list comment)),
  node_doc_ok lines whole n -> n_tag n = GField ->
  exists c c0, n_docs n = [c] /\ (c = c0 \/ exists x, c = c0 ++ [x]) /\
               doc_at lines whole (field_pos n) c0.
Proof. exact node_doc_ok_field. Qed.
Print Assumptions C12_nested_field.

Theorem C12_nested_decl : forall lines whole (n : node N (list comment)) k,
  node_doc_ok lines whole n -> n_tag n = decl_tag k ->
  match n_ps n with
  | [pos0] =>
      n_docs n = [[]] /\
      exists sp c, n_kids n = [sp] /\ n_tag sp = spec_tag_of k /\ n_docs sp = [c] /\
                   doc_at lines whole (Some pos0) c
  | pos0 :: _ =>
      exists c, n_docs n = [c] /\ doc_at lines whole (Some pos0) c /\
                Forall (spec_ok lines whole (spec_tag_of k)) (n_kids n)
  | [] => False
  end.
Proof. exact node_doc_ok_decl. Qed.
Print Assumptions C12_nested_decl.

(* no other node has documentation *)
Theorem C12_nested_plain : forall lines whole (n : node N (list comment)),
  node_doc_ok lines whole n ->
  match n_tag n with
  | GField | GFuncDecl | GDeclVar | GDeclConst | GDeclType
  | GVarSpec | GConstSpec | GTypeSpec | GFile => True
  | _ => n_docs n = []
  end.
Proof. exact node_doc_ok_plain. Qed.
Print Assumptions C12_nested_plain.

(* ------------------------------------------------------------ (3) all documentation values *)

Theorem C12_all_nodes : forall lines E depth a0 d0 elems (term : sterm N (list comment) E) f s',
  c_lead d0 = [] ->
  parse_file (policy_ops lines) (parsers_at (policy_ops lines) depth)
             (init_state a0 d0 elems term) = Ok f s' ->
  forall n, occurs n f -> forall c, In c (n_docs n) ->
  exists c0 po, (c = c0 \/ exists x, c = c0 ++ [x]) /\ doc_at lines elems po c0.
Proof. exact parse_file_all_docs. Qed.
Print Assumptions C12_all_nodes.


(* ------------------------------------------------------------ (4) the exact form *)

(* fresh / stale of the exact development *)
Notation xFi := DocExactBase.Fi.
Notation xWi := DocExactBase.Wi.
Notation xdoc_at := DocExactBase.doc_at.
Notation xsrc := DocExactBase.src.
Notation xnode_doc_ok := DocExact.node_doc_ok.

(* Parser::next from a stale state: fresh, with the exact previous end *)
Theorem C12_exact_next : forall lines E whole (s : pstate N (list comment) cstate E) y s',
  xWi E whole s -> next (policy_ops lines) s = Ok y s' -> xFi lines E whole s'.
Proof. exact DocExactBase.F_next. Qed.
Print Assumptions C12_exact_next.

(* goback: stale; the comment state and the start flag are those of the state
   that goes back, of which only Inv0 (started, no pending trailing comment) is
   needed -- a one-state invariant kept by every primitive *)
Theorem C12_exact_goback : forall lines E whole (s0 s : pstate N (list comment) cstate E) y s',
  xWi E whole s0 -> DocExactBase.Inv0 E s ->
  goback (policy_ops lines) (preback s0) s = Ok y s' -> xWi E whole s'.
Proof. exact DocExactBase.W_goback. Qed.
Print Assumptions C12_exact_goback.

Theorem C12_exact_inv0 : forall lines E, prim_closed (policy_ops lines) (DocExactBase.Inv0 E).
Proof. exact DocExactBase.Inv0_closed. Qed.
Print Assumptions C12_exact_inv0.

Theorem C12_exact_drain : forall lines E whole (s : pstate N (list comment) cstate E) c s1,
  xFi lines E whole s -> drain (policy_ops lines) s = (c, s1) ->
  xFi lines E whole s1 /\ s_cur s1 = s_cur s /\ cur_pos s1 = cur_pos s /\
  (s_cur s1 <> None -> xdoc_at lines whole (Some (cur_pos s1)) c).
Proof. exact DocExactBase.F_drain. Qed.
Print Assumptions C12_exact_drain.

Theorem C12_exact_every_production : forall lines E whole depth,
  DocExactExpr.GoodD lines E whole (parsers_at (policy_ops lines) depth).
Proof. exact DocExact.GoodD_parsers_at. Qed.
Print Assumptions C12_exact_every_production.

(* what [xdoc_at] says *)
Theorem C12_exact_doc_at : forall lines (whole : list (selem N (list comment))) po c,
  xdoc_at lines whole po c -> c <> [] ->
  exists pos a1 t g prev g',
    po = Some pos /\ In (SE pos a1 t g) whole /\
    c = lead_spec (line_c lines) (line_start_c lines) prev g' (Some pos) /\
    ((g' = g /\ exists pre p0 a0 t0 g0 rest,
         whole = pre ++ SE p0 a0 t0 g0 :: SE pos a1 t g :: rest /\ prev = Some a0) \/
     (g' = g /\ exists rest, whole = SE pos a1 t g :: rest /\ prev = None) \/
     (exists x, g = x :: g' /\ prev = Some (cend x))).
Proof. exact DocExact.doc_at_inv. Qed.
Print Assumptions C12_exact_doc_at.

(* every comment of a documentation is one of the token's own comments and
   does not trail what precedes the token *)
Theorem C12_exact_comments : forall lines (whole : list (selem N (list comment))) po c x,
  xdoc_at lines whole po c -> In x c ->
  exists pos a1 t g prev g',
    po = Some pos /\ xsrc whole pos a1 t g prev g' /\
    In x g' /\ ~ trailing (line_start_c lines) prev x.
Proof. exact DocExact.doc_at_comments. Qed.
Print Assumptions C12_exact_comments.

(* the three entry points, from the initial state (no assumption on the lead
   of d0: the first Parser::next starts afresh) *)
Theorem C12_exact_file : forall lines E depth a0 d0 elems (term : sterm N (list comment) E) f s',
  c_prev d0 = None ->
  parse_file (policy_ops lines) (parsers_at (policy_ops lines) depth)
             (init_state a0 d0 elems term) = Ok f s' ->
  forall n, occurs n f -> xnode_doc_ok lines elems n.
Proof. exact DocExact.parse_file_nested. Qed.
Print Assumptions C12_exact_file.

Theorem C12_exact_stmt : forall lines E depth a0 d0 elems (term : sterm N (list comment) E) e s',
  c_prev d0 = None ->
  entry_stmt (policy_ops lines) (parsers_at (policy_ops lines) depth)
             (init_state a0 d0 elems term) = Ok e s' ->
  forall n, occurs n e -> xnode_doc_ok lines elems n.
Proof. exact DocExact.entry_stmt_nested_init. Qed.
Print Assumptions C12_exact_stmt.

Theorem C12_exact_expression :
  forall lines E depth a0 d0 elems (term : sterm N (list comment) E) e s',
  c_prev d0 = None ->
  entry_expression (policy_ops lines) (parsers_at (policy_ops lines) depth)
                   (init_state a0 d0 elems term) = Ok e s' ->
  forall n, occurs n e -> xnode_doc_ok lines elems n.
Proof. exact DocExact.entry_expression_nested_init. Qed.
Print Assumptions C12_exact_expression.

Theorem C12_exact_func_decl : forall lines whole (n : node N (list comment)),
  xnode_doc_ok lines whole n -> n_tag n = GFuncDecl ->
  exists c, n_docs n = [c] /\ xdoc_at lines whole (func_pos n) c.
Proof. exact DocExact.node_doc_ok_func. Qed.
Print Assumptions C12_exact_func_decl.

Theorem C12_exact_field : forall lines whole (n : node N (list comment)),
  xnode_doc_ok lines whole n -> n_tag n = GField ->
  exists c c0, n_docs n = [c] /\ (c = c0 \/ exists x, c = c0 ++ [x]) /\
               xdoc_at lines whole (field_pos n) c0.
Proof. exact DocExact.node_doc_ok_field. Qed.
Print Assumptions C12_exact_field.

Theorem C12_exact_decl : forall lines whole (n : node N (list comment)) k,
  xnode_doc_ok lines whole n -> n_tag n = decl_tag k ->
  match n_ps n with
  | [pos0] =>
      n_docs n = [[]] /\
      exists sp c, n_kids n = [sp] /\ n_tag sp = spec_tag_of k /\ n_docs sp = [c] /\
                   xdoc_at lines whole (Some pos0) c
  | pos0 :: _ =>
      exists c, n_docs n = [c] /\ xdoc_at lines whole (Some pos0) c /\
                Forall (DocExactBase.spec_ok lines whole (spec_tag_of k)) (n_kids n)
  | [] => False
  end.
Proof. exact DocExact.node_doc_ok_decl. Qed.
Print Assumptions C12_exact_decl.

Theorem C12_exact_all_nodes :
  forall lines E depth a0 d0 elems (term : sterm N (list comment) E) f s',
  c_prev d0 = None ->
  parse_file (policy_ops lines) (parsers_at (policy_ops lines) depth)
             (init_state a0 d0 elems term) = Ok f s' ->
  forall n, occurs n f -> forall c, In c (n_docs n) ->
  exists c0 po, (c = c0 \/ exists x, c = c0 ++ [x]) /\ xdoc_at lines elems po c0.
Proof. exact DocExact.parse_file_all_docs. Qed.
Print Assumptions C12_exact_all_nodes.

(* ------------------------------------------------------------ examples *)

Local Open Scope string_scope.

(* declarations inside a function body, a group, nested struct types *)
Definition nested_sample : string :=
  "package p" ++ LF ++
  "func F() {" ++ LF ++
  TAB ++ "// doc of x" ++ LF ++
  TAB ++ "var x int // trailing x" ++ LF ++
  TAB ++ "// doc of group" ++ LF ++
  TAB ++ "const (" ++ LF ++
  TAB ++ TAB ++ "// doc of A" ++ LF ++
  TAB ++ TAB ++ "A = 1" ++ LF ++
  LF ++
  TAB ++ TAB ++ "// detached" ++ LF ++
  LF ++
  TAB ++ TAB ++ "B = 2" ++ LF ++
  TAB ++ ")" ++ LF ++
  TAB ++ "// doc of S" ++ LF ++
  TAB ++ "type S struct {" ++ LF ++
  TAB ++ TAB ++ "// doc of a" ++ LF ++
  TAB ++ TAB ++ "a int // trailing a" ++ LF ++
  TAB ++ TAB ++ "b struct {" ++ LF ++
  TAB ++ TAB ++ TAB ++ "// doc of c" ++ LF ++
  TAB ++ TAB ++ TAB ++ "c int" ++ LF ++
  TAB ++ TAB ++ "}" ++ LF ++
  TAB ++ "}" ++ LF ++
  "}" ++ LF.

Example C12_ex_nested :
  file_docs nested_sample =
  Some [(GFile, [[]]); (GFuncDecl, [[]]);
        (GDeclVar, [[]]);                                   (* single: docs on the spec *)
        (GVarSpec, [[(22, src_of "// doc of x")]]);
        (GDeclConst, [[(60, src_of "// doc of group")]]);
        (GConstSpec, [[(87, src_of "// doc of A")]]);
        (GConstSpec, [[]]);                                 (* not "// detached" *)
        (GDeclType, [[]]);
        (GTypeSpec, [[(135, src_of "// doc of S")]]);
        (GField, [[(166, src_of "// doc of a"); (186, src_of "// trailing a")]]);
        (GField, [[]]);
        (GField, [[(216, src_of "// doc of c")]])].
Proof. vm_compute. reflexivity. Qed.

(* both backtracking sites: type parameters (goback to '[') and the interface
   loop (a method element is tried first; E and the union go back).  The
   comment in front of P is not documentation of anything; interface elements
   and parameters never carry documentation; struct fields inside them do *)
Definition backtrack_sample : string :=
  "package p" ++ LF ++
  "// doc of T" ++ LF ++
  "type T[" ++ LF ++
  "// before P" ++ LF ++
  "P any] struct {" ++ LF ++
  TAB ++ "// doc of f" ++ LF ++
  TAB ++ "f P" ++ LF ++
  "}" ++ LF ++
  "// doc of I" ++ LF ++
  "type I interface {" ++ LF ++
  TAB ++ "// doc of m" ++ LF ++
  TAB ++ "m(x struct {" ++ LF ++
  TAB ++ TAB ++ "// doc of y" ++ LF ++
  TAB ++ TAB ++ "y int" ++ LF ++
  TAB ++ "})" ++ LF ++
  TAB ++ "// doc of E" ++ LF ++
  TAB ++ "E" ++ LF ++
  TAB ++ "// doc of union" ++ LF ++
  TAB ++ "~int | struct {" ++ LF ++
  TAB ++ TAB ++ "// doc of z" ++ LF ++
  TAB ++ TAB ++ "z int" ++ LF ++
  TAB ++ "}" ++ LF ++
  "}" ++ LF.

Example C12_ex_backtrack :
  file_docs backtrack_sample =
  Some [(GFile, [[]]);
        (GDeclType, [[]]); (GTypeSpec, [[(10, src_of "// doc of T")]]);
        (GField, [[]]);                                     (* the type parameter P *)
        (GField, [[(59, src_of "// doc of f")]]);
        (GDeclType, [[]]); (GTypeSpec, [[(78, src_of "// doc of I")]]);
        (GField, [[]]);                                     (* m: no documentation *)
        (GField, [[]]);                                     (* its parameter x *)
        (GField, [[(138, src_of "// doc of y")]]);
        (GField, [[]]);                                     (* E *)
        (GField, [[]]);                                     (* the union *)
        (GField, [[(214, src_of "// doc of z")]])].
Proof. vm_compute. reflexivity. Qed.

(* inside a function body and a function literal: a trailing comment on the
   previous statement's line is not documentation of the next declaration; a
   struct field takes the first comment after it on its line, a second one is
   nobody's; and a corner of the single declaration: the comment between the
   keyword and the name is what parse_spec drains, but with_docs replaces it by
   the keyword's documentation *)
Definition body_sample : string :=
  "package p" ++ LF ++
  LF ++
  "func f() {" ++ LF ++
  TAB ++ "x := 1 // trailing x" ++ LF ++
  TAB ++ "// doc of y" ++ LF ++
  TAB ++ "var y int // trailing y" ++ LF ++
  TAB ++ "type S struct {" ++ LF ++
  TAB ++ TAB ++ "a int /* ta */ // tb" ++ LF ++
  TAB ++ TAB ++ "// doc of b" ++ LF ++
  TAB ++ TAB ++ "b int" ++ LF ++
  TAB ++ "}" ++ LF ++
  TAB ++ "g := func() {" ++ LF ++
  TAB ++ TAB ++ "// doc of z" ++ LF ++
  TAB ++ TAB ++ "const z = 1" ++ LF ++
  TAB ++ "}" ++ LF ++
  TAB ++ "var" ++ LF ++
  TAB ++ "// between" ++ LF ++
  TAB ++ "w int" ++ LF ++
  "}" ++ LF.

Example C12_ex_body :
  file_docs body_sample =
  Some [(GFile, [[]]); (GFuncDecl, [[]]);
        (GDeclVar, [[]]); (GVarSpec, [[(45, src_of "// doc of y")]]);   (* not "// trailing x" *)
        (GDeclType, [[]]); (GTypeSpec, [[]]);                           (* not "// trailing y" *)
        (GField, [[(107, src_of "/* ta */")]]);                         (* not "// tb" *)
        (GField, [[(124, src_of "// doc of b")]]);
        (GDeclConst, [[]]); (GConstSpec, [[(164, src_of "// doc of z")]]);
        (GDeclVar, [[]]); (GVarSpec, [[]])].                            (* "// between" is lost *)
Proof. vm_compute. reflexivity. Qed.
