(* C05 — every position in the tree is the char offset of the token it names.
   Property theorems only.  PARTIAL: proved are (1) the scanner half: every
   token of the stream the parser works from sits at the char offset where its
   text is in the source (C07's tiling theorem), and (2) the parser half in the
   form "every position stored in a returned tree (and in a returned error) is
   the start or end offset of an element of that token stream, or the end of
   input" — by parametricity the core cannot invent a position.  WHICH token a
   given field names (operator of an operation, dot of a selector, both
   brackets, ...) is decided by the correspondence + oracle of the check, not
   yet by a theorem. *)
From Coq Require Import List NArith.
From GoSyn Require Import Token Tok Scanner Ast Core Policy Entry Param.
From GoSyn.proofs Require Import FreeTheorems LexProofs.
From GoSyn.spec Require Import Lex.
Import ListNotations.
Open Scope N_scope.

(* from_stream S p: p = q + 2n for a position q of S (2n: `pos + 2` of go/defer call
   positions); state_positions s: the scanner position, the current token's start, and the
   start and end offsets of every element of the stream, the end of input *)
Theorem C05_positions_from_stream_partial :
  forall G D C E (O : ops N G D C), (forall a, a_plus2 _ _ _ _ O a = a + 2) ->
  forall d (s : pstate N G D E) n t,
  parse_file N G D C E O (parsers_at N G D C E O d) s = Ok n t ->
  Forall (from_stream (state_positions s)) (positions n).
Proof. intros G D C E O H d s n t Hr. exact (positions_from_stream_file O H d s n t Hr). Qed.
Print Assumptions C05_positions_from_stream_partial.

Theorem C05_positions_from_stream_expr_partial :
  forall G D C E (O : ops N G D C), (forall a, a_plus2 _ _ _ _ O a = a + 2) ->
  forall d (s : pstate N G D E) n t,
  entry_expression N G D C E O (parsers_at N G D C E O d) s = Ok n t ->
  Forall (from_stream (state_positions s)) (positions n).
Proof. intros G D C E O H d s n t Hr. exact (positions_from_stream_expression O H d s n t Hr). Qed.
Print Assumptions C05_positions_from_stream_expr_partial.

Theorem C05_positions_from_stream_stmt_partial :
  forall G D C E (O : ops N G D C), (forall a, a_plus2 _ _ _ _ O a = a + 2) ->
  forall d (s : pstate N G D E) n t,
  entry_stmt N G D C E O (parsers_at N G D C E O d) s = Ok n t ->
  Forall (from_stream (state_positions s)) (positions n).
Proof. intros G D C E O H d s n t Hr. exact (positions_from_stream_stmt O H d s n t Hr). Qed.
Print Assumptions C05_positions_from_stream_stmt_partial.

(* scanner half: token offsets are char offsets at which the token text stands *)
Theorem C05_token_pos : forall U src toks e,
  scan_all_ext U src = (toks, e) -> tiling (is_whitespace U) src 0 toks.
Proof. intros U src toks e H. exact (proj1 (proj2 (scan_all_ext_tiles U src toks e H))). Qed.
Print Assumptions C05_token_pos.
