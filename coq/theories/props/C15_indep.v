(* C15, third file -- no state left by earlier code alters how later code is read:
   TWO RUNS of the parser compared (relational lifting, proofs/RelLift.v; all
   productions covered, no hypothesis left).  Property theorems only; proofs in
   proofs/RelLift.v and proofs/LevelIndep.v.

   [res_rel P Pe r1 r2]  the two outcomes are of the same kind: Ok with the SAME
                         value and P-related states, Err with the same error and
                         Pe-related states, the same Panic code, or both Fuel
   [same_level s1 s2]    the states agree on every field except s_lp / s_ln, and
                         s_lp - s_ln (= expr_level + 1) is the same
   [same_but_mark s1 s2] the states agree on every field except s_mark
   [same_code s1 s2]     both: agree except s_lp / s_ln / s_mark, same expr_level
   [fresh_at s m]        the state positioned like s (s_cur, s_rest, s_term, s_spos,
                         s_d, s_started) with the level pair (1, 0) of init_state,
                         s_depth 0 and the mark m
   [at_top s]            expr_level = 0, s_depth = 0 and cur_mark s: what holds of
                         the states between the top-level declarations of a file
   [fresh_decls P s l s'] l = the declarations read one after the other by
                         parse_top_decl, EACH from [fresh_at] the position where the
                         previous fresh run stopped, until the end of input
   [file_prefix s]       parse_file up to the first declaration (package clause,
                         imports) *)
From Coq Require Import List Arith NArith ZArith.
From GoSyn Require Import Token Tok Ast Core.
From GoSyn.proofs Require Import Lift StreamProofs LevelProofs DepthProofs RelLift LevelIndep.
Import ListNotations.

(* ------------------------------------------------------------ the relational lifting *)

(* any simulation kept by the primitives is kept by all nine mutually recursive
   productions at every depth *)
Theorem C15_relational_lifting :
  forall (A G D C E : Type) (OPS : ops A G D C) (R : bool -> pstate A G D E -> pstate A G D E -> Prop),
  sim_closed OPS R -> forall d, RGood R (parsers_at OPS d).
Proof. exact RGood_parsers_at. Qed.
Print Assumptions C15_relational_lifting.

(* ------------------------------------------------------------ Goal 1: the level pair *)

(* the result of every production depends on expr_level = s_lp - s_ln - 1 only,
   not on the two counters that represent it *)
Theorem C15_level_repr_fields :
  forall (A G D C E : Type) (OPS : ops A G D C) d,
  let P := parsers_at (E:=E) OPS d in
  level_indep (k_type P) /\ level_indep (k_type_or_none P) /\ level_indep (k_expr P) /\
  level_indep (k_unary P) /\ (forall p prec, level_indep (k_binary P p prec)) /\
  level_indep (k_litvalue P) /\ level_indep (k_block P) /\ level_indep (k_stmt P) /\
  level_indep (k_if P).
Proof. exact level_indep_fields. Qed.
Print Assumptions C15_level_repr_fields.

Theorem C15_level_repr_top_decl :
  forall (A G D C E : Type) (OPS : ops A G D C) d (s1 s2 : pstate A G D E),
  same_level s1 s2 ->
  res_rel same_level same_level (parse_top_decl OPS (parsers_at OPS d) s1)
                                (parse_top_decl OPS (parsers_at OPS d) s2).
Proof. exact level_indep_top_decl. Qed.
Print Assumptions C15_level_repr_top_decl.

Theorem C15_level_repr_decls_loop :
  forall (A G D C E : Type) (OPS : ops A G D C) d fuel acc (s1 s2 : pstate A G D E),
  same_level s1 s2 ->
  res_rel same_level same_level (decls_loop OPS (parsers_at OPS d) fuel acc s1)
                                (decls_loop OPS (parsers_at OPS d) fuel acc s2).
Proof. exact level_indep_decls_loop. Qed.
Print Assumptions C15_level_repr_decls_loop.

Theorem C15_level_repr_parse_file :
  forall (A G D C E : Type) (OPS : ops A G D C) d (s1 s2 : pstate A G D E),
  same_level s1 s2 ->
  res_rel same_level same_level (parse_file OPS (parsers_at OPS d) s1)
                                (parse_file OPS (parsers_at OPS d) s2).
Proof. exact level_indep_parse_file. Qed.
Print Assumptions C15_level_repr_parse_file.

Theorem C15_level_repr_entry_expression :
  forall (A G D C E : Type) (OPS : ops A G D C) d (s1 s2 : pstate A G D E),
  same_level s1 s2 ->
  res_rel same_level same_level (entry_expression OPS (parsers_at OPS d) s1)
                                (entry_expression OPS (parsers_at OPS d) s2).
Proof. exact level_indep_entry_expression. Qed.
Print Assumptions C15_level_repr_entry_expression.

Theorem C15_level_repr_entry_stmt :
  forall (A G D C E : Type) (OPS : ops A G D C) d (s1 s2 : pstate A G D E),
  same_level s1 s2 ->
  res_rel same_level same_level (entry_stmt OPS (parsers_at OPS d) s1)
                                (entry_stmt OPS (parsers_at OPS d) s2).
Proof. exact level_indep_entry_stmt. Qed.
Print Assumptions C15_level_repr_entry_stmt.

(* spelled out for a statement: the same state with two level pairs of equal difference *)
Theorem C15_level_repr_stmt_pairs :
  forall (A G D C E : Type) (OPS : ops A G D C) d (s : pstate A G D E) lp ln lp' ln' x t,
  (Z.of_nat lp - Z.of_nat ln = Z.of_nat lp' - Z.of_nat ln')%Z ->
  entry_stmt OPS (parsers_at OPS d) (upd_level s lp ln) = Ok x t ->
  exists t', entry_stmt OPS (parsers_at OPS d) (upd_level s lp' ln') = Ok x t' /\ same_level t t'.
Proof. exact entry_stmt_level_pair. Qed.
Print Assumptions C15_level_repr_stmt_pairs.

(* ------------------------------------------------------------ Goal 2: the backtracking mark *)

(* no production reads a mark it has not written itself *)
Theorem C15_mark_fields :
  forall (A G D C E : Type) (OPS : ops A G D C) d,
  let P := parsers_at (E:=E) OPS d in
  mark_indep (k_type P) /\ mark_indep (k_type_or_none P) /\ mark_indep (k_expr P) /\
  mark_indep (k_unary P) /\ (forall p prec, mark_indep (k_binary P p prec)) /\
  mark_indep (k_litvalue P) /\ mark_indep (k_block P) /\ mark_indep (k_stmt P) /\
  mark_indep (k_if P).
Proof. exact mark_indep_fields. Qed.
Print Assumptions C15_mark_fields.

Theorem C15_mark_top_decl :
  forall (A G D C E : Type) (OPS : ops A G D C) d (s1 s2 : pstate A G D E),
  same_but_mark s1 s2 ->
  res_rel same_but_mark same_but_mark (parse_top_decl OPS (parsers_at OPS d) s1)
                                      (parse_top_decl OPS (parsers_at OPS d) s2).
Proof. exact mark_indep_top_decl. Qed.
Print Assumptions C15_mark_top_decl.

Theorem C15_mark_parse_file :
  forall (A G D C E : Type) (OPS : ops A G D C) d (s1 s2 : pstate A G D E),
  same_but_mark s1 s2 ->
  res_rel same_but_mark same_but_mark (parse_file OPS (parsers_at OPS d) s1)
                                      (parse_file OPS (parsers_at OPS d) s2).
Proof. exact mark_indep_parse_file. Qed.
Print Assumptions C15_mark_parse_file.

Theorem C15_mark_entry_expression :
  forall (A G D C E : Type) (OPS : ops A G D C) d (s1 s2 : pstate A G D E),
  same_but_mark s1 s2 ->
  res_rel same_but_mark same_but_mark (entry_expression OPS (parsers_at OPS d) s1)
                                      (entry_expression OPS (parsers_at OPS d) s2).
Proof. exact mark_indep_entry_expression. Qed.
Print Assumptions C15_mark_entry_expression.

Theorem C15_mark_entry_stmt :
  forall (A G D C E : Type) (OPS : ops A G D C) d (s1 s2 : pstate A G D E),
  same_but_mark s1 s2 ->
  res_rel same_but_mark same_but_mark (entry_stmt OPS (parsers_at OPS d) s1)
                                      (entry_stmt OPS (parsers_at OPS d) s2).
Proof. exact mark_indep_entry_stmt. Qed.
Print Assumptions C15_mark_entry_stmt.

(* ------------------------------------------------------------ Goal 3: a declaration after a prefix *)

(* any state at expr_level 0 and depth 0, whatever its level pair and mark *)
Theorem C15_decl_after_prefix :
  forall (A G D C E : Type) (OPS : ops A G D C) d (s : pstate A G D E) m x t,
  s_lp s = S (s_ln s) -> s_depth s = 0 ->
  parse_top_decl OPS (parsers_at OPS d) s = Ok x t ->
  exists t0, parse_top_decl OPS (parsers_at OPS d) (fresh_at s m) = Ok x t0 /\ same_code t t0.
Proof. exact decl_after_prefix_ok. Qed.
Print Assumptions C15_decl_after_prefix.

Theorem C15_decl_after_prefix_err :
  forall (A G D C E : Type) (OPS : ops A G D C) d (s : pstate A G D E) m e t,
  s_lp s = S (s_ln s) -> s_depth s = 0 ->
  parse_top_decl OPS (parsers_at OPS d) s = Err e t ->
  exists t0, parse_top_decl OPS (parsers_at OPS d) (fresh_at s m) = Err e t0 /\ same_code t t0.
Proof. exact decl_after_prefix_err. Qed.
Print Assumptions C15_decl_after_prefix_err.

Theorem C15_decl_after_prefix_conv :
  forall (A G D C E : Type) (OPS : ops A G D C) d (s : pstate A G D E) m x t0,
  s_lp s = S (s_ln s) -> s_depth s = 0 ->
  parse_top_decl OPS (parsers_at OPS d) (fresh_at s m) = Ok x t0 ->
  exists t, parse_top_decl OPS (parsers_at OPS d) s = Ok x t /\ same_code t t0.
Proof. exact decl_after_prefix_ok_conv. Qed.
Print Assumptions C15_decl_after_prefix_conv.

(* the hypotheses hold of every state between two declarations of a file *)
Theorem C15_at_top_init :
  forall (A G D E : Type) a0 d0 elems (term : sterm A G E),
  at_top (init_state (D:=D) a0 d0 elems term).
Proof. exact at_top_init. Qed.
Print Assumptions C15_at_top_init.

Theorem C15_at_top_file_prefix :
  forall (A G D C E : Type) (OPS : ops A G D C) (s : pstate A G D E) dpi s4,
  at_top s -> file_prefix OPS s = Ok dpi s4 -> at_top s4.
Proof. exact at_top_file_prefix. Qed.
Print Assumptions C15_at_top_file_prefix.

Theorem C15_at_top_decl :
  forall (A G D C E : Type) (OPS : ops A G D C) d (s : pstate A G D E) x s',
  at_top s -> parse_top_decl OPS (parsers_at OPS d) s = Ok x s' -> at_top s'.
Proof. exact at_top_decl. Qed.
Print Assumptions C15_at_top_decl.

(* after any number of successful declarations *)
Theorem C15_decl_after_decls :
  forall (A G D C E : Type) (OPS : ops A G D C) d (s t : pstate A G D E) m,
  at_top s -> reached OPS (parsers_at OPS d) s t ->
  res_rel same_code same_code
          (parse_top_decl OPS (parsers_at OPS d) t)
          (parse_top_decl OPS (parsers_at OPS d) (fresh_at t m)).
Proof. exact decl_after_decls. Qed.
Print Assumptions C15_decl_after_decls.

(* the declaration loop returns the declarations as read from fresh states *)
Theorem C15_decls_loop_fresh :
  forall (A G D C E : Type) (OPS : ops A G D C) d fuel acc (s s0 : pstate A G D E) xs s',
  at_top s -> same_code s s0 ->
  decls_loop OPS (parsers_at OPS d) fuel acc s = Ok xs s' ->
  exists ds s0', xs = acc ++ ds /\ fresh_decls OPS (parsers_at OPS d) s0 ds s0' /\ same_code s' s0'.
Proof. exact decls_loop_fresh. Qed.
Print Assumptions C15_decls_loop_fresh.

(* the whole file *)
Theorem C15_file_decls_fresh :
  forall (A G D C E : Type) (OPS : ops A G D C) d (s : pstate A G D E) x s',
  at_top s -> parse_file OPS (parsers_at OPS d) s = Ok x s' ->
  exists docs pkg imports s4 ds s0',
    file_prefix OPS s = Ok (docs, pkg, imports) s4 /\
    x = mkd A C GFile [] [] docs [pkg; nlist imports; nlist ds] /\
    fresh_decls OPS (parsers_at OPS d) s4 ds s0' /\ same_code s' s0'.
Proof. exact parse_file_decls_fresh. Qed.
Print Assumptions C15_file_decls_fresh.

(* ------------------------------------------------------------ non-vacuity / sharpness *)

Module C15Witness.
Import LevelWitness.

Definition value {X} (r : res nat unit unit unit X) : option X + nat :=
  match r with Ok x _ => inl (Some x) | Err _ _ => inl None | Panic n => inr n | Fuel => inr 0 end.

(* x = T { } ; *)
Definition toks : list token :=
  [id_ 120; TOperator OAssign; id_ 84; TOperator OBraceLeft; TOperator OBraceRight;
   TOperator OSemiColon].

(* the level IS looked at: at expr_level -1 (pair (0,0)) the statement ends in front
   of `{`, at expr_level 0 `T { }` is a composite literal -- so restoring the
   level (C15_state) is what makes later code independent of earlier code ... *)
Example level_matters :
  value (entry_stmt tops (parsers_at tops 12) (upd_level (start toks) 1 0)) <>
  value (entry_stmt tops (parsers_at tops 12) (upd_level (start toks) 0 0)).
Proof. vm_compute. discriminate. Qed.

(* ... but only through the difference *)
Example level_pair_irrelevant :
  same_level (upd_level (start toks) 1 0) (upd_level (start toks) 9 8) /\
  value (entry_stmt tops (parsers_at tops 12) (upd_level (start toks) 1 0)) =
  value (entry_stmt tops (parsers_at tops 12) (upd_level (start toks) 9 8)).
Proof. split; [ apply same_level_upd; reflexivity | vm_compute; reflexivity ]. Qed.

(* The mark IS read inside parse_interface_type's loop (this is why the
   relational lifting states interface_loop at ghost [true], i.e. after the `{`
   was consumed by the same production): entered directly with a stale mark, the
   loop's result differs. *)
Definition stale := StreamWitness.stale.
Definition not_stale : pstate nat unit unit unit :=
  {| s_cur := s_cur stale; s_rest := s_rest stale;
     s_mark := SE 0 1 (id_ 65) tt :: s_rest stale;
     s_term := s_term stale; s_spos := s_spos stale; s_lp := s_lp stale; s_ln := s_ln stale;
     s_d := s_d stale; s_started := s_started stale; s_depth := s_depth stale |}.
Example mark_read_by_interface_loop :
  same_but_mark stale not_stale /\ cur_mark not_stale /\
  value (interface_loop tops (parsers_at tops 6) 10 [] stale) <>
  value (interface_loop tops (parsers_at tops 6) 10 [] not_stale).
Proof.
  split; [ repeat split | split; [ eexists _, _; reflexivity | vm_compute; discriminate ] ].
Qed.

End C15Witness.
