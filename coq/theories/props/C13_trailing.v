(* C13 for call argument lists: the optional trailing comma does not change the tree
   (proofs/TrailingComma.v). *)
From Coq Require Import List.
From GoSyn Require Import Token Tok Ast Core.
From GoSyn.spec Require Import Prec Print Print2 Print3.
From GoSyn.proofs Require Import RoundTripBase2 TrailingComma.
Import ListNotations.

Theorem C13_call_trailing_comma : forall (A G D C E : Type) (OPS : ops A G D C) hdr f args,
  wf2 hdr (E2Call f args false) -> args <> [] ->
  PQP2_toks A G D C E OPS hdr (E2Call f args false)
    (print2 f ++ tk OParenLeft :: commas (map print2 args) ++ [tk OComma; tk OParenRight]).
Proof. exact call_trailing_comma_wf. Qed.
Print Assumptions C13_call_trailing_comma.

Theorem C13_call_ddd_trailing_comma : forall (A G D C E : Type) (OPS : ops A G D C) hdr f args,
  wf2 hdr (E2Call f args true) ->
  PQP2_toks A G D C E OPS hdr (E2Call f args true)
    (print2 f ++ tk OParenLeft :: commas (map print2 args) ++
       [tk ODotDotDot; tk OComma; tk OParenRight]).
Proof. exact call_ddd_trailing_comma_wf. Qed.
Print Assumptions C13_call_ddd_trailing_comma.

Theorem C13_composite_trailing_comma : forall (A G D C E : Type) (OPS : ops A G D C) hdr ty elems,
  wf2 hdr (E2Composite ty elems) -> elems <> [] ->
  PQP2_toks A G D C E OPS hdr (E2Composite ty elems)
    (print2 ty ++ tk OBraceLeft :: commas (map print_elem elems) ++ [tk OComma; tk OBraceRight]).
Proof. exact composite_trailing_comma_wf. Qed.
Print Assumptions C13_composite_trailing_comma.

(* Parser::expression from the initial state: the spelling with the trailing comma reads
   to [shape2] of the SAME derivation as the printed spelling (C02: expr2_roundtrip) *)
Theorem C13_call_trailing_comma_roundtrip :
  forall (A G D C E : Type) (OPS : ops A G D C) f args,
  wf2 false (E2Call f args false) -> args <> [] ->
  depth2 (E2Call f args false) <= DEPTH_BOUND2 ->
  forall d a0 d0 (elems : list (selem A G)) ae ge,
    map tok_of elems =
      print2 f ++ tk OParenLeft :: commas (map print2 args) ++ [tk OComma; tk OParenRight] ->
    need2 (E2Call f args false) + 2 <= d ->
    exists n s',
      entry_expression A G D C E OPS (parsers_at A G D C E OPS d)
        (init_state A G D E a0 d0 elems (TEof ae ge)) = Ok n s' /\
      erase n = shape2 (E2Call f args false) /\ s_cur A G D E s' = None /\ s_rest A G D E s' = [].
Proof. exact call_trailing_comma_roundtrip. Qed.
Print Assumptions C13_call_trailing_comma_roundtrip.

Theorem C13_call_ddd_trailing_comma_roundtrip :
  forall (A G D C E : Type) (OPS : ops A G D C) f args,
  wf2 false (E2Call f args true) ->
  depth2 (E2Call f args true) <= DEPTH_BOUND2 ->
  forall d a0 d0 (elems : list (selem A G)) ae ge,
    map tok_of elems =
      print2 f ++ tk OParenLeft :: commas (map print2 args) ++
        [tk ODotDotDot; tk OComma; tk OParenRight] ->
    need2 (E2Call f args true) + 2 <= d ->
    exists n s',
      entry_expression A G D C E OPS (parsers_at A G D C E OPS d)
        (init_state A G D E a0 d0 elems (TEof ae ge)) = Ok n s' /\
      erase n = shape2 (E2Call f args true) /\ s_cur A G D E s' = None /\ s_rest A G D E s' = [].
Proof. exact call_ddd_trailing_comma_roundtrip. Qed.
Print Assumptions C13_call_ddd_trailing_comma_roundtrip.

Theorem C13_composite_trailing_comma_roundtrip :
  forall (A G D C E : Type) (OPS : ops A G D C) ty elems,
  wf2 false (E2Composite ty elems) -> elems <> [] ->
  depth2 (E2Composite ty elems) <= DEPTH_BOUND2 ->
  forall d a0 d0 (els : list (selem A G)) ae ge,
    map tok_of els =
      print2 ty ++ tk OBraceLeft :: commas (map print_elem elems) ++ [tk OComma; tk OBraceRight] ->
    need2 (E2Composite ty elems) + 2 <= d ->
    exists n s',
      entry_expression A G D C E OPS (parsers_at A G D C E OPS d)
        (init_state A G D E a0 d0 els (TEof ae ge)) = Ok n s' /\
      erase n = shape2 (E2Composite ty elems) /\ s_cur A G D E s' = None /\ s_rest A G D E s' = [].
Proof. exact composite_trailing_comma_roundtrip. Qed.
Print Assumptions C13_composite_trailing_comma_roundtrip.
