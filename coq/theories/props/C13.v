(* C13 — layout never changes the tree.  Property theorems only; proofs in
   Param.v (parametricity of the polymorphic parser core, Paramcoq) and
   proofs/FreeTheorems.v. *)
From Coq Require Import List NArith.
From GoSyn Require Import Token Tok Scanner Ast Core Policy Entry Param.
From GoSyn.proofs Require Import FreeTheorems.
Import ListNotations.

(* [outcome_of r]: the result with positions, comments, documentation and the
   parser state erased: the tree's shape (tags, attributes, children), or which
   error (variant and offending token), or Panic/Fuel.
   [same_stream p1 p2]: the two prepared sources have the same sequence of
   non-comment tokens after semicolon insertion and end the same way (end of
   input / scanner error). *)

(* for every entry point (file, expression, statement, n statements): *)
Theorem C13_layout : forall (e : entry) (p1 p2 : prepared),
  same_stream p1 p2 -> outcome_of (run_entry e p1) = outcome_of (run_entry e p2).
Proof. exact layout_run_entry. Qed.
Print Assumptions C13_layout.

(* the compared stream is the scanner's token stream without comments *)
Theorem C13_stream_is_tokens : forall U src p,
  prepare U src = Some p ->
  map elem_tok (pr_elems p) =
  filter (fun t => negb (is_comment t)) (map (fun x => snd (fst x)) (fst (scan_all_ext U src))).
Proof. exact prepare_tokens. Qed.
Print Assumptions C13_stream_is_tokens.

(* the general form: ANY two instances of the polymorphic core (any position type, any
   comment policy, any line table) agree on streams with the same tokens *)
Theorem C13_core_layout_free :
  forall A1 G1 D1 C1 E1 A2 G2 D2 C2 E2 (O1 : ops A1 G1 D1 C1) (O2 : ops A2 G2 D2 C2) d
         (s1 : pstate A1 G1 D1 E1) (s2 : pstate A2 G2 D2 E2),
  same_tokens s1 s2 ->
  outcome_of (parse_file A1 G1 D1 C1 E1 O1 (parsers_at A1 G1 D1 C1 E1 O1 d) s1) =
  outcome_of (parse_file A2 G2 D2 C2 E2 O2 (parsers_at A2 G2 D2 C2 E2 O2 d) s2).
Proof. intros; apply layout_free_file; assumption. Qed.
Print Assumptions C13_core_layout_free.

(* non-vacuity: "a\n" and "a ; // c" have the same stream and are not the same text *)
Example C13_example :
  exists p1 p2,
    prepare ascii_uclass [112; 97; 99; 107; 97; 103; 101; 32; 97; 10]%N = Some p1 /\
    prepare ascii_uclass [112; 97; 99; 107; 97; 103; 101; 32; 47; 42; 42; 47; 97; 59; 47; 47; 99]%N = Some p2 /\
    same_stream p1 p2.
Proof. eexists. eexists. split; [vm_compute; reflexivity|]. split; [vm_compute; reflexivity|]. split; vm_compute; reflexivity. Qed.
