(* C01 (model part) -- for every input the call returns a tree or an error
   value: it never unwinds (no Panic outcome) and it terminates (the model's
   fuel suffices).  Property theorems only; proofs in proofs/Total*.v.

   [wf s]: the reachability invariant of parser states -- nothing is asked of a
   parser that has not been started; once started, the backtracking mark is the
   stream from the current token on, and there is no current token only at a
   proper end of input (TEof).  It holds of [init_state] and again after every
   successful call of an entry point.

   All 14 [Panic] sites of Core.v (goback's re-scan unwrap, FieldList::pos in
   check_field_list, the two pop_last, the two slice/index shapes, the two
   Expression::pos, the two Assign positions of is_type_switch, the two range
   clause shapes, extract, the package name position) are unreachable. *)
From Coq Require Import List Bool Arith NArith.
From GoSyn Require Import Token Tok Ast Core Entry.
From GoSyn.proofs Require Import Lift LevelProofs TotalBase TotalLeaf TotalStepD TotalMeas TotalProofs
  TotalEntry.
Import ListNotations.
Close Scope N_scope.
Open Scope nat_scope.

(* ------------------------------------------------------------ (1) no panic *)

Theorem C01_wf_init : forall (A G D E : Type) (a0 : A) (d0 : D) (elems : list (selem A G))
    (term : sterm A G E), wf (init_state a0 d0 elems term).
Proof. exact wf_init. Qed.
Print Assumptions C01_wf_init.

Theorem C01_no_panic : forall (A G D C E : Type) (OPS : ops A G D C) (d : nat)
    (s : pstate A G D E) (n : nat), wf s ->
  parse_file OPS (parsers_at OPS d) s <> Panic n /\
  entry_expression OPS (parsers_at OPS d) s <> Panic n /\
  entry_stmt OPS (parsers_at OPS d) s <> Panic n.
Proof. exact no_panic_entries. Qed.
Print Assumptions C01_no_panic.

(* the invariant holds again after a successful call ... *)
Theorem C01_wf_after : forall (A G D C E : Type) (OPS : ops A G D C) (d : nat)
    (s : pstate A G D E) (x : node A C) (s' : pstate A G D E), wf s ->
  (parse_file OPS (parsers_at OPS d) s = Ok x s' -> wf s') /\
  (entry_expression OPS (parsers_at OPS d) s = Ok x s' -> wf s') /\
  (entry_stmt OPS (parsers_at OPS d) s = Ok x s' -> wf s').
Proof. exact wf_after_entries. Qed.
Print Assumptions C01_wf_after.

(* ... so any number of successive Parser::parse_stmt calls never panics *)
Theorem C01_no_panic_stmts : forall (A G D C E : Type) (OPS : ops A G D C) (d k : nat)
    (acc : list (node A C)) (s : pstate A G D E) (n : nat), wf s ->
  stmts_run OPS (parsers_at OPS d) k acc s <> Panic n.
Proof. exact no_panic_stmts_run. Qed.
Print Assumptions C01_no_panic_stmts.

(* the public entry points of the model, on every prepared source, at the
   model's own depth fuel *)
Theorem C01_run_entry_no_panic : forall (e : entry) (p : prepared) (n : nat),
  run_entry e p <> Panic n.
Proof. exact run_entry_no_panic. Qed.
Print Assumptions C01_run_entry_no_panic.

(* ------------------------------------------------------------ (2) loop fuel *)

(* [Total self]: every field of the table meets its specification (TotalLeaf.GoodT:
   no panic, well-formed state afterwards, progress, the value facts) and
   never returns Fuel.  One unfolding of the recursion keeps that: the token
   fuel of the 22 loops never runs out -- every iteration consumes a token. *)
Theorem C01_loop_fuel : forall (A G D C E : Type) (OPS : ops A G D C)
    (self : parsers A G D C E), Total self -> Total (step OPS self).
Proof. exact loop_fuel_step. Qed.
Print Assumptions C01_loop_fuel.

Theorem C01_loop_fuel_fields : forall (A G D C E : Type) (OPS : ops A G D C)
    (self : parsers A G D C E) (s : pstate A G D E), Total self -> WF s ->
  k_type (step OPS self) s <> Fuel /\ k_type_or_none (step OPS self) s <> Fuel /\
  k_expr (step OPS self) s <> Fuel /\ k_unary (step OPS self) s <> Fuel /\
  (forall prec, k_binary (step OPS self) None prec s <> Fuel) /\
  k_litvalue (step OPS self) s <> Fuel /\ k_block (step OPS self) s <> Fuel /\
  k_stmt (step OPS self) s <> Fuel /\ k_if (step OPS self) s <> Fuel.
Proof. exact loop_fuel_fields. Qed.
Print Assumptions C01_loop_fuel_fields.

Theorem C01_loop_fuel_entries : forall (A G D C E : Type) (OPS : ops A G D C)
    (self : parsers A G D C E) (s : pstate A G D E), Total self -> wf s ->
  parse_file OPS self s <> Fuel /\ entry_expression OPS self s <> Fuel /\
  entry_stmt OPS self s <> Fuel.
Proof. exact loop_fuel_entries. Qed.
Print Assumptions C01_loop_fuel_entries.

(* ------------------------------------------------------------ (3) depth fuel *)

Theorem C01_depth_fuel_bound : DEPTH_FUEL_BOUND = 8 * (MAX_NESTING + 1) /\ DEPTH_FUEL_BOUND = 1544.
Proof. exact depth_fuel_bound_value. Qed.
Print Assumptions C01_depth_fuel_bound.

Theorem C01_depth_fuel : forall (A G D C E : Type) (OPS : ops A G D C) (d : nat)
    (s : pstate A G D E), DEPTH_FUEL_BOUND <= d -> wf s ->
  parse_file OPS (parsers_at OPS d) s <> Fuel /\
  entry_expression OPS (parsers_at OPS d) s <> Fuel /\
  entry_stmt OPS (parsers_at OPS d) s <> Fuel.
Proof. exact no_fuel_entries. Qed.
Print Assumptions C01_depth_fuel.

Theorem C01_depth_fuel_stmts : forall (A G D C E : Type) (OPS : ops A G D C) (d k : nat),
  DEPTH_FUEL_BOUND <= d -> forall (acc : list (node A C)) (s : pstate A G D E), wf s ->
  stmts_run OPS (parsers_at OPS d) k acc s <> Fuel.
Proof. exact no_fuel_stmts_run. Qed.
Print Assumptions C01_depth_fuel_stmts.

(* the outcome is a tree or an error value *)
Theorem C01_total : forall (A G D C E : Type) (OPS : ops A G D C) (d : nat)
    (s : pstate A G D E), DEPTH_FUEL_BOUND <= d -> wf s ->
  (exists x s', parse_file OPS (parsers_at OPS d) s = Ok x s') \/
  (exists e s', parse_file OPS (parsers_at OPS d) s = Err e s').
Proof. exact total_parse_file. Qed.
Print Assumptions C01_total.

(* the same in terms of the input: depth fuel 6 * (tokens left + 1) is enough,
   whatever MAX_NESTING is -- between two consumed tokens the recursion enters at
   most 6 fields (k_stmt, k_expr, k_binary, k_unary, k_type, k_type_or_none) *)
Theorem C01_depth_fuel_input : forall (A G D C E : Type) (OPS : ops A G D C) (d : nat)
    (s : pstate A G D E), wf s -> 6 * (meas s + 1) <= d ->
  parse_file OPS (parsers_at OPS d) s <> Fuel /\
  entry_expression OPS (parsers_at OPS d) s <> Fuel /\
  entry_stmt OPS (parsers_at OPS d) s <> Fuel.
Proof. exact no_fuel_small_entries. Qed.
Print Assumptions C01_depth_fuel_input.

Theorem C01_depth_fuel_input_stmts : forall (A G D C E : Type) (OPS : ops A G D C) (d k : nat)
    (acc : list (node A C)) (s : pstate A G D E), wf s -> 6 * (meas s + 1) <= d ->
  stmts_run OPS (parsers_at OPS d) k acc s <> Fuel.
Proof. exact no_fuel_small_stmts_run. Qed.
Print Assumptions C01_depth_fuel_input_stmts.

Theorem C01_total_input : forall (A G D C E : Type) (OPS : ops A G D C) (d : nat)
    (s : pstate A G D E), wf s -> 6 * (meas s + 1) <= d ->
  (exists x s', parse_file OPS (parsers_at OPS d) s = Ok x s') \/
  (exists e s', parse_file OPS (parsers_at OPS d) s = Err e s').
Proof. exact total_small_parse_file. Qed.
Print Assumptions C01_total_input.

(* the public entry points of the model (file, expression, statement, n
   statements) on every prepared source, with the depth fuel the model gives
   itself (Entry.depth_fuel = 24 * (elements + 8)): a tree or an error value *)
Theorem C01_run_entry_no_fuel : forall (e : entry) (p : prepared), run_entry e p <> Fuel.
Proof. exact run_entry_no_fuel. Qed.
Print Assumptions C01_run_entry_no_fuel.

Theorem C01_run_entry_total : forall (e : entry) (p : prepared),
  (exists x s', run_entry e p = Ok x s') \/ (exists err s', run_entry e p = Err err s').
Proof. exact run_entry_total. Qed.
Print Assumptions C01_run_entry_total.

(* non-vacuity: `A + B` as an expression, 3 tokens, depth fuel 6 * (3 + 1) *)
Example C01_example :
  match entry_expression LevelWitness.tops (parsers_at LevelWitness.tops 24)
          (LevelWitness.start [LevelWitness.id_ 65%N; TOperator OAdd; LevelWitness.id_ 66%N]) with
  | Ok _ s => s_cur s = None
  | _ => False
  end.
Proof. vm_compute. reflexivity. Qed.
