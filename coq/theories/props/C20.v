(* C20 — with the serde feature enabled every tree serialises, deserialises
   back to an equal tree, and serialises again to identical output.

   The statement is about the generic model of serde's data model in Serde.v
   ([ser], [de] over a schema, serde_json as the format).  The crate's schema is
   regenerated from src/ast.rs and src/token.rs into gen/GenSchema.v, which
   proves [wf_schema repo_schema = true], instantiates the theorems below at
   the root type [File] and checks that every type reachable from [File]
   derives both traits under cfg_attr(feature = "serde") and carries no
   serde(...) attribute.  Property theorems only; proofs in
   proofs/SerdeProofs.v. *)
From Coq Require Import List String NArith Bool Arith.
From GoSyn Require Import Serde.
From GoSyn.proofs Require Import SerdeProofs.
Import ListNotations.
Open Scope string_scope.

(* [wf_schema S]: definitions have distinct names; field names of a struct
   (and of a struct variant) are distinct; variant names of an enum are
   distinct; every named type is defined; no newtype struct; no Option of a
   type that serialises to null (Option<Option<_>>, Option<()>).
   [wf_ty S t] is the same condition on the type expression at which the
   value is serialised; it holds for every [TNamed n] that has a value. *)

Theorem C20_roundtrip : forall S t v,
  wf_schema S = true -> wf_ty S t = true -> has_type S t v ->
  de S t (ser S t v) = Some v.
Proof. intros S t v Hwf Hw Ht. exact (roundtrip S Hwf v t Hw Ht). Qed.
Print Assumptions C20_roundtrip.

(* at a named type (the case of the crate: the root is [File]) the statement is
   unconditional for well-formed schemas *)
Theorem C20_roundtrip_named : forall S n v,
  wf_schema S = true -> has_type S (TNamed n) v ->
  de S (TNamed n) (ser S (TNamed n) v) = Some v.
Proof.
  intros S n v Hwf Ht.
  exact (roundtrip S Hwf v _ (has_type_named_wf S n v Ht) Ht).
Qed.
Print Assumptions C20_roundtrip_named.

(* serialising the deserialised tree gives identical output *)
Theorem C20_reserialize : forall S t v v',
  wf_schema S = true -> wf_ty S t = true -> has_type S t v ->
  de S t (ser S t v) = Some v' -> ser S t v' = ser S t v.
Proof. intros S t v v' Hwf Hw Ht. exact (reserialize S t v v' Hwf Hw Ht). Qed.
Print Assumptions C20_reserialize.

Theorem C20_reserialize_named : forall S n v v',
  wf_schema S = true -> has_type S (TNamed n) v ->
  de S (TNamed n) (ser S (TNamed n) v) = Some v' ->
  ser S (TNamed n) v' = ser S (TNamed n) v.
Proof.
  intros S n v v' Hwf Ht.
  exact (reserialize S _ v v' Hwf (has_type_named_wf S n v Ht) Ht).
Qed.
Print Assumptions C20_reserialize_named.

(* distinct trees have distinct JSON *)
Theorem C20_ser_injective : forall S t v1 v2,
  wf_schema S = true -> wf_ty S t = true ->
  has_type S t v1 -> has_type S t v2 ->
  ser S t v1 = ser S t v2 -> v1 = v2.
Proof. intros S t v1 v2. exact (ser_injective S t v1 v2). Qed.
Print Assumptions C20_ser_injective.

(* the deserialiser only returns well-typed trees, so ANY accepted JSON text
   (not only one produced by [ser]) yields a tree that round-trips *)
Theorem C20_de_sound : forall S t j v, de S t j = Some v -> has_type S t v.
Proof. intros S t j v. exact (de_sound S t j v). Qed.
Print Assumptions C20_de_sound.

Theorem C20_de_ser_de : forall S t j v,
  wf_schema S = true -> wf_ty S t = true ->
  de S t j = Some v -> de S t (ser S t v) = Some v.
Proof.
  intros S t j v Hwf Hw Hd.
  exact (roundtrip S Hwf v t Hw (de_sound S t j v Hd)).
Qed.
Print Assumptions C20_de_ser_de.

(* serde_json's default recursion limit: [de_limited lim] is [de] behind the
   guard "containers nest fewer than lim deep" (lim = 128 in serde_json unless
   disable_recursion_limit() is used).  The round trip holds exactly for the
   trees whose JSON is shallower than the limit. *)
Theorem C20_roundtrip_limited : forall lim S t v,
  wf_schema S = true -> wf_ty S t = true -> has_type S t v ->
  jdepth (ser S t v) < lim ->
  de_limited lim S t (ser S t v) = Some v.
Proof.
  intros lim S t v Hwf Hw Ht Hd. unfold de_limited.
  apply Nat.ltb_lt in Hd. rewrite Hd. exact (roundtrip S Hwf v t Hw Ht).
Qed.
Print Assumptions C20_roundtrip_limited.

Theorem C20_limit_exceeded : forall lim S t v,
  lim <= jdepth (ser S t v) -> de_limited lim S t (ser S t v) = None.
Proof.
  intros lim S t v Hd. unfold de_limited.
  apply Nat.ltb_ge in Hd. rewrite Hd. reflexivity.
Qed.
Print Assumptions C20_limit_exceeded.

(* a set of type names closed under "is mentioned by the definition of" and
   containing the root contains every reachable type (used on the generated
   schema with the per-type flags derives-both / no-serde-attribute) *)
Theorem C20_closed_reachable : forall S flags R root,
  closed_ok S flags R = true -> memb root R = true ->
  forall n, reachable S root n ->
    In n R /\ (exists d, lookup n S = Some d) /\ flag_ok flags n = true.
Proof. exact closed_reachable. Qed.
Print Assumptions C20_closed_reachable.

(* ------------------------------------------------------------------ *)
(* non-vacuity: a small schema shaped like ast.rs                      *)

Definition ex_schema : schema := [
  ("Expression",
    DEnum [("Ident", VNewtype (TNamed "Ident"));
           ("TypeAssert", VNewtype (TNamed "TypeAssertion"));  (* newtype variant holding a struct *)
           ("List", VNewtype (TVec (TNamed "Expression")));
           ("Nil", VUnit);
           ("Pair", VTuple [TUsize; TBool]);
           ("Point", VStruct [("x", TUsize); ("c", TChar)])]);
  ("Ident", DStruct [("pos", TUsize); ("name", TString)]);
  ("TypeAssertion",
    DStruct [("pos", TTuple [TUsize; TUsize]);                 (* (usize, usize) *)
             ("left", TNamed "Expression");                    (* Box<Expression> *)
             ("right", TOption (TNamed "Expression"));         (* Option<Box<Expression>> *)
             ("index", TTuple [TOption (TNamed "Expression");  (* [Option<Box<_>>; 3] *)
                               TOption (TNamed "Expression");
                               TOption (TNamed "Expression")])])
].

Definition ex_ident : value :=
  VVariant "Expression" "Ident" (VRecord "Ident" [("pos", VNum 3); ("name", VStr [120%N])]).

Definition ex_list : value :=
  VVariant "Expression" "List"
    (VSeq [VVariant "Expression" "Nil" (VTup []);
           VVariant "Expression" "Pair" (VTup [VNum 7; VBool true]);
           VVariant "Expression" "Point" (VRecord "Point" [("x", VNum 1); ("c", VChar 97)])]).

(* x.(T) with everything filled in *)
Definition ex_value : value :=
  VVariant "Expression" "TypeAssert"
    (VRecord "TypeAssertion"
       [("pos", VTup [VNum 1; VNum 2]);
        ("left", ex_ident);
        ("right", VSome ex_list);
        ("index", VTup [VNone; VSome ex_ident; VNone])]).

(* {"TypeAssert":{"pos":[1,2],"left":{"Ident":{"pos":3,"name":"x"}},
     "right":{"List":["Nil",{"Pair":[7,true]},{"Point":{"x":1,"c":"a"}}]},
     "index":[null,{"Ident":{"pos":3,"name":"x"}},null]}} *)
Definition ex_json : json :=
  let ident := JObj [("Ident", JObj [("pos", JNum 3); ("name", JStr [120%N])])] in
  JObj [("TypeAssert",
    JObj [("pos", JArr [JNum 1; JNum 2]);
          ("left", ident);
          ("right", JObj [("List",
             JArr [JStr [78; 105; 108]%N;
                   JObj [("Pair", JArr [JNum 7; JBool true])];
                   JObj [("Point", JObj [("x", JNum 1); ("c", JStr [97%N])])]])]);
          ("index", JArr [JNull; ident; JNull])])].

(* the same object with the keys in another order, an unknown key and the
   Option field "right" missing: accepted, "right" read as None *)
Definition ex_json_permuted : json :=
  let ident := JObj [("Ident", JObj [("name", JStr [120%N]); ("pos", JNum 3)])] in
  JObj [("TypeAssert",
    JObj [("index", JArr [JNull; JNull; JNull]);
          ("extra", JBool false);
          ("left", ident);
          ("pos", JArr [JNum 1; JNum 2])])].

Example C20_example :
  wf_schema ex_schema = true /\
  has_type ex_schema (TNamed "Expression") ex_value /\
  ser ex_schema (TNamed "Expression") ex_value = ex_json /\
  de ex_schema (TNamed "Expression") ex_json = Some ex_value /\
  de ex_schema (TNamed "Expression") ex_json_permuted =
    Some (VVariant "Expression" "TypeAssert"
            (VRecord "TypeAssertion"
               [("pos", VTup [VNum 1; VNum 2]); ("left", ex_ident);
                ("right", VNone); ("index", VTup [VNone; VNone; VNone])])) /\
  (* ill-typed JSON is refused *)
  de ex_schema (TNamed "Expression") (JObj [("Pair", JArr [JNum 7])]) = None /\
  de ex_schema (TNamed "Expression") (JStr [73; 100; 101; 110; 116]%N) = None.
Proof. unfold has_type. repeat split; vm_compute; reflexivity. Qed.

(* every nested expression costs two JSON containers (variant wrapper and
   struct): ex_json nests 6 deep *)
Example C20_example_depth :
  jdepth ex_json = 6 /\
  de_limited serde_json_recursion_limit ex_schema (TNamed "Expression") ex_json = Some ex_value /\
  de_limited 6 ex_schema (TNamed "Expression") ex_json = None.
Proof. repeat split; vm_compute; reflexivity. Qed.

(* the restrictions in wf_schema / wf_ty are needed: without them the round
   trip fails in the model exactly as it does in serde_json *)
Example C20_nested_option_not_roundtrippable :
  let t := TOption (TOption TUsize) in
  let v := VSome VNone in                       (* Some(None) *)
  has_type [] t v /\ ser [] t v = JNull /\ de [] t (ser [] t v) = Some VNone /\
  wf_ty [] t = false.
Proof. unfold has_type. repeat split; vm_compute; reflexivity. Qed.

Example C20_option_unit_not_roundtrippable :
  let t := TOption (TTuple []) in
  let v := VSome (VTup []) in                   (* Some(()) *)
  has_type [] t v /\ de [] t (ser [] t v) = Some VNone /\ wf_ty [] t = false.
Proof. unfold has_type. repeat split; vm_compute; reflexivity. Qed.

Example C20_duplicate_field_not_roundtrippable :      (* a serde(rename) collision *)
  let S := [("P", DStruct [("a", TUsize); ("a", TUsize)])] in
  let v := VRecord "P" [("a", VNum 1); ("a", VNum 2)] in
  has_type S (TNamed "P") v /\ de S (TNamed "P") (ser S (TNamed "P") v) = None /\
  wf_schema S = false.
Proof. unfold has_type. repeat split; vm_compute; reflexivity. Qed.
