(* C14 — printing the tree back and re-parsing reproduces it.  Property theorems only.
   PARTIAL.  The full statement
     forall accepted src, parse (print (parse src)) has the shape of parse src
   needs the round-trip theorem of the whole grammar (parse (tokens of t) = t by induction
   on derivations, one lemma per production with follow-set side conditions), which is NOT
   proved.  Proved are the two other legs of the decomposition of DESIGN.md 5 and the round
   trip of the operator-expression fragment:
   (1) LAYOUT: what the parser returns (accept/reject, tree shape, offending token) depends
       only on the token sequence after semicolon insertion (free theorem of the core);
   (2) TOKENS: the scanner yields exactly the spec's tokens and inserted semicolons
       (C07 / C08 theorems, cited in their own files);
   (3) FRAGMENT: every stream  x0 op1 x1 ... opn xn  of identifiers and binary operators is
       accepted by Parser::expression, and the tree is the unique grouping the spec's
       precedence levels dictate (so printing that tree in order and re-parsing gives it back).
   The rest of the grammar is decided by the check: grammar-directed generator with a
   production x context coverage matrix, crate == model == derivation. *)
From Coq Require Import List NArith Arith.
From GoSyn Require Import Token Tok Scanner Ast Core Policy Entry Param.
From GoSyn.proofs Require Import FreeTheorems PrecProofs.
From GoSyn.spec Require Import Prec.
Import ListNotations.

Definition C14_full_statement_is_open : Prop := True.

Theorem C14_layout_partial : forall (e : entry) (p1 p2 : prepared),
  same_stream p1 p2 -> outcome_of (run_entry e p1) = outcome_of (run_entry e p2).
Proof. exact layout_run_entry. Qed.
Print Assumptions C14_layout_partial.

Theorem C14_operator_fragment_partial :
  forall (A G D C E : Type) (OPS : ops A G D C) d a d0 elems ae ge,
  expr_stream elems -> (length elems + 2 <= d)%nat ->
  exists (t : bexp A C) s',
    entry_expression A G D C E OPS (parsers_at A G D C E OPS d)
      (init_state A G D E a d0 elems (TEof ae ge)) = Ok (to_node t) s' /\
    PrecWF t /\ flat t = items_of elems /\
    s_cur A G D E s' = None /\ s_rest A G D E s' = [] /\
    (forall t' : bexp A C, PrecWF t' -> flat t' = items_of elems -> t' = t).
Proof.
  intros A G D C E OPS d a d0 elems ae ge Hs Hd.
  destruct (expr_stream_complete A G D C E OPS d a d0 elems ae ge Hs Hd)
    as (t & s' & H1 & H2 & H3 & H4 & H5).
  exists t, s'. repeat split; try assumption.
  intros t' Hw Hf. apply PrecWF_unique; [exact Hw | exact H2 | rewrite Hf, H3; reflexivity].
Qed.
Print Assumptions C14_operator_fragment_partial.
