(* C12 -- documentation comments.

   "The documentation of the package clause, of a function, of a var / const /
   type declaration and of each spec inside a group is exactly the unbroken run
   of comments that ends on the line directly above it (no blank line in
   between).  A comment separated by a blank line, a trailing comment on the
   previous declaration's last line, or a comment inside the previous body is
   never reported as documentation of the next declaration."

   Property theorems only.  The specification is spec/Docs.v ([lead_spec],
   over an abstract line function L and line-start function LS); the proofs are
   in proofs/DocProofs.v.

   Lines are abstract because of the known defect of Scanner::line_info (C16:
   true line - 1 after line 1, pinned by the crate's unit tests): the theorems
   about the policy are stated with L := line_c lines (= Policy.line_of) and
   LS := line_start_c lines (= pos - column).  The visible consequence of that
   defect here is [C12_defect_license_header] below.

   WHAT IS PROVED
   (1) the comment loop of Parser::next computes [lead_spec]      C12_lead
   (2) blank line / trailing / fresh / positive direction, corners
   (3) whole-parser invariant through Lift.v: what any production drains is
       empty or the spec's documentation of ONE TOKEN OF THE INPUT (computed
       from that token's own comment group)                       C12_invariant
       right after Parser::next it is exactly the documentation of THE CURRENT
       token                                         C12_synced_after_next
   (4) the docs stored in File / FuncDecl / Decl / spec / Field nodes are the
       value drain returned at the entry of the production        C12_drain_sites
       the File node and all top-level declarations of a parsed file
                                                                  C12_parse_file
   WHAT IS NOT: see [C12_full_statement] at the end.                          *)
From Coq Require Import String Ascii.
From Coq Require Import List NArith Bool.
From GoSyn.spec Require Import LineCol Docs.
From GoSyn Require Import Token Tok Scanner Ast Core Policy Entry.
From GoSyn.proofs Require Import Lift StreamProofs LevelProofs DocProofs.
From GoSynGen Require Import GenClasses.
Import ListNotations.
Open Scope N_scope.

(* ------------------------------------------------------------ (0) the specification is well formed *)

(* [last_group g] is THE longest suffix of g in which consecutive comments are
   adjacent: it satisfies the declarative characterisation, which determines
   it, and no suffix that is a run is longer *)
Theorem C12_last_group : forall L g, is_last_group L g (last_group L g).
Proof. exact last_group_spec. Qed.
Print Assumptions C12_last_group.

Theorem C12_last_group_unique : forall L g r, is_last_group L g r -> r = last_group L g.
Proof. exact last_group_unique. Qed.
Print Assumptions C12_last_group_unique.

Theorem C12_last_group_longest : forall L g pre r,
  g = pre ++ r -> is_run L r -> (length r <= length (last_group L g))%nat.
Proof. exact last_group_longest. Qed.
Print Assumptions C12_last_group_longest.

(* ------------------------------------------------------------ (1) the loop is the specification *)

(* the loop and the final test of Parser::next, over any line function *)
Theorem C12_loop_is_spec : forall L LS prev g tokpos,
  nextA L LS prev g tokpos = rev (lead_spec L LS prev g tokpos).
Proof. exact nextA_spec. Qed.
Print Assumptions C12_loop_is_spec.

(* Policy.p_next is that loop over the scanner's lines *)
Theorem C12_instantiation : forall lines d prev g tokpos,
  c_lead (p_next lines d prev g tokpos)
  = nextA (line_c lines) (line_start_c lines) (eff_prev d prev) g tokpos.
Proof. exact p_next_is_nextA. Qed.
Print Assumptions C12_instantiation.

(* [eff_prev d prev]: the end of the trailing comment line_end_comment took
   (c_prev d), else the end of the previous token; lead_comments is newest first *)
Theorem C12_lead : forall lines d prev g tokpos,
  c_lead (p_next lines d prev g tokpos)
  = rev (lead_spec (line_c lines) (line_start_c lines) (eff_prev d prev) g tokpos).
Proof. exact p_next_lead. Qed.
Print Assumptions C12_lead.

(* every comment is recorded once, whatever becomes of the lead *)
Theorem C12_all_unchanged_by_lead : forall lines d prev g tokpos,
  c_all (p_next lines d prev g tokpos)
  = fold_left (fun all c => record_comment c all) g (c_all d).
Proof. exact p_next_all. Qed.
Print Assumptions C12_all_unchanged_by_lead.

(* ------------------------------------------------------------ (2) the clauses of the property *)

(* the token starts more than one line below the end of the last comment in
   front of it: no documentation *)
Theorem C12_blank_line : forall lines d prev g p c,
  last_opt g = Some c -> ~ trailing (line_start_c lines) (eff_prev d prev) c ->
  line_c lines (cend c) + 1 < line_c lines p ->
  c_lead (p_next lines d prev g (Some p)) = [].
Proof. exact p_next_blank_line. Qed.
Print Assumptions C12_blank_line.

(* a blank line between two comments: everything above it is dropped *)
Theorem C12_detached : forall lines d prev g1 c1 c2 g2 tokpos,
  line_c lines (cend c1) + 1 < line_c lines (fst c2) ->
  c_lead (p_next lines d prev (g1 ++ c1 :: c2 :: g2) tokpos)
  = c_lead (p_next lines d prev (c2 :: g2) tokpos).
Proof. exact p_next_detached. Qed.
Print Assumptions C12_detached.

(* a comment that starts on the line on which the previous token ends *)
Theorem C12_trailing : forall lines d prev g tokpos c,
  In c (c_lead (p_next lines d prev g tokpos)) ->
  ~ trailing (line_start_c lines) (eff_prev d prev) c.
Proof. exact p_next_trailing. Qed.
Print Assumptions C12_trailing.

(* the lead starts afresh at every token: only comments of this token's own
   group (none from inside the previous body, none of an earlier token), and
   the old lead plays no role *)
Theorem C12_fresh : forall lines d prev g tokpos c,
  In c (c_lead (p_next lines d prev g tokpos)) -> In c g.
Proof. exact p_next_lead_incl. Qed.
Print Assumptions C12_fresh.

Theorem C12_fresh_state : forall lines d prev g tokpos,
  p_next lines d prev g tokpos
  = p_next lines {| c_all := c_all d; c_lead := []; c_prev := c_prev d |} prev g tokpos.
Proof. exact p_next_fresh. Qed.
Print Assumptions C12_fresh_state.

(* the positive direction: an unbroken run, none of it trailing, the token
   directly below it -- all of it, in order *)
Theorem C12_whole_run : forall lines d prev g p,
  is_run (line_c lines) g ->
  (forall c, In c g -> ~ trailing (line_start_c lines) (eff_prev d prev) c) ->
  (forall c, last_opt g = Some c -> line_c lines p <= line_c lines (cend c) + 1) ->
  c_lead (p_next lines d prev g (Some p)) = rev g.
Proof. exact p_next_whole. Qed.
Print Assumptions C12_whole_run.

(* ---- corners: where the loop is not the naive rule ---- *)

(* a trailing comment still links the chain: directly above the documentation
   it does not detach it (and is not part of it) *)
Theorem C12_corner_trailing_then_docs : forall L LS prev t c p,
  trailing LS prev t -> ~ trailing LS prev c -> adjacent L t c -> attached L p c ->
  lead_spec L LS prev [t; c] (Some p) = [c].
Proof. exact corner_trailing_then_docs. Qed.
Print Assumptions C12_corner_trailing_then_docs.

(* in the middle of a run it is skipped: the documentation is then not a
   contiguous piece of the source *)
Theorem C12_corner_trailing_in_the_middle : forall L LS prev c1 t c3 p,
  ~ trailing LS prev c1 -> trailing LS prev t -> ~ trailing LS prev c3 ->
  adjacent L c1 t -> adjacent L t c3 -> attached L p c3 ->
  lead_spec L LS prev [c1; t; c3] (Some p) = [c1; c3].
Proof. exact corner_trailing_in_the_middle. Qed.
Print Assumptions C12_corner_trailing_in_the_middle.

(* the final test looks at the last KEPT comment, not at the last comment *)
Theorem C12_corner_final_test : forall L LS prev c t p,
  ~ trailing LS prev c -> trailing LS prev t -> adjacent L c t -> attached L p c ->
  lead_spec L LS prev [c; t] (Some p) = [c].
Proof. exact corner_final_test_skips_trailing. Qed.
Print Assumptions C12_corner_final_test.

(* the last two need a trailing comment AFTER one that is not: impossible when
   the line starts grow along the comment list (as they do in a scanned file);
   then the documentation is a suffix of the token's comments *)
Theorem C12_docs_are_a_suffix : forall L LS prev g,
  ls_sorted LS g -> exists pre, g = pre ++ doc_candidates L LS prev g.
Proof. exact candidates_suffix. Qed.
Print Assumptions C12_docs_are_a_suffix.

(* and that is the case under the crate's policy: on a strictly ascending line
   table (C16: the scanner's always is) and for comments in source order, the
   candidates -- hence the documentation, which is all of them or none -- are a
   contiguous suffix of the token's comments *)
Theorem C12_docs_contiguous : forall lines prev g,
  sorted_strict lines -> pos_sorted g ->
  exists pre, g = pre ++ doc_candidates (line_c lines) (line_start_c lines) prev g.
Proof. exact docs_contiguous. Qed.
Print Assumptions C12_docs_contiguous.

Theorem C12_all_or_nothing : forall L LS prev g tokpos,
  lead_spec L LS prev g tokpos = [] \/
  lead_spec L LS prev g tokpos = doc_candidates L LS prev g.
Proof. exact lead_spec_cases. Qed.
Print Assumptions C12_all_or_nothing.

(* ------------------------------------------------------------ (3) the whole parser *)

(* [doc_inv lines E whole term s]: the stream invariant, and the lead of s is
   empty or rev (lead_spec prev g' (Some pos)) for an element SE pos _ _ g of
   the input [whole] (g' = g, or g without its first comment when
   line_end_comment took that one), or the same for the end of input.
   It holds of the initial state and every primitive keeps it, so (Lift.v)
   every production keeps it, at Ok and at Err, at every depth. *)
Theorem C12_invariant : forall lines E whole term,
  prim_closed (policy_ops lines) (doc_inv lines E whole term).
Proof. exact doc_inv_closed. Qed.
Print Assumptions C12_invariant.

Theorem C12_invariant_init : forall lines E a0 d0 elems term,
  c_lead d0 = [] -> doc_inv lines E elems term (init_state a0 d0 elems term).
Proof. exact doc_inv_init. Qed.
Print Assumptions C12_invariant_init.

Theorem C12_invariant_parse_file : forall lines E whole term depth s,
  doc_inv lines E whole term s ->
  post (doc_inv lines E whole term) (doc_inv lines E whole term)
       (parse_file (policy_ops lines) (parsers_at (policy_ops lines) depth) s).
Proof. exact doc_inv_parse_file. Qed.
Print Assumptions C12_invariant_parse_file.

Theorem C12_invariant_all_productions : forall lines E whole term depth,
  Good (fun _ : unit => doc_inv lines E whole term) (fun _ => doc_inv lines E whole term)
       (parsers_at (policy_ops lines) depth).
Proof. exact doc_inv_Good. Qed.
Print Assumptions C12_invariant_all_productions.

(* what a production gets when it drains *)
Theorem C12_drain : forall lines E whole term s,
  doc_inv lines E whole term s ->
  docs_of lines E whole term (rev (fst (drain (policy_ops lines) s))).
Proof. exact drain_docs. Qed.
Print Assumptions C12_drain.

(* the link to the CURRENT token: Parser::next leaves exactly the specification's
   documentation of the token it moved onto (head of the mark = current token) *)
Theorem C12_synced_after_next : forall lines E (s s' : pstate N (list comment) cstate E),
  next (policy_ops lines) s = Ok tt s' ->
  cur_mark s' /\
  match s_mark s' with
  | SE pos a1 t g :: _ =>
      c_lead (s_d s')
      = rev (lead_spec (line_c lines) (line_start_c lines)
                       (eff_prev (s_d s) (prev_end s)) g (Some pos))
  | [] => True
  end.
Proof. exact next_synced. Qed.
Print Assumptions C12_synced_after_next.

(* ... so a production entered right after Parser::next (every declaration that
   follows a ';', the package clause, each spec after '(' or ';', each field
   after '{' or ';') stores exactly that *)
Theorem C12_docs_after_next : forall lines E (s s1 : pstate N (list comment) cstate E)
    (n : node N (list comment)),
  next (policy_ops lines) s = Ok tt s1 -> n_docs n = [fst (drain (policy_ops lines) s1)] ->
  match s_mark s1 with
  | SE pos a1 t g :: _ =>
      n_docs n = [lead_spec (line_c lines) (line_start_c lines)
                            (eff_prev (s_d s) (prev_end s)) g (Some pos)]
  | [] => True
  end.
Proof. exact docs_after_next. Qed.
Print Assumptions C12_docs_after_next.

(* [sync_inv s]: cur_mark s, and the lead is empty or the documentation of the
   token at the head of the mark.  next, line_end_comment, drain, upd_cur,
   the level and depth updates keep it (sync_next .. sync_depth in DocProofs.v);
   in such a state a drain returns nothing or exactly the current token's docs *)
Theorem C12_drain_synced : forall lines E (s : pstate N (list comment) cstate E) pos t,
  sync_inv lines E s -> s_cur s = Some (pos, t) ->
  fst (drain (policy_ops lines) s) = [] \/
  exists a1 g prev g',
    s_mark s = SE pos a1 t g :: s_rest s /\ tail_of g' g /\
    fst (drain (policy_ops lines) s)
    = lead_spec (line_c lines) (line_start_c lines) prev g' (Some pos).
Proof. exact drain_synced. Qed.
Print Assumptions C12_drain_synced.

(* ------------------------------------------------------------ (4) where the docs of the nodes come from *)

(* by inspection of each production, for ANY comment policy: the docs stored in
   the node are [fst (drain s)] for the state s in which the production was entered *)
Theorem C12_drain_sites : forall A G D C E (OPS : ops A G D C) (self : parsers A G D C E),
  (forall s n s', parse_func_decl OPS self s = Ok n s' ->
     n_tag n = GFuncDecl /\ n_docs n = [fst (drain OPS s)]) /\
  (forall k index s n s', parse_spec OPS self k index s = Ok n s' ->
     n_tag n = spec_tag k /\ n_docs n = [fst (drain OPS s)]) /\
  (forall s n s', field_decl OPS self s = Ok n s' ->
     n_tag n = GField /\ n_docs n = [fst (drain OPS s)]) /\
  (forall k s n s', parse_decl OPS self k s = Ok n s' ->
     n_tag n = decl_tag k /\
     ((n_docs n = [fst (drain OPS s)] /\
       Forall (fun sp => n_tag sp = spec_tag k /\
                         exists si : pstate A G D E, n_docs sp = [fst (drain OPS si)])
              (n_kids n)) \/
      (n_docs n = [c_empty OPS] /\
       exists sp, n_kids n = [sp] /\ n_tag sp = spec_tag k /\
                  n_docs sp = [fst (drain OPS s)]))) /\
  (forall s n s', parse_file OPS self s = Ok n s' ->
     exists s0, ensure_started OPS s = Ok tt s0 /\
                n_tag n = GFile /\ n_docs n = [fst (drain OPS s0)]).
Proof.
  intros A G D C E OPS self.
  exact (conj (func_decl_site A G D C E OPS self)
        (conj (spec_site A G D C E OPS self)
        (conj (field_decl_site A G D C E OPS self)
        (conj (decl_site A G D C E OPS self)
              (file_site A G D C E OPS self))))).
Qed.
Print Assumptions C12_drain_sites.

(* a struct field: struct_loop then lets line_end_comment add the comment that
   follows the field on the line of its ';' -- Field.comments = lead comments ++
   that trailing comment -- and the next token no longer sees it *)
Theorem C12_field_trailing : forall lines d semi g ns c c' g' d',
  p_line_end lines d semi g ns c = (c', g', d') ->
  (c' = c /\ g' = g) \/
  exists cm, c' = c ++ [cm] /\ g = cm :: g' /\ line_of lines semi = line_of lines (fst cm).
Proof. exact p_line_end_docs. Qed.
Print Assumptions C12_field_trailing.

(* the package clause, unconditionally *)
Theorem C12_package : forall lines E depth a0 d0 elems (term : sterm N (list comment) E) n s',
  c_prev d0 = None ->
  parse_file (policy_ops lines) (parsers_at (policy_ops lines) depth)
             (init_state a0 d0 elems term) = Ok n s' ->
  exists pos a1 t g r,
    elems = SE pos a1 t g :: r /\ n_tag n = GFile /\
    n_docs n = [lead_spec (line_c lines) (line_start_c lines) None g (Some pos)].
Proof. exact package_docs. Qed.
Print Assumptions C12_package.

(* a parsed file: the File node has exactly the documentation of the first
   token; every top-level declaration ([decl_ok]: a FuncDecl; a grouped
   declaration and each of its specs; the spec of a single declaration) has
   docs [d] with [d] empty or the specification's documentation of one token of
   the input *)
Theorem C12_parse_file : forall lines E depth a0 d0 elems (term : sterm N (list comment) E) n s',
  c_prev d0 = None -> c_lead d0 = [] ->
  parse_file (policy_ops lines) (parsers_at (policy_ops lines) depth)
             (init_state a0 d0 elems term) = Ok n s' ->
  (exists pos a1 t g r,
      elems = SE pos a1 t g :: r /\
      n_docs n = [lead_spec (line_c lines) (line_start_c lines) None g (Some pos)]) /\
  exists pkg imports decls,
    n_kids n = [pkg; nlist imports; nlist decls] /\
    Forall (decl_ok lines E elems term) decls.
Proof. exact parse_file_docs. Qed.
Print Assumptions C12_parse_file.

(* ------------------------------------------------------------ examples *)

Definition src_of (s : string) : str := map N_of_ascii (list_ascii_of_string s).
Definition LF : string := String (ascii_of_nat 10) EmptyString.
Definition TAB : string := String (ascii_of_nat 9) EmptyString.

(* a line table with a line start every 10 characters: true line k starts at
   10 (k - 1); line_of reports k - 1 from line 2 on *)
Definition tbl : list N := [10; 20; 30; 40; 50; 60].
Definition d_empty : cstate := {| c_all := []; c_lead := []; c_prev := None |}.
Definition d_old : cstate :=
  {| c_all := [(2, src_of "// old")]; c_lead := [(2, src_of "// old")]; c_prev := None |}.

(* a documentation group: two comment lines directly above the token at 40;
   the previous token ended at 5; the lead of the token left behind is gone *)
Example C12_ex_doc_group :
  c_lead (p_next tbl d_old (Some 5) [(20, src_of "// a"); (30, src_of "// b")] (Some 40))
  = [(30, src_of "// b"); (20, src_of "// a")].
Proof. vm_compute. reflexivity. Qed.

(* a blank line between the group and the token (at 50): nothing *)
Example C12_ex_detached_group :
  c_lead (p_next tbl d_empty (Some 5) [(20, src_of "// a"); (30, src_of "// b")] (Some 50))
  = [].
Proof. vm_compute. reflexivity. Qed.

(* a blank line inside: only what is below it *)
Example C12_ex_blank_line_inside :
  c_lead (p_next tbl d_empty (Some 5) [(20, src_of "// a"); (40, src_of "// b")] (Some 50))
  = [(40, src_of "// b")].
Proof. vm_compute. reflexivity. Qed.

(* the previous token ends at 23; the comment at 25 is on its line: trailing,
   not documentation; the comment on the next line is *)
Example C12_ex_trailing :
  c_lead (p_next tbl d_empty (Some 23) [(25, src_of "// t"); (30, src_of "// d")] (Some 40))
  = [(30, src_of "// d")].
Proof. vm_compute. reflexivity. Qed.

(* after line_end_comment took a trailing comment that ended at 29 (c_prev), a
   second comment on that line is still trailing *)
Example C12_ex_trailing_after_line_end :
  c_lead (p_next tbl {| c_all := []; c_lead := []; c_prev := Some 29 |} (Some 23)
                 [(29, src_of "/**/"); (40, src_of "// d")] (Some 50))
  = [(40, src_of "// d")].
Proof. vm_compute. reflexivity. Qed.

(* the known defect of line_info (lines 1 and 2 collide) seen from here: a
   comment on line 1, a blank line 2, the token on line 3 -- reported as
   documentation although a blank line separates them *)
Example C12_defect_license_header :
  c_lead (p_next [5; 6] d_empty None [(0, src_of "// a")] (Some 6)) = [(0, src_of "// a")].
Proof. vm_compute. reflexivity. Qed.

(* ---- through the scanner and the whole parser ---- *)

Fixpoint docs_list (n : cnode) : list (tag * list (list comment)) :=
  match n with
  | Nd t ps ats docs ks =>
      (match docs with [] => [] | _ => [(t, docs)] end) ++ flat_map docs_list ks
  end.

(* (tag, docs) of every node that has a docs slot, in source order *)
Definition file_docs (src : string) : option (list (tag * list (list comment))) :=
  match prepare repo_uclass (src_of src) with
  | Some p => match run_entry EFile p with
              | Ok n _ => Some (docs_list n)
              | _ => None
              end
  | None => None
  end.

Definition sample : string :=
  ("// Package p." ++ LF ++
   "package p" ++ LF ++
   LF ++
   "// detached" ++ LF ++
   LF ++
   "// F does." ++ LF ++
   "// More." ++ LF ++
   "func F() {} // trailing F" ++ LF ++
   "// G doc" ++ LF ++
   "func G() {" ++ LF ++
   TAB ++ "// inside G" ++ LF ++
   "}" ++ LF ++
   "var (" ++ LF ++
   TAB ++ "// A doc" ++ LF ++
   TAB ++ "A int // trailing A" ++ LF ++
   LF ++
   TAB ++ "B int" ++ LF ++
   ")" ++ LF)%string.

Example C12_ex_file :
  file_docs sample =
  Some [(GFile, [[(0, src_of "// Package p.")]]);
        (GFuncDecl, [[(38, src_of "// F does."); (49, src_of "// More.")]]);
        (GFuncDecl, [[(84, src_of "// G doc")]]);          (* not "// trailing F" *)
        (GDeclVar, [[]]);
        (GVarSpec, [[(126, src_of "// A doc")]]);
        (GVarSpec, [[]])].                                 (* not "// trailing A" *)
Proof. vm_compute. reflexivity. Qed.

(* the defect above, end to end: a licence header, a blank line, the package clause *)
Example C12_defect_license_header_file :
  file_docs ("// license" ++ LF ++ LF ++ "package p" ++ LF)%string
  = Some [(GFile, [[(0, src_of "// license")]])].
Proof. vm_compute. reflexivity. Qed.

(* from line 3 on a blank line detaches *)
Example C12_ex_detached_file :
  file_docs ("package p" ++ LF ++ LF ++ "// license" ++ LF ++ LF ++ "func f()" ++ LF)%string
  = Some [(GFile, [[]]); (GFuncDecl, [[]])].
Proof. vm_compute. reflexivity. Qed.

(* ------------------------------------------------------------ what is missing *)

(* The statement one would like: every production keeps "the lead is empty or
   the documentation of the CURRENT token" ([sync_inv]) -- then every drain,
   wherever it happens, returns nothing or exactly the documentation of the
   token the production is looking at.  OPEN: not proved here. *)
Definition C12_full_statement : Prop :=
  forall lines E depth,
    Good (fun _ : unit => sync_inv lines E) (fun _ _ => True)
         (parsers_at (policy_ops lines) depth).

(* It cannot come out of the lifting framework, because [sync_inv] is not kept
   by one of the primitives: Parser::goback restores the token but not the
   comment state (d_goback is the identity), so right after backtracking the
   lead belongs to a LATER token.  (A hand-made stream: `type T [ N` with a
   comment line in front of N; three and four Parser::next calls, then goback.) *)
Definition lines0 : list N := [10; 20].
Definition elems0 : list (selem N (list comment)) :=
  [SE 0 4 (TKeyword KType) []; SE 5 6 (TLiteral LIdent [84]) [];
   SE 7 8 (TOperator OBarackLeft) [];
   SE 20 21 (TLiteral LIdent [78]) [(10, src_of "// c")]].
Definition start0 : cstate_t := init_state 0 d_empty elems0 (TEof 30 []).

Fixpoint nexts (OP : ops N (list comment) cstate (list comment)) (k : nat) (s : cstate_t)
  : option cstate_t :=
  match k with
  | O => Some s
  | S k' => match next OP s with Ok _ s' => nexts OP k' s' | _ => None end
  end.

Lemma nexts_sync lines : forall k s r,
  nexts (policy_ops lines) (S k) s = Some r -> sync_inv lines scan_err r.
Proof.
  induction k as [|k IH]; intros s r; cbn [nexts];
    destruct (next (policy_ops lines) s) as [[] s1| | |] eqn:Hn; try discriminate.
  - intros [= <-]. eapply sync_next. exact Hn.
  - apply IH.
Qed.

Theorem C12_sync_not_closed_under_goback :
  exists lines (s0 s s' : cstate_t),
    sync_inv lines scan_err s0 /\ sync_inv lines scan_err s /\
    goback (policy_ops lines) (preback s0) s = Ok tt s' /\
    ~ sync_inv lines scan_err s'.
Proof.
  exists lines0.
  destruct (nexts (policy_ops lines0) 3 start0) as [s3|] eqn:H3;
    [ | vm_compute in H3; discriminate ].
  destruct (nexts (policy_ops lines0) 4 start0) as [s4|] eqn:H4;
    [ | vm_compute in H4; discriminate ].
  pose proof (nexts_sync _ _ _ _ H3) as S3. pose proof (nexts_sync _ _ _ _ H4) as S4.
  vm_compute in H3, H4. injection H3 as <-. injection H4 as <-.
  eexists _, _, _. split; [ exact S3 | ]. split; [ exact S4 | ]. split; [ reflexivity | ].
  intros [_ [Hl | Hs]]; [ vm_compute in Hl; discriminate | ].
  eapply (synced_no_comments lines0 scan_err) in Hs; [ | reflexivity ].
  vm_compute in Hs. discriminate.
Qed.
Print Assumptions C12_sync_not_closed_under_goback.

(* the same through the scanner and a production, on the one path where a
   non-empty stale lead can arise from a scanned text: the interface loop.
   "interface { f( <newline> // c <newline> +) }": parse_method_elem reads f and
   '(' , moves onto '+' (lead = [// c]) and fails there; the loop drops the
   error, KEEPS the state and goes back to f.  (The parse as a whole then
   fails -- `f (` cannot be a type element -- so no tree ever shows this.) *)
Definition stale_state : option cstate_t :=
  match prepare repo_uclass
          (src_of ("package p" ++ LF ++ "type I interface { f(" ++ LF ++ "// c" ++ LF ++
                   "+) }" ++ LF)%string) with
  | Some p =>
      let OP := policy_ops (pr_lines p) in
      match nexts OP 8 (start_state p) with                (* current: f *)
      | Some s8 =>
          match parse_method_elem OP (parsers_at OP 20) s8 with
          | Err _ s1 =>
              match goback OP (preback s8) s1 with Ok _ s' => Some s' | _ => None end
          | _ => None
          end
      | None => None
      end
  | None => None
  end.

Example C12_stale_after_goback :
  match stale_state with
  | Some s =>
      cur_mark s /\ s_cur s = Some (29, TLiteral LIdent [102]) /\
      (exists r, s_mark s = SE 29 30 (TLiteral LIdent [102]) [] :: r) /\
      c_lead (s_d s) = [(32, src_of "// c")]
  | None => False
  end.
Proof. vm_compute. repeat split; eauto. Qed.

(* A stale lead is harmless in the two places where the parser backtracks
   (the type-parameter path of parse_type_spec, the interface loop): each
   continues with a production that calls Parser::next before anything drains
   (type_parameters: expect '['; parse_type_elem: the identifier) -- but that
   is a fact about those productions, not an invariant of the primitives.
   Moreover, in a scanned text the lead at the moment of backtracking is empty
   whenever the parse goes on successfully: the token current at that moment
   follows an identifier / operand, so a comment on a line of its own in front
   of it comes after the automatic ';' and belongs to a later token.  Neither
   remark is proved here.  What IS proved for all states is C12_invariant (the
   lead is always the documentation of SOME token of the input, never a
   mixture), and for the states right after Parser::next
   C12_synced_after_next / C12_docs_after_next. *)
Theorem C12_synced_needs_docs : forall lines E (s : pstate N (list comment) cstate E) pos a1 t r,
  s_mark s = SE pos a1 t [] :: r -> synced lines E s -> c_lead (s_d s) = [].
Proof. exact synced_no_comments. Qed.
Print Assumptions C12_synced_needs_docs.
