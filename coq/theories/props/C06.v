(* C06 -- token accounting: whenever a source is accepted, the identifier and
   literal tokens of the source are exactly the identifier and literal leaves of
   the tree (same text, same offset, each once, in order), and its round, square
   and curly bracket tokens are properly nested.
   Property theorems only; proofs in proofs/Account{Base,Expr,Stmt,Proofs}.v.

   [leaves f]      the (position, token) of every Ident / BasicLit / StringLit
                   leaf of the tree, in traversal order (children in source order),
                   rebuilt as TLiteral LIdent name / TLiteral k text / TLiteral LString text
   [identlits l]   the elements of l whose token is an identifier or literal
   [pe]            (start, token) of a stream element
   [remaining s]   the current token followed by the unread stream
   [run st l]      the bracket tokens of l run through a stack machine from the
                   stack st (None: a closing bracket that does not match)
   [balanced l]    run [] l = Some []
   The one exception of the model: an identifier spelled "." is counted on
   neither side (the parser builds the Ident "." of `import . "x"` from the
   operator token; the scanner never produces an identifier "."), see
   C06_accounted_plain.
 *)
From Coq Require Import List NArith.
From GoSyn Require Import Token Tok Ast Core.
From GoSyn.proofs Require Import Lift AccountBase AccountExpr AccountStmt AccountProofs.
Import ListNotations.

(* the whole file, from the initial state: everything is consumed and accounted *)
Theorem C06_accounted :
  forall A G D C E (OPS : ops A G D C) d a0 d0 elems (term : sterm A G E) f s',
  parse_file OPS (parsers_at OPS d) (init_state a0 d0 elems term) = Ok f s' ->
  leaves f = identlits (map pe elems) /\ balanced (map pe elems) /\
  s_cur s' = None /\ s_rest s' = [].
Proof. exact parse_file_accounted_init. Qed.
Print Assumptions C06_accounted.

(* no identifier token spelled ".": the leaves are the tokens of class Literal *)
Theorem C06_accounted_plain :
  forall A G D C E (OPS : ops A G D C) d a0 d0 elems (term : sterm A G E) f s',
  Forall no_dot_ident (map pe elems) ->
  parse_file OPS (parsers_at OPS d) (init_state a0 d0 elems term) = Ok f s' ->
  leaves f = filter is_plain_lit (map pe elems).
Proof. exact parse_file_accounted_plain. Qed.
Print Assumptions C06_accounted_plain.

(* from any well-formed state ([wf]: the backtracking mark is the remaining
   input) whose current token is not an identifier / literal / bracket; the
   bracket stack is left as it was found, whatever it was *)
Theorem C06_parse_file :
  forall A G D C E (OPS : ops A G D C) d (s : pstate A G D E) f s' st,
  wf s -> plaincur s -> parse_file OPS (parsers_at OPS d) s = Ok f s' ->
  wf s' /\ exists used, remaining s = used ++ remaining s' /\ leaves f = identlits used /\
                        run st used = Some st.
Proof. exact parse_file_accounted. Qed.
Print Assumptions C06_parse_file.

Theorem C06_entry_expression :
  forall A G D C E (OPS : ops A G D C) d (s : pstate A G D E) e s' st,
  wf s -> plaincur s -> entry_expression OPS (parsers_at OPS d) s = Ok e s' ->
  wf s' /\ exists used, remaining s = used ++ remaining s' /\ leaves e = identlits used /\
                        run st used = Some st.
Proof. exact entry_expression_accounted. Qed.
Print Assumptions C06_entry_expression.

Theorem C06_entry_stmt :
  forall A G D C E (OPS : ops A G D C) d (s : pstate A G D E) e s' st,
  wf s -> plaincur s -> entry_stmt OPS (parsers_at OPS d) s = Ok e s' ->
  wf s' /\ exists used, remaining s = used ++ remaining s' /\ leaves e = identlits used /\
                        run st used = Some st.
Proof. exact entry_stmt_accounted. Qed.
Print Assumptions C06_entry_stmt.

(* every field of the parser table, at every depth ([Spec LV pre Sh p]: whenever
   p s = Ok r s', the tokens between s and s' are accounted for by LV r) *)
Theorem C06_table :
  forall A G D C E (OPS : ops A G D C) d, GoodA (E:=E) (parsers_at OPS d).
Proof. exact GoodA_parsers_at. Qed.
Print Assumptions C06_table.

(* non-vacuity:  package p; import . "x"; var a, b = f(1), "s"; func g(c int) { c++ }  *)
Module C06Example.
Definition tops : ops nat unit unit unit :=
  {| d_next := fun d _ _ _ => d; d_goback := fun d => d; d_drain := fun d => (tt, d);
     d_line_end := fun d _ g _ c => (c, g, d); c_empty := tt; a_plus2 := fun a => a + 2 |}.
Fixpoint stream_from (n : nat) (l : list token) : list (selem nat unit) :=
  match l with [] => [] | t :: r => SE n (S n) t tt :: stream_from (S n) r end.
Definition id_ (c : N) : token := TLiteral LIdent [c].
Definition src : list (selem nat unit) :=
  stream_from 0
    [TKeyword KPackage; id_ 112; TOperator OSemiColon;
     TKeyword KImport; TOperator ODot; TLiteral LString [120%N]; TOperator OSemiColon;
     TKeyword KVar; id_ 97; TOperator OComma; id_ 98; TOperator OAssign;
     id_ 102; TOperator OParenLeft; TLiteral LInteger [49%N]; TOperator OParenRight;
     TOperator OComma; TLiteral LString [115%N]; TOperator OSemiColon;
     TKeyword KFunc; id_ 103; TOperator OParenLeft; id_ 99; id_ 105; TOperator OParenRight;
     TOperator OBraceLeft; id_ 99; TOperator OInc; TOperator OBraceRight; TOperator OSemiColon].

Example accepted_and_accounted :
  match parse_file tops (parsers_at tops 12) (init_state 0 tt src (@TEof nat unit unit 30 tt)) with
  | Ok f _ => leaves f = identlits (map pe src) /\ length (leaves f) = 11 /\
              balanced (map pe src)
  | _ => False
  end.
Proof. vm_compute. repeat split; reflexivity. Qed.
End C06Example.
