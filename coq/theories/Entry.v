(* The public entry points on a source text: scan, group, run the core with
   the crate's comment policy, and render canonical text for the
   correspondence check. *)
From Coq Require Import List NArith Bool.
From GoSyn Require Import Token Tok Scanner Ast Core Policy Render TagNames.
Import ListNotations.
Open Scope N_scope.

Notation cnode := (node N (list comment)).
Notation cstate_t := (pstate N (list comment) cstate scan_err).
Notation cres := (res N (list comment) cstate scan_err).

Section Entry.
Variable U : uclass.

Record prepared : Type := {
  pr_lines : list N;
  pr_elems : list (selem N (list comment));
  pr_term : sterm N (list comment) scan_err
}.

Definition prepare (src : str) : option prepared :=
  let '(ts, e) := scan_all_ext U src in
  let '(es, tail) := group_stream ts [] in
  match e with
  | SE_Eof s =>
      Some {| pr_lines := rev (s_lines s); pr_elems := es;
              pr_term := TEof (s_pos s) tail |}
  | SE_Err p k s =>
      let lines := rev (s_lines s) in
      Some {| pr_lines := lines; pr_elems := es;
              pr_term := TErr (line_info lines p) tail |}
  | SE_Fuel => None
  end.

Definition depth_fuel (p : prepared) : nat := 24 * (length (pr_elems p) + 8).

Inductive entry : Set := EFile | EExpr | EStmt | EStmts (n : nat).

Definition start_state (p : prepared) : cstate_t :=
  init_state N (list comment) cstate scan_err 0 {| c_all := []; c_lead := []; c_prev := None |}
             (pr_elems p) (pr_term p).

Definition run_entry (e : entry) (p : prepared) : cres cnode :=
  let O := policy_ops (pr_lines p) in
  let P := parsers_at N (list comment) cstate (list comment) scan_err O (depth_fuel p) in
  let s0 := start_state p in
  match e with
  | EFile => parse_file N (list comment) cstate (list comment) scan_err O P s0
  | EExpr => entry_expression N (list comment) cstate (list comment) scan_err O P s0
  | EStmt => entry_stmt N (list comment) cstate (list comment) scan_err O P s0
  | EStmts n =>
      (* n successive Parser::parse_stmt calls on one parser: a Block-less list *)
      (fix go (k : nat) (acc : list cnode) (s : cstate_t) : cres cnode :=
         match k with
         | O => Ok (nlist acc) s
         | S k' =>
             match entry_stmt N (list comment) cstate (list comment) scan_err O P s with
             | Ok st s' => go k' (acc ++ [st]) s'
             | Err e s' => Err e s'
             | Panic n => Panic n
             | Fuel => Fuel
             end
         end) n [] s0
  end.

(* ------------------------------------------------------------ rendering *)

Definition render_comment (c : comment) : str := dec (fst c) ++ [58] ++ esc (snd c).

Definition render_attr (a : attr) : str :=
  match a with
  | AStr s => [115; 58] ++ esc s
  | AOp o => [111; 58] ++ op_str o
  | AKw k => [107; 58] ++ kw_str k
  | ALk k => [108; 58; lk_tag k]
  | ABool b => [98; 58; if b then 49 else 48]
  | ADir d => [100; 58; 48 + N.of_nat d]
  end.

Fixpoint render_node (n : cnode) : str :=
  match n with
  | Nd t ps ats docs ks =>
      [40] ++ tag_name t ++
      flat_map (fun p => [32; 64] ++ dec p) ps ++
      flat_map (fun a => 32 :: render_attr a) ats ++
      flat_map (fun d => [32; 35; 91] ++ join sp (map render_comment d) ++ [93]) docs ++
      flat_map (fun k => 32 :: render_node k) ks ++ [41]
  end.

Definition render_perr (lines : list N) (e : perr N scan_err) : str :=
  let loc (p : N) := let '(l, c) := line_info lines p in dec l ++ sp ++ dec c in
  match e with
  | PUnexpected p actual _ =>
      [69; 82; 82; 32; 117; 32] ++ loc p ++ sp ++
      match actual with
      | Some t => render_tok (0, t)
      | None => [69; 79; 70]
      end
  | PElse p _ => [69; 82; 82; 32; 101; 32] ++ loc p
  | PScan (l, c) => [69; 82; 82; 32; 101; 32] ++ dec l ++ sp ++ dec c
  end.

(* "OK <tree> | c1 c2 ..."  |  "ERR u <line> <col> <tok>"  |  "ERR e <line> <col>" *)
Definition render_result (p : prepared) (r : cres cnode) : str :=
  match r with
  | Ok n s =>
      [79; 75; 32] ++ render_node n ++ [32; 124; 32] ++
      join sp (map render_comment (rev (c_all (s_d _ _ _ _ s))))
  | Err e _ => render_perr (pr_lines p) e
  | Panic n => [80; 65; 78; 73; 67; 32] ++ dec (N.of_nat n)
  | Fuel => [70; 85; 69; 76]
  end.

(* " ; state=<expr_level>,<depth>": the state an entry point leaves behind (expr_level = s_lp - s_ln - 1) *)
Definition render_state (s : cstate_t) : str :=
  let lp := N.of_nat (s_lp _ _ _ _ s) in
  let ln := N.of_nat (s_ln _ _ _ _ s) + 1 in
  [32; 59; 32; 115; 116; 97; 116; 101; 61] ++
  (if ln <=? lp then dec (lp - ln) else [45] ++ dec (ln - lp)) ++ [44] ++ dec (N.of_nat (s_depth _ _ _ _ s)).

Definition result_state (p : prepared) (r : cres cnode) : str :=
  match r with
  | Ok _ s => render_state s
  | Err _ s => render_state s
  | _ => []
  end.

(* which error site of the model fired (used only to measure and to steer the coverage of the
   rejected-input families; sites are the numbers written in Core.v) *)
Definition result_site (r : cres cnode) : str :=
  match r with
  | Ok _ _ => [111; 107]
  | Err (PUnexpected _ _ n) _ => [117] ++ dec (N.of_nat n)
  | Err (PElse _ n) _ => [101] ++ dec (N.of_nat n)
  | Err (PScan _) _ => [115]
  | Panic n => [112] ++ dec (N.of_nat n)
  | Fuel => [102]
  end.
Definition run_site (e : entry) (src : str) : str :=
  match prepare src with
  | Some p => result_site (run_entry e p)
  | None => [102]
  end.

(* the comment list is part of the line only for parse_file *)
Definition run_parse_state (e : entry) (src : str) : str * str :=
  match prepare src with
  | Some p => let r := run_entry e p in (render_result p r, result_state p r)
  | None => ([70; 85; 69; 76], [])
  end.

Definition run_parse (e : entry) (src : str) : str :=
  match prepare src with
  | Some p => render_result p (run_entry e p)
  | None => [70; 85; 69; 76]
  end.

End Entry.
